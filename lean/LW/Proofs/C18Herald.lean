/-
  LW.Proofs.C18Herald — add_heralds_to_state / remove_heralds_from_state.
-/
import Mathlib.Data.List.Sort
import Mathlib.Data.List.Nodup
import Mathlib.Data.List.Perm.Basic
import Mathlib.Data.List.Range
import LW.Proofs.C18Annot

namespace LW.SV

/-! ### the two projections of a state with herald modes -/

/-- is position `j` a herald mode of `h` -/
def isKey (h : HDict) (j : Nat) : Bool := (h.get? (j : Int)).isSome

/-- the entries at positions `i, i+1, …` that are not selected by `P` -/
def dropKeys (P : Nat → Bool) : Nat → List Int → List Int
  | _, [] => []
  | i, x :: t => if P i then dropKeys P (i + 1) t else x :: dropKeys P (i + 1) t

/-- number of positions in `[i, i+k)` not selected by `P` -/
def nonKeys (P : Nat → Bool) : Nat → Nat → Nat
  | _, 0 => 0
  | i, k + 1 => (if P i then 0 else 1) + nonKeys P (i + 1) k

theorem dropKeys_length (P : Nat → Bool) : ∀ (t : List Int) (i : Nat),
    (dropKeys P i t).length = nonKeys P i t.length
  | [], _ => rfl
  | x :: t, i => by
    simp only [dropKeys, List.length_cons, nonKeys]
    split <;> simp [dropKeys_length P t (i + 1)]; omega

theorem dropKeys_congr {P Q : Nat → Bool} : ∀ (t : List Int) (i : Nat),
    (∀ j, i ≤ j → j < i + t.length → P j = Q j) → dropKeys P i t = dropKeys Q i t
  | [], _, _ => rfl
  | x :: t, i, h => by
    have h0 : P i = Q i := h i (Nat.le_refl _) (by simp)
    have ih := dropKeys_congr (P := P) (Q := Q) t (i + 1) (fun j h1 h2 => h j (by omega) (by simp at h2 ⊢; omega))
    simp only [dropKeys, h0, ih]

theorem dropKeys_none {P : Nat → Bool} : ∀ (t : List Int) (i : Nat),
    (∀ j, i ≤ j → j < i + t.length → P j = false) → dropKeys P i t = t
  | [], _, _ => rfl
  | x :: t, i, h => by
    have h0 : P i = false := h i (Nat.le_refl _) (by simp)
    have ih := dropKeys_none (P := P) t (i + 1) (fun j h1 h2 => h j (by omega) (by simp at h2 ⊢; omega))
    simp [dropKeys, h0, ih]

/-! ### `add_heralds_to_state` -/

theorem addGo_spec (h : HDict) : ∀ (k i : Nat) (st t : List Int), addGo h i k st = .ok t →
    t.length = k ∧ nonKeys (isKey h) i k ≤ st.length ∧
    dropKeys (isKey h) i t = st.take (nonKeys (isKey h) i k) ∧
    (∀ j v, j < k → h.get? ((i + j : Nat) : Int) = some v → t[j]? = some v) := by
  intro k
  induction k with
  | zero =>
    intro i st t ht
    simp only [addGo, Except.ok.injEq] at ht
    subst ht
    simp [nonKeys, dropKeys]
  | succ k ih =>
    intro i st t ht
    unfold addGo at ht
    cases hg : h.get? (i : Int) with
    | some v =>
      have hk : isKey h i = true := by simp [isKey, hg]
      cases hr : addGo h (i + 1) k st with
      | error e => simp [hg, hr, bind, Except.bind] at ht
      | ok t' =>
        simp only [hg, hr, bind, Except.bind, pure, Except.pure, Except.ok.injEq] at ht
        subst ht
        obtain ⟨h1, h2, h3, h4⟩ := ih (i + 1) st t' hr
        refine ⟨by simp [h1], by simpa [nonKeys, hk] using h2, by simpa [dropKeys, nonKeys, hk] using h3, ?_⟩
        intro j w hj hw
        cases j with
        | zero =>
          simp only [Nat.add_zero] at hw
          rw [hg] at hw
          simpa using hw
        | succ j =>
          have : ((i + (j + 1) : Nat) : Int) = ((i + 1 + j : Nat) : Int) := by omega
          rw [this] at hw
          simpa using h4 j w (by omega) hw
    | none =>
      have hk : isKey h i = false := by simp [isKey, hg]
      cases st with
      | nil => simp [hg] at ht
      | cons x st' =>
        cases hr : addGo h (i + 1) k st' with
        | error e => simp [hg, hr, bind, Except.bind] at ht
        | ok t' =>
          simp only [hg, hr, bind, Except.bind, pure, Except.pure, Except.ok.injEq] at ht
          subst ht
          obtain ⟨h1, h2, h3, h4⟩ := ih (i + 1) st' t' hr
          refine ⟨by simp [h1], by simp [nonKeys, hk]; omega, ?_, ?_⟩
          · simp only [dropKeys, nonKeys, hk, Bool.false_eq_true, if_false, h3]
            rw [Nat.add_comm 1, List.take_succ_cons]
          · intro j w hj hw
            cases j with
            | zero =>
              simp only [Nat.add_zero] at hw
              rw [hg] at hw
              cases hw
            | succ j =>
              have : ((i + (j + 1) : Nat) : Int) = ((i + 1 + j : Nat) : Int) := by omega
              rw [this] at hw
              simpa using h4 j w (by omega) hw

theorem addGo_ok_of_le (h : HDict) : ∀ (k i : Nat) (st : List Int), nonKeys (isKey h) i k ≤ st.length →
    ∃ t, addGo h i k st = .ok t := by
  intro k
  induction k with
  | zero => intro i st _; exact ⟨[], rfl⟩
  | succ k ih =>
    intro i st hle
    unfold addGo
    cases hg : h.get? (i : Int) with
    | some v =>
      have hk : isKey h i = true := by simp [isKey, hg]
      obtain ⟨t', ht'⟩ := ih (i + 1) st (by simpa [nonKeys, hk] using hle)
      exact ⟨v :: t', by simp [ht', bind, Except.bind, pure, Except.pure]⟩
    | none =>
      have hk : isKey h i = false := by simp [isKey, hg]
      cases st with
      | nil => simp [nonKeys, hk] at hle
      | cons x st' =>
        obtain ⟨t', ht'⟩ := ih (i + 1) st' (by simp [nonKeys, hk] at hle; omega)
        exact ⟨x :: t', by simp [ht', bind, Except.bind, pure, Except.pure]⟩

/-- only `h.get?` matters -/
theorem addGo_congr {h h' : HDict} (hh : ∀ k, h.get? k = h'.get? k) : ∀ (k i : Nat) (st : List Int),
    addGo h i k st = addGo h' i k st := by
  intro k
  induction k with
  | zero => intro i st; rfl
  | succ k ih =>
    intro i st
    unfold addGo
    rw [hh]
    cases h'.get? (i : Int) with
    | some v => simp only [ih]
    | none =>
      cases st with
      | nil => rfl
      | cons x st' => simp only [ih]


/-! ### counting herald positions -/

def HDict.keys (h : HDict) : List Int := h.map (·.1)

theorem HDict.get?_isSome_iff (h : HDict) (k : Int) : (h.get? k).isSome ↔ k ∈ h.keys := by
  simp only [HDict.get?, Option.isSome_map, List.find?_isSome, HDict.keys, List.mem_map]
  constructor
  · rintro ⟨x, hx, he⟩
    exact ⟨x, hx, by simpa using he⟩
  · rintro ⟨x, hx, he⟩
    exact ⟨x, hx, by simpa using he⟩

theorem HDict.get?_eq_some_iff (h : HDict) (hn : h.keys.Nodup) (k v : Int) :
    h.get? k = some v ↔ (k, v) ∈ h := by
  induction h with
  | nil => simp [HDict.get?]
  | cons p ps ih =>
    simp only [HDict.keys, List.map_cons, List.nodup_cons] at hn
    have ih' := ih hn.2
    simp only [HDict.get?, List.find?_cons] at ih' ⊢
    by_cases hp : p.1 = k
    · simp only [hp, BEq.rfl, Option.map_some, Option.some.injEq, List.mem_cons]
      constructor
      · intro hv; left; rw [← hv, ← hp]
      · rintro (h1 | h1)
        · rw [← h1]
        · exfalso
          apply hn.1
          simp only [List.mem_map]
          exact ⟨(k, v), h1, hp.symm⟩
    · have : (p.1 == k) = false := by simpa using hp
      simp only [this, List.mem_cons]
      rw [ih']
      constructor
      · exact Or.inr
      · rintro (h1 | h1)
        · exfalso; apply hp; rw [← h1]
        · exact h1

/-- with unique keys, lookups do not depend on the order of the dictionary -/
theorem HDict.get?_perm {h h' : HDict} (hp : h.Perm h') (hn : h.keys.Nodup) (k : Int) :
    h.get? k = h'.get? k := by
  have hn' : h'.keys.Nodup := (hp.map _).nodup_iff.mp hn
  cases hg : h.get? k with
  | some v =>
    have := (HDict.get?_eq_some_iff h hn k v).mp hg
    exact ((HDict.get?_eq_some_iff h' hn' k v).mpr (hp.mem_iff.mp this)).symm
  | none =>
    cases hg' : h'.get? k with
    | none => rfl
    | some v =>
      have := (HDict.get?_eq_some_iff h' hn' k v).mp hg'
      rw [(HDict.get?_eq_some_iff h hn k v).mpr (hp.mem_iff.mpr this)] at hg
      cases hg

def keyCount (P : Nat → Bool) (i k : Nat) : Nat := ((List.range' i k).filter P).length

theorem nonKeys_add_keyCount (P : Nat → Bool) : ∀ (k i : Nat), nonKeys P i k + keyCount P i k = k := by
  intro k
  induction k with
  | zero => intro i; rfl
  | succ k ih =>
    intro i
    have := ih (i + 1)
    unfold keyCount at this ⊢
    simp only [nonKeys, List.range'_succ, List.filter_cons]
    split
    · simp only [List.length_cons]; omega
    · omega

/-- the herald positions inside `[0, n)`, counted through the key list -/
theorem keyCount_eq (h : HDict) (hn : h.keys.Nodup) (n : Nat) :
    keyCount (isKey h) 0 n = (h.keys.filter fun a => decide (0 ≤ a ∧ a < (n : Int))).length := by
  unfold keyCount
  have e1 : ((List.range' 0 n).filter (isKey h)).length
      = (((List.range' 0 n).filter (isKey h)).map (fun j : Nat => (j : Int))).length := by simp
  rw [e1]
  apply List.Perm.length_eq
  rw [List.perm_ext_iff_of_nodup]
  · intro a
    simp only [List.mem_map, List.mem_filter, List.mem_range', isKey, HDict.get?_isSome_iff,
      decide_eq_true_eq]
    constructor
    · rintro ⟨j, ⟨⟨_, hj⟩, hk⟩, rfl⟩
      exact ⟨hk, by omega, by omega⟩
    · rintro ⟨hk, h0, h1⟩
      refine ⟨a.toNat, ⟨⟨a.toNat, ?_⟩, ?_⟩, ?_⟩
      · omega
      · have : ((a.toNat : Nat) : Int) = a := by omega
        rw [this]; exact hk
      · omega
  · apply List.Nodup.map
    · intro x y hxy; simpa using hxy
    · exact (List.nodup_range' 1).filter _
  · exact hn.filter _

theorem keyCount_le (h : HDict) (hn : h.keys.Nodup) (n : Nat) : keyCount (isKey h) 0 n ≤ h.length := by
  rw [keyCount_eq h hn]
  calc _ ≤ h.keys.length := List.length_filter_le _ _
    _ = h.length := by simp [HDict.keys]

theorem keyCount_eq_length_iff (h : HDict) (hn : h.keys.Nodup) (n : Nat) :
    keyCount (isKey h) 0 n = h.length ↔ ∀ k ∈ h.keys, 0 ≤ k ∧ k < (n : Int) := by
  rw [keyCount_eq h hn]
  have : h.length = h.keys.length := by simp [HDict.keys]
  rw [this, List.length_filter_eq_length_iff]
  simp

/-! ### the property's clauses for `add_heralds_to_state` -/

/-- for a non-empty dictionary with unique keys, insertion succeeds exactly when every herald mode
lies inside the enlarged state -/
theorem addHeralds_ok_iff (s : List Int) (h : HDict) (hn : h.keys.Nodup) (hne : h ≠ []) :
    (∃ t, addHeralds s h = .ok t) ↔ ∀ k ∈ h.keys, 0 ≤ k ∧ k < ((s.length + h.length : Nat) : Int) := by
  have hemp : h.isEmpty = false := by cases h <;> simp_all
  unfold addHeralds
  simp only [hemp, Bool.false_eq_true, if_false]
  have hsum := nonKeys_add_keyCount (isKey h) (s.length + h.length) 0
  have hle := keyCount_le h hn (s.length + h.length)
  rw [← keyCount_eq_length_iff h hn]
  constructor
  · rintro ⟨t, ht⟩
    have := (addGo_spec h _ _ _ _ ht).2.1
    omega
  · intro hk
    exact addGo_ok_of_le h _ _ _ (by omega)

theorem addHeralds_empty (s : List Int) : addHeralds s [] = .ok s := rfl

/-- what a successful insertion returns: a state of the enlarged length that carries every herald
value at its mode and the original entries, in order, everywhere else -/
theorem addHeralds_spec (s : List Int) (h : HDict) (hn : h.keys.Nodup) (t : List Int)
    (ht : addHeralds s h = .ok t) :
    t.length = s.length + h.length ∧ dropKeys (isKey h) 0 t = s ∧
    (∀ k v, (k, v) ∈ h → 0 ≤ k ∧ k < (t.length : Int) ∧ t[k.toNat]? = some v) := by
  by_cases hne : h = []
  · subst hne
    simp only [addHeralds_empty, Except.ok.injEq] at ht
    subst ht
    refine ⟨by simp, ?_, by simp⟩
    exact dropKeys_none _ _ (fun j _ _ => by simp [isKey, HDict.get?])
  · have hall := (addHeralds_ok_iff s h hn hne).mp ⟨t, ht⟩
    have hemp : h.isEmpty = false := by cases h <;> simp_all
    unfold addHeralds at ht
    simp only [hemp, Bool.false_eq_true, if_false] at ht
    obtain ⟨h1, h2, h3, h4⟩ := addGo_spec h _ _ _ _ ht
    have hsum := nonKeys_add_keyCount (isKey h) (s.length + h.length) 0
    have hkc := (keyCount_eq_length_iff h hn (s.length + h.length)).mpr hall
    have hnk : nonKeys (isKey h) 0 (s.length + h.length) = s.length := by omega
    refine ⟨h1, ?_, ?_⟩
    · rw [h3, hnk, List.take_length]
    · intro k v hkv
      have hk := hall k (by simp only [HDict.keys, List.mem_map]; exact ⟨(k, v), hkv, rfl⟩)
      refine ⟨hk.1, by omega, ?_⟩
      apply h4 k.toNat v (by omega)
      have : ((0 + k.toNat : Nat) : Int) = k := by omega
      rw [this]
      exact (HDict.get?_eq_some_iff h hn k v).mpr hkv

/-- the order in which the herald dictionary was filled is irrelevant -/
theorem addHeralds_perm (s : List Int) {h h' : HDict} (hp : h.Perm h') (hn : h.keys.Nodup) :
    addHeralds s h = addHeralds s h' := by
  unfold addHeralds
  have hl : h.length = h'.length := hp.length_eq
  have he : h.isEmpty = h'.isEmpty := by
    cases h <;> cases h' <;> simp_all
  rw [he, hl, addGo_congr (fun k => HDict.get?_perm hp hn k)]


/-! ### `remove_heralds_from_state` -/

theorem dropKeys_eraseIdx (P P' : Nat → Bool) : ∀ (t : List Int) (m i : Nat), m < t.length →
    (∀ j, i + m ≤ j → P j = false) → (∀ j, P' j = (P j || decide (j = i + m))) →
    dropKeys P i (t.eraseIdx m) = dropKeys P' i t
  | [], _, _, hm, _, _ => by simp at hm
  | x :: t, 0, i, _, hP, hP' => by
    have h1 : dropKeys P i t = t := dropKeys_none t i (fun j hj _ => hP j (by omega))
    have h2 : dropKeys P' (i + 1) t = t :=
      dropKeys_none t (i + 1) (fun j hj _ => by
        rw [hP' j, hP j (by omega)]
        simp; omega)
    have h3 : P' i = true := by rw [hP' i]; simp
    simp [dropKeys, h1, h2, h3]
  | x :: t, m + 1, i, hm, hP, hP' => by
    have ih := dropKeys_eraseIdx P P' t m (i + 1) (by simpa using hm) (fun j hj => hP j (by omega))
      (fun j => by rw [hP' j]; congr 2; apply propext; omega)
    have h3 : P' i = P i := by
      rw [hP' i]
      have : decide (i = i + (m + 1)) = false := by simp
      rw [this, Bool.or_false]
    simp only [List.eraseIdx_cons_succ, dropKeys, ih, h3]

theorem popAt_nonneg (t : List Int) (m : Int) (h0 : 0 ≤ m) (h1 : m < t.length) :
    popAt t m = .ok (t.eraseIdx m.toNat) := by
  simp [popAt, pyIndex_nonneg h0 h1]

theorem foldlM_popAt_desc : ∀ (ms : List Int) (t : List Int), ms.Pairwise (· > ·) →
    (∀ m ∈ ms, 0 ≤ m ∧ m < (t.length : Int)) →
    ms.foldlM popAt t = .ok (dropKeys (fun j => decide ((j : Int) ∈ ms)) 0 t)
  | [], t, _, _ => by
    simp only [List.foldlM_nil, pure, Except.pure, Except.ok.injEq]
    exact (dropKeys_none t 0 (fun j _ _ => by simp)).symm
  | m :: ms, t, hp, hr => by
    have hm := hr m (by simp)
    rw [List.pairwise_cons] at hp
    simp only [List.foldlM_cons, popAt_nonneg t m hm.1 hm.2, bind, Except.bind]
    have hlen : (t.eraseIdx m.toNat).length = t.length - 1 := List.length_eraseIdx_of_lt (by omega)
    rw [foldlM_popAt_desc ms (t.eraseIdx m.toNat) hp.2 (fun m' hm' => by
      have := hp.1 m' hm'
      have := hr m' (by simp [hm'])
      omega)]
    congr 1
    apply dropKeys_eraseIdx _ _ t m.toNat 0 (by omega)
    · intro j hj
      simp only [decide_eq_false_iff_not]
      intro hmem
      have := hp.1 _ hmem
      omega
    · intro j
      simp only [List.mem_cons, Nat.zero_add]
      by_cases h1 : (j : Int) = m
      · have h2 : j = m.toNat := by omega
        have h3 : decide (j = m.toNat) = true := by simpa using h2
        rw [h3]
        simp [h1]
      · have h2 : ¬ j = m.toNat := by omega
        have h3 : decide (j = m.toNat) = false := by simpa using h2
        rw [h3]
        simp [h1]

theorem sortDesc_pairwise (l : List Int) (hn : l.Nodup) : (sortDesc l).Pairwise (· > ·) := by
  unfold sortDesc
  rw [List.pairwise_reverse]
  have h1 := sortInt_sorted l
  have h2 : (sortInt l).Nodup := (sortInt_perm l).nodup_iff.mpr hn
  have := h1.and h2
  exact this.imp (fun {a b} ⟨hle, hne⟩ => by omega)

theorem mem_sortDesc (l : List Int) (a : Int) : a ∈ sortDesc l ↔ a ∈ l := by
  unfold sortDesc
  rw [List.mem_reverse]
  exact (sortInt_perm l).mem_iff

/-- removing distinct in-range modes leaves exactly the other entries, in order -/
theorem removeHeralds_spec (t : List Int) (modes : List Int) (hn : modes.Nodup)
    (hr : ∀ m ∈ modes, 0 ≤ m ∧ m < (t.length : Int)) :
    removeHeralds t modes = .ok (dropKeys (fun j => decide ((j : Int) ∈ modes)) 0 t) := by
  unfold removeHeralds
  rw [foldlM_popAt_desc _ t (sortDesc_pairwise modes hn) (fun m hm => hr m ((mem_sortDesc modes m).mp hm))]
  congr 1
  exact dropKeys_congr t 0 (fun j _ _ => by simp [mem_sortDesc])

/-- the listing order of the modes is irrelevant -/
theorem removeHeralds_perm (t : List Int) {m₁ m₂ : List Int} (hp : m₁.Perm m₂) :
    removeHeralds t m₁ = removeHeralds t m₂ := by
  unfold removeHeralds sortDesc
  rw [(sortInt_eq_iff_perm m₁ m₂).mpr hp]

/-- ROUND TRIP: inserting heralds and removing the herald modes again (listed in any order)
returns the original state, for every state, all herald positions and values, any key order -/
theorem remove_add (s : List Int) (h : HDict) (hn : h.keys.Nodup) (t : List Int)
    (ht : addHeralds s h = .ok t) (ms : List Int) (hms : ms.Perm h.keys) :
    removeHeralds t ms = .ok s := by
  rw [removeHeralds_perm t hms]
  obtain ⟨h1, h2, h3⟩ := addHeralds_spec s h hn t ht
  rw [removeHeralds_spec t h.keys hn]
  · congr 1
    rw [← h2]
    exact dropKeys_congr t 0 (fun j _ _ => by
      simp only [isKey]
      rw [Bool.eq_iff_iff, decide_eq_true_iff, HDict.get?_isSome_iff])
  · intro m hm
    simp only [HDict.keys, List.mem_map] at hm
    obtain ⟨⟨k, v⟩, hkv, rfl⟩ := hm
    have := h3 k v hkv
    exact ⟨this.1, this.2.1⟩

/-! ### re-inserting removed modes -/

theorem addGo_rebuild (h : HDict) : ∀ (t : List Int) (i : Nat) (rest : List Int),
    (∀ j v, j < t.length → h.get? ((i + j : Nat) : Int) = some v → t[j]? = some v) →
    addGo h i t.length (dropKeys (isKey h) i t ++ rest) = .ok t
  | [], _, _, _ => rfl
  | x :: t, i, rest, hv => by
    have ih := addGo_rebuild h t (i + 1) rest (fun j v hj hg => by
      have : ((i + 1 + j : Nat) : Int) = ((i + (j + 1) : Nat) : Int) := by omega
      rw [this] at hg
      simpa using hv (j + 1) v (by simpa using hj) hg)
    simp only [List.length_cons]
    unfold addGo
    cases hg : h.get? (i : Int) with
    | some v =>
      have hk : isKey h i = true := by simp [isKey, hg]
      have := hv 0 v (by simp) (by simpa using hg)
      simp only [List.getElem?_cons_zero, Option.some.injEq] at this
      subst this
      simp [dropKeys, hk, ih, bind, Except.bind, pure, Except.pure]
    | none =>
      have hk : isKey h i = false := by simp [isKey, hg]
      simp [dropKeys, hk, ih, bind, Except.bind, pure, Except.pure]

/-- the herald dictionary read off a full state at the given modes -/
def heraldsAt (t : List Int) (modes : List Int) : HDict := modes.map fun m => (m, t.getD m.toNat 0)

theorem heraldsAt_keys (t modes : List Int) : (heraldsAt t modes).keys = modes := by
  simp only [heraldsAt, HDict.keys, List.map_map]
  exact List.map_id'' (fun _ => rfl) modes

/-- CONVERSE ROUND TRIP: removing distinct in-range modes and inserting their old values again
returns the full state -/
theorem add_remove (t : List Int) (modes : List Int) (hn : modes.Nodup)
    (hr : ∀ m ∈ modes, 0 ≤ m ∧ m < (t.length : Int)) :
    ∃ s, removeHeralds t modes = .ok s ∧ addHeralds s (heraldsAt t modes) = .ok t := by
  refine ⟨_, removeHeralds_spec t modes hn hr, ?_⟩
  have hkeys := heraldsAt_keys t modes
  have hcongr : dropKeys (fun j => decide ((j : Int) ∈ modes)) 0 t = dropKeys (isKey (heraldsAt t modes)) 0 t :=
    dropKeys_congr t 0 (fun j _ _ => by
      simp only [isKey]
      rw [Bool.eq_iff_iff, decide_eq_true_iff, HDict.get?_isSome_iff, hkeys])
  rw [hcongr]
  by_cases hne : modes = []
  · subst hne
    simp only [heraldsAt, List.map_nil, addHeralds_empty, Except.ok.injEq]
    exact dropKeys_none t 0 (fun j _ _ => by simp [isKey, HDict.get?])
  · have hemp : (heraldsAt t modes).isEmpty = false := by
      cases modes <;> simp_all [heraldsAt]
    have hnk : (heraldsAt t modes).keys.Nodup := by rw [hkeys]; exact hn
    unfold addHeralds
    simp only [hemp, Bool.false_eq_true, if_false]
    have hlen : (dropKeys (isKey (heraldsAt t modes)) 0 t).length + (heraldsAt t modes).length = t.length := by
      rw [dropKeys_length]
      have hsum := nonKeys_add_keyCount (isKey (heraldsAt t modes)) t.length 0
      have hkc := (keyCount_eq_length_iff (heraldsAt t modes) hnk t.length).mpr (by rw [hkeys]; exact hr)
      omega
    rw [hlen]
    have := addGo_rebuild (heraldsAt t modes) t 0 [] (fun j v hj hg => by
      have hmem := (HDict.get?_eq_some_iff _ hnk _ _).mp hg
      simp only [heraldsAt, List.mem_map, Prod.mk.injEq] at hmem
      obtain ⟨m, _, hm1, hm2⟩ := hmem
      have : m.toNat = j := by omega
      rw [← hm2, this, List.getD_eq_getElem?_getD, List.getElem?_eq_getElem hj]
      rfl)
    simpa using this

end LW.SV
