/-
  LW.Proofs.C14Block — a 2×2 block acting on two modes of an n-mode identity, as an algebra
  homomorphism `E2`, and the reversal of mode order (`np.flip`).
-/
import Mathlib.Data.Matrix.Mul
import Mathlib.LinearAlgebra.Matrix.Notation
import Mathlib.LinearAlgebra.Matrix.ConjTranspose
import Mathlib.Tactic.NoncommRing
import Mathlib.Tactic.FinCases
import LW.Proofs.UnitaryAlg
import LW.Proofs.C01Lead
import LW.Model.Reck

open Matrix

namespace LW.Proofs.C14

variable {K : Type} [CommRing K] [StarRing K]

set_option linter.unusedSectionVars false

/-- `n × 2` selector of the two modes -/
def sel {n : Nat} (m1 m2 : Fin n) : Matrix (Fin n) (Fin 2) K :=
  fun r a => if r = (if a = 0 then m1 else m2) then 1 else 0

/-- the 2×2 block `A` on modes `(m1, m2)`, identity elsewhere -/
def E2 {n : Nat} (m1 m2 : Fin n) (A : Matrix (Fin 2) (Fin 2) K) : Matrix (Fin n) (Fin n) K :=
  1 + sel m1 m2 * (A - 1) * (sel m1 m2)ᵀ

theorem selT_mul_sel {n : Nat} {m1 m2 : Fin n} (h : m1 ≠ m2) :
    (sel (K := K) m1 m2)ᵀ * sel (K := K) m1 m2 = 1 := by
  ext a b
  simp only [Matrix.mul_apply, Matrix.transpose_apply, sel, Matrix.one_apply]
  fin_cases a <;> fin_cases b <;> simp [h, Ne.symm h, Finset.sum_ite_eq']

theorem E2_mul {n : Nat} {m1 m2 : Fin n} (h : m1 ≠ m2) (A B : Matrix (Fin 2) (Fin 2) K) :
    E2 m1 m2 A * E2 m1 m2 B = E2 m1 m2 (A * B) := by
  unfold E2
  have hP := selT_mul_sel (K := K) h
  set P := sel (K := K) m1 m2
  have hXY : (P * (A - 1) * Pᵀ) * (P * (B - 1) * Pᵀ) = P * ((A - 1) * (B - 1)) * Pᵀ := by
    calc (P * (A - 1) * Pᵀ) * (P * (B - 1) * Pᵀ)
        = P * (A - 1) * (Pᵀ * P) * (B - 1) * Pᵀ := by simp only [Matrix.mul_assoc]
      _ = _ := by rw [hP]; simp only [Matrix.mul_one, Matrix.mul_assoc]
  have e2 : A * B - 1 = (A - 1) + (B - 1) + (A - 1) * (B - 1) := by noncomm_ring
  have e3 : P * (A * B - 1) * Pᵀ =
      P * (A - 1) * Pᵀ + P * (B - 1) * Pᵀ + (P * (A - 1) * Pᵀ) * (P * (B - 1) * Pᵀ) := by
    rw [hXY, e2]
    simp only [Matrix.mul_add, Matrix.add_mul]
  rw [e3]
  generalize P * (A - 1) * Pᵀ = X
  generalize P * (B - 1) * Pᵀ = Y
  noncomm_ring

theorem E2_one {n : Nat} (m1 m2 : Fin n) : E2 m1 m2 (1 : Matrix (Fin 2) (Fin 2) K) = 1 := by
  unfold E2; simp

theorem E2_apply {n : Nat} {m1 m2 : Fin n} (h : m1 ≠ m2) (A : Matrix (Fin 2) (Fin 2) K)
    (r k : Fin n) :
    E2 m1 m2 A r k =
      if r = m1 ∧ k = m1 then A 0 0 else if r = m1 ∧ k = m2 then A 0 1
      else if r = m2 ∧ k = m1 then A 1 0 else if r = m2 ∧ k = m2 then A 1 1
      else if r = k then 1 else 0 := by
  unfold E2
  simp only [Matrix.add_apply, Matrix.mul_apply, Matrix.transpose_apply, sel, Fin.sum_univ_two,
    Matrix.sub_apply, Matrix.one_apply]
  by_cases h1 : r = m1 <;> by_cases h2 : r = m2 <;> by_cases h3 : k = m1 <;> by_cases h4 : k = m2 <;>
    by_cases h5 : r = k <;> simp_all [eq_comm]

theorem E2_swap {n : Nat} {m1 m2 : Fin n} (h : m1 ≠ m2) (A : Matrix (Fin 2) (Fin 2) K) :
    E2 m1 m2 A = E2 m2 m1 !![A 1 1, A 1 0; A 0 1, A 0 0] := by
  ext r k
  rw [E2_apply h, E2_apply (Ne.symm h)]
  by_cases h1 : r = m1 <;> by_cases h2 : r = m2 <;> by_cases h3 : k = m1 <;> by_cases h4 : k = m2 <;>
    by_cases h5 : r = k <;> simp_all [eq_comm]

theorem E2_conjTranspose {n : Nat} {m1 m2 : Fin n} (h : m1 ≠ m2) (A : Matrix (Fin 2) (Fin 2) K) :
    (E2 m1 m2 A)ᴴ = E2 m1 m2 Aᴴ := by
  ext r k
  rw [Matrix.conjTranspose_apply, E2_apply h, E2_apply h]
  simp only [Matrix.conjTranspose_apply]
  by_cases h1 : r = m1 <;> by_cases h2 : r = m2 <;> by_cases h3 : k = m1 <;> by_cases h4 : k = m2 <;>
    by_cases h5 : r = k <;> simp_all [eq_comm]

/-- right multiplication by a block: a column operation on columns `m1, m2` -/
theorem mul_E2_apply {n : Nat} {m1 m2 : Fin n} (h : m1 ≠ m2) (X : Matrix (Fin n) (Fin n) K)
    (A : Matrix (Fin 2) (Fin 2) K) (r k : Fin n) :
    (X * E2 m1 m2 A) r k =
      if k = m1 then X r m1 * A 0 0 + X r m2 * A 1 0
      else if k = m2 then X r m1 * A 0 1 + X r m2 * A 1 1
      else X r k := by
  rw [Matrix.mul_apply]
  simp only [E2_apply h]
  by_cases h3 : k = m1
  · subst h3
    rw [if_pos rfl, Finset.sum_eq_add_of_mem k m2 (Finset.mem_univ _) (Finset.mem_univ _) h]
    · simp [Ne.symm h]
    · intro c _ hc
      simp [hc.1, hc.2]
  · by_cases h4 : k = m2
    · subst h4
      rw [if_neg h3, if_pos rfl,
        Finset.sum_eq_add_of_mem m1 k (Finset.mem_univ _) (Finset.mem_univ _) h]
      · simp [Ne.symm h]
      · intro c _ hc
        simp [hc.1, hc.2]
    · rw [if_neg h3, if_neg h4, Finset.sum_eq_single k]
      · simp [h3, h4]
      · intro c _ hc
        simp [h3, h4, hc]
      · simp

/-! ### model matrices as blocks -/

theorem toMatN_embed2 {n m1 m2 : Nat} (h1 : m1 < n) (h2 : m2 < n) (hne : m1 ≠ m2) (a b c d : K) :
    (embed2 n m1 m2 a b c d).toMatN n = E2 ⟨m1, h1⟩ ⟨m2, h2⟩ !![a, b; c, d] := by
  ext r k
  have hne' : (⟨m1, h1⟩ : Fin n) ≠ ⟨m2, h2⟩ := fun e => hne (Fin.mk.inj e)
  rw [E2_apply hne']
  simp only [M.toMatN, C01Aux.get_embed2 _ _ _ _ _ _ r.2 k.2, Fin.ext_iff]
  simp

theorem toMatN_embed1_left {n m1 m2 : Nat} (h1 : m1 < n) (h2 : m2 < n) (hne : m1 ≠ m2) (p : K) :
    (embed1 n m1 p).toMatN n = E2 ⟨m1, h1⟩ ⟨m2, h2⟩ !![p, 0; 0, 1] := by
  ext r k
  have hne' : (⟨m1, h1⟩ : Fin n) ≠ ⟨m2, h2⟩ := fun e => hne (Fin.mk.inj e)
  rw [E2_apply hne']
  simp only [M.toMatN, C01Aux.get_embed1 _ _ r.2 k.2, Fin.ext_iff]
  by_cases e1 : (r : Nat) = m1 <;> by_cases e2 : (r : Nat) = m2 <;> by_cases e3 : (k : Nat) = m1 <;>
    by_cases e4 : (k : Nat) = m2 <;> by_cases e5 : (r : Nat) = k <;> simp_all [eq_comm]

theorem toMatN_embed1_right {n m1 m2 : Nat} (h1 : m1 < n) (h2 : m2 < n) (hne : m1 ≠ m2) (p : K) :
    (embed1 n m2 p).toMatN n = E2 ⟨m1, h1⟩ ⟨m2, h2⟩ !![1, 0; 0, p] := by
  ext r k
  have hne' : (⟨m1, h1⟩ : Fin n) ≠ ⟨m2, h2⟩ := fun e => hne (Fin.mk.inj e)
  rw [E2_apply hne']
  simp only [M.toMatN, C01Aux.get_embed1 _ _ r.2 k.2, Fin.ext_iff]
  by_cases e1 : (r : Nat) = m1 <;> by_cases e2 : (r : Nat) = m2 <;> by_cases e3 : (k : Nat) = m1 <;>
    by_cases e4 : (k : Nat) = m2 <;> by_cases e5 : (r : Nat) = k <;> simp_all [eq_comm]

theorem toMatN_one (n : Nat) : (M.one n : M K).toMatN n = 1 := by
  ext r k
  simp only [M.toMatN, M.get_one r.2 k.2, Matrix.one_apply, Fin.ext_iff]

/-! ### reversal of the mode order -/

/-- `np.flip(·, axis=(0,1))` on a matrix -/
def Rev {n : Nat} (X : Matrix (Fin n) (Fin n) K) : Matrix (Fin n) (Fin n) K :=
  X.submatrix Fin.rev Fin.rev

theorem Rev_mul {n : Nat} (X Y : Matrix (Fin n) (Fin n) K) : Rev (X * Y) = Rev X * Rev Y := by
  unfold Rev
  exact (Matrix.submatrix_mul_equiv X Y Fin.rev Fin.revPerm Fin.rev).symm

theorem Rev_one {n : Nat} : Rev (1 : Matrix (Fin n) (Fin n) K) = 1 := by
  unfold Rev
  exact Matrix.submatrix_one_equiv Fin.revPerm

theorem Rev_Rev {n : Nat} (X : Matrix (Fin n) (Fin n) K) : Rev (Rev X) = X := by
  ext r k; simp [Rev]

theorem Rev_E2 {n : Nat} {m1 m2 : Fin n} (h : m1 ≠ m2) (A : Matrix (Fin 2) (Fin 2) K) :
    Rev (E2 m1 m2 A) = E2 (Fin.rev m1) (Fin.rev m2) A := by
  have h' : Fin.rev m1 ≠ Fin.rev m2 := fun e => h (Fin.rev_injective e)
  ext r k
  simp only [Rev, Matrix.submatrix_apply]
  rw [E2_apply h, E2_apply h']
  simp only [Fin.rev_eq_iff, Fin.rev_rev]

theorem toMatN_flip {n : Nat} (U : M K) (hU : U.n = n) :
    (Reck.flip U).toMatN n = Rev (U.toMatN n) := by
  subst hU
  ext r k
  simp only [M.toMatN, Rev, Matrix.submatrix_apply, Reck.flip, M.get_ofFn _ r.2 k.2, Fin.val_rev]
  congr 1 <;> omega

end LW.Proofs.C14
