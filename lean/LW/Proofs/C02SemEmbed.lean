/-
  LW.Proofs.C02SemEmbed — algebra of `Optic.embedVia`: a matrix placed inside a larger index space
  through a partial injection (`PInj`).  Products, identity, padding and composition.
-/
import LW.Proofs.MatAlg2
import LW.Model.Optic

open scoped BigOperators

namespace LW.Proofs.C02Sem

open LW

variable {K : Type}

/-- `inv` is a partial map `[0, D) → [0, d)` with section `fwd` -/
structure PInj (d D : Nat) (fwd : Nat → Nat) (inv : Nat → Option Nat) : Prop where
  fwd_lt : ∀ x, x < d → fwd x < D
  inv_fwd : ∀ x, x < d → inv (fwd x) = some x
  inv_some : ∀ r x, r < D → inv r = some x → x < d ∧ fwd x = r

namespace PInj
variable {d D : Nat} {fwd : Nat → Nat} {inv : Nat → Option Nat}

theorem inj (h : PInj d D fwd inv) {x y : Nat} (hx : x < d) (hy : y < d) (e : fwd x = fwd y) :
    x = y := by
  have h1 := h.inv_fwd x hx
  rw [e, h.inv_fwd y hy] at h1
  injection h1 with h1
  exact h1.symm

theorem ne_of_none (h : PInj d D fwd inv) {r x : Nat} (hx : x < d) (hr : inv r = none) :
    fwd x ≠ r := by
  intro e
  rw [← e, h.inv_fwd x hx] at hr
  cases hr

theorem comp {d' : Nat} {f1 f2 : Nat → Nat} {i1 i2 : Nat → Option Nat}
    (h1 : PInj d d' f1 i1) (h2 : PInj d' D f2 i2) :
    PInj d D (fun x => f2 (f1 x)) (fun r => (i2 r).bind i1) := by
  refine ⟨fun x hx => h2.fwd_lt _ (h1.fwd_lt x hx), ?_, ?_⟩
  · intro x hx
    show (i2 (f2 (f1 x))).bind i1 = some x
    rw [h2.inv_fwd _ (h1.fwd_lt x hx)]
    exact h1.inv_fwd x hx
  · intro r x hr e
    cases h : i2 r with
    | none => rw [h] at e; cases e
    | some y =>
      rw [h] at e
      obtain ⟨hy, ey⟩ := h2.inv_some r y hr h
      obtain ⟨hx, ex⟩ := h1.inv_some y x hy e
      exact ⟨hx, by show f2 (f1 x) = r; rw [ex, ey]⟩

end PInj

section
variable [CommRing K]

theorem embedVia_n (D : Nat) (A : M K) (inv : Nat → Option Nat) :
    (Optic.embedVia D A inv).n = D := rfl

theorem isOfFn_embedVia (D : Nat) (A : M K) (inv : Nat → Option Nat) :
    (Optic.embedVia D A inv).IsOfFn := M.isOfFn_ofFn _ _

theorem get_embedVia (D : Nat) (A : M K) (inv : Nat → Option Nat) {r c : Nat} (hr : r < D)
    (hc : c < D) :
    (Optic.embedVia D A inv).get r c =
      match inv r, inv c with
      | some x, some y => A.get x y
      | _, _ => if r = c then 1 else 0 := by
  unfold Optic.embedVia
  rw [M.get_ofFn _ hr hc]
  cases inv r <;> cases inv c <;> rfl

variable {d D : Nat} {fwd : Nat → Nat} {inv : Nat → Option Nat}

theorem get_embedVia_fwd (h : PInj d D fwd inv) (A : M K) {x y : Nat} (hx : x < d) (hy : y < d) :
    (Optic.embedVia D A inv).get (fwd x) (fwd y) = A.get x y := by
  rw [get_embedVia D A inv (h.fwd_lt x hx) (h.fwd_lt y hy), h.inv_fwd x hx, h.inv_fwd y hy]

theorem get_embedVia_none_left (A : M K) {r c : Nat} (hr : r < D) (hc : c < D)
    (hn : inv r = none) : (Optic.embedVia D A inv).get r c = if r = c then 1 else 0 := by
  rw [get_embedVia D A inv hr hc, hn]

theorem get_embedVia_none_right (A : M K) {r c : Nat} (hr : r < D) (hc : c < D)
    (hn : inv c = none) : (Optic.embedVia D A inv).get r c = if r = c then 1 else 0 := by
  rw [get_embedVia D A inv hr hc, hn]
  cases inv r <;> rfl

/-- sum over the big index space of a function supported on the image of `fwd` -/
theorem sum_image (h : PInj d D fwd inv) (g : Nat → K)
    (h0 : ∀ k, k < D → inv k = none → g k = 0) :
    ∑ k ∈ Finset.range D, g k = ∑ y ∈ Finset.range d, g (fwd y) := by
  have himg : ∑ k ∈ (Finset.range d).image fwd, g k = ∑ y ∈ Finset.range d, g (fwd y) := by
    apply Finset.sum_image
    intro x hx y hy e
    exact h.inj (Finset.mem_range.mp hx) (Finset.mem_range.mp hy) e
  rw [← himg]
  symm
  apply Finset.sum_subset
  · intro k hk
    rw [Finset.mem_image] at hk
    obtain ⟨x, hx, rfl⟩ := hk
    exact Finset.mem_range.mpr (h.fwd_lt x (Finset.mem_range.mp hx))
  · intro k hk hk'
    have hkD := Finset.mem_range.mp hk
    cases hi : inv k with
    | none => exact h0 k hkD hi
    | some x =>
      exfalso
      apply hk'
      obtain ⟨hx, e⟩ := h.inv_some k x hkD hi
      exact Finset.mem_image.mpr ⟨x, Finset.mem_range.mpr hx, e⟩

/-- embedding is multiplicative -/
theorem embedVia_mul (h : PInj d D fwd inv) (A B : M K) (hA : A.n = d) :
    Optic.embedVia D (A.mul B) inv = (Optic.embedVia D A inv).mul (Optic.embedVia D B inv) := by
  refine M.ext_get (isOfFn_embedVia _ _ _) (M.isOfFn_mul _ _) rfl ?_
  intro r c hr hc
  rw [embedVia_n] at hr hc
  rw [M.get_mul _ _ (by rw [embedVia_n]; exact hr) (by rw [embedVia_n]; exact hc), embedVia_n]
  cases hir : inv r with
  | none =>
    rw [get_embedVia_none_left _ hr hc hir]
    rw [Finset.sum_eq_single r]
    · rw [get_embedVia_none_left _ hr hr hir, if_pos rfl, one_mul,
        get_embedVia_none_left _ hr hc hir]
    · intro k hk hne
      rw [get_embedVia_none_left _ hr (Finset.mem_range.mp hk) hir, if_neg (Ne.symm hne), zero_mul]
    · intro hn; exact absurd (Finset.mem_range.mpr hr) hn
  | some x =>
    obtain ⟨hx, ex⟩ := h.inv_some r x hr hir
    subst ex
    rw [sum_image h]
    · cases hic : inv c with
      | none =>
        rw [get_embedVia_none_right _ hr hc hic, if_neg (h.ne_of_none hx hic)]
        symm
        apply Finset.sum_eq_zero
        intro y hy
        have hy' := Finset.mem_range.mp hy
        rw [get_embedVia_none_right _ (h.fwd_lt y hy') hc hic, if_neg (h.ne_of_none hy' hic),
          mul_zero]
      | some z =>
        obtain ⟨hz, ez⟩ := h.inv_some c z hc hic
        subst ez
        rw [get_embedVia_fwd h _ hx hz, M.get_mul _ _ (by omega) (by omega), hA]
        apply Finset.sum_congr rfl
        intro y hy
        have hy' := Finset.mem_range.mp hy
        rw [get_embedVia_fwd h _ hx hy', get_embedVia_fwd h _ hy' hz]
    · intro k hk hik
      rw [get_embedVia_none_right _ (h.fwd_lt x hx) hk hik, if_neg (h.ne_of_none hx hik),
        zero_mul]

/-- embedding the identity gives the identity -/
theorem embedVia_one (h : PInj d D fwd inv) : Optic.embedVia D (M.one d : M K) inv = M.one D := by
  refine M.ext_get (isOfFn_embedVia _ _ _) (M.isOfFn_one _) rfl ?_
  intro r c hr hc
  rw [embedVia_n] at hr hc
  rw [M.get_one hr hc]
  cases hir : inv r with
  | none => rw [get_embedVia_none_left _ hr hc hir]
  | some x =>
    obtain ⟨hx, ex⟩ := h.inv_some r x hr hir
    subst ex
    cases hic : inv c with
    | none => rw [get_embedVia_none_right _ hr hc hic]
    | some z =>
      obtain ⟨hz, ez⟩ := h.inv_some c z hc hic
      subst ez
      rw [get_embedVia_fwd h _ hx hz, M.get_one hx hz]
      by_cases e : x = z
      · subst e; simp
      · rw [if_neg e, if_neg (fun e' => e (h.inj hx hz e'))]

/-- congruence: only the entries of `A` below `d` and `inv` below `D` matter -/
theorem embedVia_congr (h : PInj d D fwd inv) {A B : M K} {inv' : Nat → Option Nat}
    (hi : ∀ r, r < D → inv' r = inv r)
    (hAB : ∀ x y, x < d → y < d → A.get x y = B.get x y) :
    Optic.embedVia D A inv = Optic.embedVia D B inv' := by
  unfold Optic.embedVia
  apply M.ofFn_congr
  intro r c hr hc
  rw [hi r hr, hi c hc]
  cases hir : inv r with
  | none => rfl
  | some x =>
    cases hic : inv c with
    | none => rfl
    | some z =>
      exact hAB x z (h.inv_some r x hr hir).1 (h.inv_some c z hc hic).1

/-- composition of embeddings -/
theorem embedVia_comp {d' : Nat} {f1 : Nat → Nat} {i1 i2 : Nat → Option Nat}
    (h2 : PInj d' D fwd i2) (A : M K) :
    Optic.embedVia D (Optic.embedVia d' A i1) i2 = Optic.embedVia D A (fun r => (i2 r).bind i1) := by
  have _ := f1
  refine M.ext_get (isOfFn_embedVia _ _ _) (isOfFn_embedVia _ _ _) rfl ?_
  intro r c hr hc
  rw [embedVia_n] at hr hc
  rw [get_embedVia _ _ _ hr hc, get_embedVia _ _ _ hr hc]
  cases hir : i2 r with
  | none => rfl
  | some x =>
    obtain ⟨hx, ex⟩ := h2.inv_some r x hr hir
    cases hic : i2 c with
    | none =>
      simp only [Option.bind_some, Option.bind_none]
      cases i1 x <;> rfl
    | some z =>
      obtain ⟨hz, ez⟩ := h2.inv_some c z hc hic
      simp only [Option.bind_some]
      rw [get_embedVia _ _ _ hx hz]
      have hne : x = z ↔ r = c := by
        constructor
        · intro e; rw [← ex, ← ez, e]
        · intro e; rw [← ex, ← ez] at e; exact h2.inj hx hz e
      cases i1 x <;> cases i1 z <;> simp only [hne]

/-- padding commutes with embedding when the new index is mapped to the new index -/
theorem embedVia_pad (h : PInj d D fwd inv) (h' : PInj (d + 1) (D + 1) fwd inv) (A : M K)
    (hA : A.n = d) :
    (Optic.embedVia D A inv).pad 1 = Optic.embedVia (D + 1) (A.pad 1) inv := by
  refine M.ext_get (M.isOfFn_pad _ _) (isOfFn_embedVia _ _ _) rfl ?_
  intro r c hr hc
  simp only [M.pad_n, embedVia_n] at hr hc
  rw [M.get_pad' _ 1 (by rw [embedVia_n]; exact hr) (by rw [embedVia_n]; exact hc), embedVia_n]
  -- the new index D corresponds to d
  have hD : inv D = some d := by
    cases hi : inv D with
    | none =>
      exfalso
      -- fwd restricted to [0,d] is injective into [0,D]; fwd d must be D
      have hfd : fwd d < D + 1 := h'.fwd_lt d (by omega)
      by_cases e : fwd d = D
      · rw [← e, h'.inv_fwd d (by omega)] at hi; cases hi
      · have hlt : fwd d < D := by omega
        have h1 := h'.inv_fwd d (by omega)
        obtain ⟨h2, -⟩ := h.inv_some (fwd d) d hlt h1
        omega
    | some x =>
      obtain ⟨hx, ex⟩ := h'.inv_some D x (by omega) hi
      by_cases e : x = d
      · rw [e]
      · have := h.fwd_lt x (by omega)
        omega
  have hinv : ∀ r, r < D → ∀ x, inv r = some x → x < d := fun r hr x e => (h.inv_some r x hr e).1
  rw [get_embedVia _ _ _ hr hc]
  by_cases hrD : r < D
  · by_cases hcD : c < D
    · rw [if_pos ⟨hrD, hcD⟩, get_embedVia _ _ _ hrD hcD]
      cases hir : inv r with
      | none => rfl
      | some x =>
        cases hic : inv c with
        | none => rfl
        | some z =>
          simp only
          rw [M.get_pad' _ 1 (by have := hinv r hrD x hir; omega) (by have := hinv c hcD z hic; omega),
            if_pos ⟨by rw [hA]; exact hinv r hrD x hir, by rw [hA]; exact hinv c hcD z hic⟩]
    · have hcD' : c = D := by omega
      subst hcD'
      rw [if_neg (by omega), hD]
      cases hir : inv r with
      | none => rfl
      | some x =>
        simp only
        have hx := hinv r hrD x hir
        rw [M.get_pad' _ 1 (by omega) (by omega), if_neg (by omega), if_neg (by omega),
          if_neg (by omega)]
  · have hrD' : r = D := by omega
    subst hrD'
    rw [if_neg (by omega), hD]
    by_cases hcD : c < r
    · cases hic : inv c with
      | none => rfl
      | some z =>
        simp only
        have hz := hinv c hcD z hic
        rw [M.get_pad' _ 1 (by omega) (by omega), if_neg (by omega), if_neg (by omega),
          if_neg (by omega)]
    · have : c = r := by omega
      subst this
      rw [hD]
      simp only
      rw [if_pos trivial, M.get_pad' _ 1 (by omega) (by omega), if_neg (by omega), if_pos rfl]

/-- padding distributes over a product -/
theorem pad_mul (A B : M K) (hB : B.n = A.n) : (A.mul B).pad 1 = (A.pad 1).mul (B.pad 1) := by
  refine M.ext_get (M.isOfFn_pad _ _) (M.isOfFn_mul _ _) rfl ?_
  intro r c hr hc
  simp only [M.pad_n, M.mul_n] at hr hc
  rw [M.get_pad' _ 1 (by rw [M.mul_n]; exact hr) (by rw [M.mul_n]; exact hc), M.mul_n,
    M.get_mul (A.pad 1) (B.pad 1) (by rw [M.pad_n]; exact hr) (by rw [M.pad_n]; exact hc), M.pad_n,
    Finset.sum_range_succ]
  by_cases hrA : r < A.n
  · by_cases hcA : c < A.n
    · rw [if_pos ⟨hrA, hcA⟩, M.get_mul _ _ hrA hcA]
      rw [M.get_pad' _ 1 hr (by omega), if_neg (by omega), if_neg (by omega), zero_mul, add_zero]
      apply Finset.sum_congr rfl
      intro k hk
      have hk' := Finset.mem_range.mp hk
      rw [M.get_pad' _ 1 hr (by omega), if_pos ⟨hrA, hk'⟩,
        M.get_pad' _ 1 (by omega) (by omega), if_pos ⟨by omega, by omega⟩]
    · rw [if_neg (by omega), if_neg (by omega)]
      have hc' : c = A.n := by omega
      subst hc'
      rw [M.get_pad' _ 1 hr (by omega), if_neg (by omega), if_neg (by omega), zero_mul, add_zero]
      symm
      apply Finset.sum_eq_zero
      intro k hk
      have hk' := Finset.mem_range.mp hk
      rw [M.get_pad' B 1 (by omega) (by omega), if_neg (by omega), if_neg (by omega), mul_zero]
  · have hr' : r = A.n := by omega
    subst hr'
    rw [if_neg (by omega)]
    have hz : ∑ k ∈ Finset.range A.n, (A.pad 1).get A.n k * (B.pad 1).get k c = 0 := by
      apply Finset.sum_eq_zero
      intro k hk
      have hk' := Finset.mem_range.mp hk
      rw [M.get_pad' A 1 (by omega) (by omega), if_neg (by omega), if_neg (by omega), zero_mul]
    rw [hz, zero_add, M.get_pad' A 1 (by omega) (by omega), M.get_pad' B 1 (by omega) (by omega)]
    simp [hB]

theorem one_pad (n k : Nat) : (M.one n : M K).pad k = M.one (n + k) := by
  refine M.ext_get (M.isOfFn_pad _ _) (M.isOfFn_one _) rfl ?_
  intro r c hr hc
  simp only [M.pad_n, M.one_n] at hr hc
  rw [M.get_pad' _ k (by simpa using hr) (by simpa using hc), M.get_one hr hc, M.one_n]
  by_cases h : r < n ∧ c < n
  · rw [if_pos h, M.get_one h.1 h.2]
  · rw [if_neg h]

theorem one_mul' (A : M K) (hA : A.IsOfFn) : (M.one A.n : M K).mul A = A := by
  refine M.ext_get (M.isOfFn_mul _ _) hA rfl ?_
  intro r c hr hc
  simp only [M.mul_n, M.one_n] at hr hc
  rw [M.get_mul _ _ (by simpa using hr) (by simpa using hc), M.one_n, Finset.sum_eq_single r]
  · rw [M.get_one hr hr, if_pos rfl, one_mul]
  · intro k hk hne
    rw [M.get_one hr (Finset.mem_range.mp hk), if_neg (Ne.symm hne), zero_mul]
  · intro hn; exact absurd (Finset.mem_range.mpr hr) hn

theorem mul_one' (A : M K) (hA : A.IsOfFn) : A.mul (M.one A.n : M K) = A := by
  refine M.ext_get (M.isOfFn_mul _ _) hA rfl ?_
  intro r c hr hc
  simp only [M.mul_n] at hr hc
  rw [M.get_mul _ _ hr hc, Finset.sum_eq_single c]
  · rw [M.get_one hc hc, if_pos rfl, mul_one]
  · intro k hk hne
    rw [M.get_one (Finset.mem_range.mp hk) hc, if_neg hne, mul_zero]
  · intro hn; exact absurd (Finset.mem_range.mpr hc) hn

end

end LW.Proofs.C02Sem
