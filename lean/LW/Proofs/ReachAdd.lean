/-
  LW.Proofs.ReachAdd — `Circuit.add`, `+` and `unpack_groups` preserve `SpecWf` / `SpecGroupOk`
  (and `Circ.WF` for the latter two).
-/
import LW.Proofs.ReachModes
import LW.Proofs.ReachSynth
import LW.Proofs.C02Final
import LW.Proofs.C01Api
import LW.Proofs.C09

set_option linter.unusedSectionVars false

namespace LW.Proofs.Reach

open LW LW.Proofs.C02 LW.Proofs.C01Aux

variable {K : Type} [CommRing K] [StarRing K]

/-! ### unpacking -/

theorem SpecWf.unpack {n : Nat} {spec : List (Comp K)} (h : SpecWf n spec) :
    SpecWf n (unpackSpec spec) := by
  intro c hc
  simp only [unpackSpec, List.mem_flatMap] at hc
  obtain ⟨c0, hc0, hc⟩ := hc
  cases c0 with
  | prim p =>
    simp only [List.mem_singleton] at hc; subst hc
    exact h _ hc0
  | group cs m1 m2 hin hout =>
    simp only [List.mem_map] at hc
    obtain ⟨p, hp, rfl⟩ := hc
    exact h _ hc0 p hp

theorem specGroupOk_unpack (spec : List (Comp K)) : SpecGroupOk (unpackSpec spec) := by
  intro c hc
  obtain ⟨p, rfl⟩ := LW.Proofs.C09.unpack_no_group spec c hc
  trivial

theorem unpackGroups_WF (c : Circ K) (h : c.WF) : c.unpackGroups.WF :=
  ⟨h.inNodup, h.outNodup, h.inLt, h.outLt, h.lenEq, List.nodup_nil,
    (fun a ha => by cases ha), modes_unpackSpec_lt _ _ h.modesLt⟩

theorem pick_ok (sub : Circ K) (g : Bool) (hwf : sub.WF) (hs : SpecWf sub.n sub.spec)
    (hg : SpecGroupOk sub.spec) :
    (pick sub g).1.WF ∧ SpecWf (pick sub g).1.n (pick sub g).1.spec ∧
      SpecGroupOk (pick sub g).1.spec := by
  unfold pick
  simp only
  split
  · exact ⟨unpackGroups_WF sub hwf, SpecWf.unpack hs, specGroupOk_unpack _⟩
  · exact ⟨hwf, hs, hg⟩

/-! ### the synthesised swap -/

theorem specGroupOk_append {s l : List (Comp K)} (hs : SpecGroupOk s) (hl : SpecGroupOk l) :
    SpecGroupOk (s ++ l) := by
  intro c hc
  rcases List.mem_append.mp hc with h | h
  · exact hs c h
  · exact hl c h

theorem swapSpec_ok (c : Circ K) (hwf : c.WF) (hs : SpecWf c.n c.spec) (hg : SpecGroupOk c.spec) :
    SpecWf c.n (swapSpec c) ∧ SpecGroupOk (swapSpec c) := by
  unfold swapSpec
  simp only
  split
  · refine ⟨specWf_append hs (specWf_single ?_), specGroupOk_append hg ?_⟩
    · have hlen : c.outHer.keys.length = c.inHer.keys.length := by
        simp [Dict.keys, hwf.lenEq]
      have hfst : (c.outHer.keys.zip c.inHer.keys).map (·.1) = c.outHer.keys :=
        List.map_fst_zip (le_of_eq hlen)
      have hsnd : (c.outHer.keys.zip c.inHer.keys).map (·.2) = c.inHer.keys :=
        List.map_snd_zip (le_of_eq hlen.symm)
      have hprov : Dict.ofPairs (c.outHer.keys.zip c.inHer.keys) = c.outHer.keys.zip c.inHer.keys :=
        ofPairs_of_nodup (by rw [hfst]; exact hwf.outNodup)
      rw [hprov]
      show SwapsOk c.n _
      apply synthSwaps_swapsOk
      · show ((c.outHer.keys.zip c.inHer.keys).map (·.1)).Nodup
        rw [hfst]; exact hwf.outNodup
      · show ((c.outHer.keys.zip c.inHer.keys).map (·.2)).Nodup
        rw [hsnd]; exact hwf.inNodup
      · show ∀ x ∈ (c.outHer.keys.zip c.inHer.keys).map (·.1), x < c.n
        rw [hfst]; exact hwf.outLt
      · show ∀ x ∈ (c.outHer.keys.zip c.inHer.keys).map (·.2), x < c.n
        rw [hsnd]; exact hwf.inLt
    · intro x hx
      simp only [List.mem_singleton] at hx; subst hx
      trivial
  · exact ⟨hs, hg⟩

/-! ### the two loops -/

theorem ptStep_ok (mode : Nat) (st : Circ.AddSt K) (i : Nat)
    (h : SpecWf st.sub.n st.spec ∧ SpecGroupOk st.spec) :
    SpecWf (ptStep mode st i).sub.n (ptStep mode st i).spec ∧
      SpecGroupOk (ptStep mode st i).spec := by
  rcases ptStep_cases mode st i with ⟨e, -⟩ | ⟨e, -⟩
  · rw [e]; exact h
  · rw [e]; exact ⟨SpecWf.addEmptyMode h.1 _, SpecGroupOk.addEmptyMode h.2 _⟩

theorem ptFold_ok (mode : Nat) (l : List Nat) (st : Circ.AddSt K)
    (h : SpecWf st.sub.n st.spec ∧ SpecGroupOk st.spec) :
    SpecWf (l.foldl (ptStep mode) st).sub.n (l.foldl (ptStep mode) st).spec ∧
      SpecGroupOk (l.foldl (ptStep mode) st).spec := by
  induction l generalizing st with
  | nil => exact h
  | cons i t ih => exact ih _ (ptStep_ok mode st i h)

theorem ancFold_ok (mode : Nat) (l : List Nat) (s : Circ K)
    (h : SpecWf s.n s.spec ∧ SpecGroupOk s.spec) :
    SpecWf (l.foldl (ancStep mode) s).n (l.foldl (ancStep mode) s).spec ∧
      SpecGroupOk (l.foldl (ancStep mode) s).spec ∧
      (l.foldl (ancStep mode) s).n = s.n + l.length := by
  induction l generalizing s with
  | nil => exact ⟨h.1, h.2, rfl⟩
  | cons m t ih =>
    have h1 : SpecWf (ancStep mode s m).n (ancStep mode s m).spec ∧
        SpecGroupOk (ancStep mode s m).spec :=
      ⟨SpecWf.addEmptyMode h.1 _, SpecGroupOk.addEmptyMode h.2 _⟩
    obtain ⟨a, b, c⟩ := ih _ h1
    refine ⟨a, b, ?_⟩
    rw [List.foldl_cons, c]
    show s.n + 1 + t.length = s.n + (t.length + 1)
    omega

/-! ### the components appended by `add` -/

theorem addFinal_n_spec (self : Circ K) (st : Circ.AddSt K) (mode : Nat) (grouped : Bool) :
    (addFinal self st mode grouped).n = ((sortNat st.sub.inHer.keys).foldl (ancStep mode) self).n ∧
    (addFinal self st mode grouped).spec =
      ((sortNat st.sub.inHer.keys).foldl (ancStep mode) self).spec ++ addedComps st mode grouped := by
  unfold addFinal addedComps
  simp only [herFold_eq]
  cases grouped <;> exact ⟨rfl, rfl⟩

theorem addedComps_ok {h : Nat} (st : Circ.AddSt K) (inv : SubInv h st)
    (hw : SpecWf st.sub.n st.spec) (hg : SpecGroupOk st.spec) (mode : Nat) (grouped : Bool) :
    SpecWf (st.sub.n + mode) (addedComps st mode grouped) ∧
      SpecGroupOk (addedComps st mode grouped) := by
  have hsh : SpecWf (st.sub.n + mode) (st.spec.map (Comp.shift mode)) := by
    intro x hx
    simp only [List.mem_map] at hx
    obtain ⟨c, hc, rfl⟩ := hx
    exact Comp.Wf.shift (hw c hc) mode
  have hlt := addedComps_modes st inv mode grouped
  unfold addedComps at hlt ⊢
  split
  · rename_i hgr
    refine ⟨hsh, ?_⟩
    intro x hx
    simp only [List.mem_map] at hx
    obtain ⟨c, hc, rfl⟩ := hx
    exact Comp.GroupOk.shift (hg c hc) mode
  · rename_i hgr
    rw [if_neg hgr] at hlt
    constructor
    · intro x hx
      simp only [List.mem_singleton] at hx; subst hx
      intro p hp
      simp only [List.mem_flatMap] at hp
      obtain ⟨c, hc, hp⟩ := hp
      exact (Comp.wf_iff_toPrims c).mp (hsh c hc) p hp
    · intro x hx
      simp only [List.mem_singleton] at hx; subst hx
      intro p hp m hm
      have hup := hlt _ (List.mem_singleton.mpr rfl) m (List.mem_flatMap.mpr ⟨p, hp, hm⟩)
      simp only [List.mem_flatMap] at hp
      obtain ⟨c, hc, hp⟩ := hp
      have hmc : m ∈ c.modes := by
        rw [← modes_toPrims]
        simp only [List.mem_flatMap]
        exact ⟨p, hp, hm⟩
      simp only [List.mem_map] at hc
      obtain ⟨c0, _, rfl⟩ := hc
      have hlo := Comp.modes_shift_ge mode c0 m hmc
      omega

/-! ### `add` -/

theorem add_spec_ok (self sub self' : Circ K) (hsub : sub.WF)
    (hws : SpecWf self.n self.spec) (hgs : SpecGroupOk self.spec)
    (hwsub : SpecWf sub.n sub.spec) (hgsub : SpecGroupOk sub.spec)
    (m : Int) (g : Bool) (h : self.add sub m g = .ok self') :
    SpecWf self'.n self'.spec ∧ SpecGroupOk self'.spec := by
  rw [add_eq] at h
  cases hm : self.modeInRange (self.mapMode m) with
  | error e => rw [hm] at h; cases h
  | ok mode =>
    rw [hm] at h
    simp only [Except.bind, addTail] at h
    split at h
    · cases h
    · split at h
      · cases h
      · rename_i h1 h2
        injection h with h; subst h
        obtain ⟨pwf, pws, pgs⟩ := pick_ok sub g hsub hwsub hgsub
        have inv := (SubInv.init sub hsub g).fold mode (sortNat self.internal)
        have hlen : (pick sub g).1.inHer.length = sub.inHer.length := by rw [(pick_props sub g).2.1]
        rw [hlen] at h2
        have hpt := ptFold_ok mode (sortNat self.internal) ⟨(pick sub g).1, swapSpec (pick sub g).1⟩
          (swapSpec_ok _ pwf pws pgs)
        generalize (sortNat self.internal).foldl (ptStep mode)
          ⟨(pick sub g).1, swapSpec (pick sub g).1⟩ = st at inv hpt h2 ⊢
        obtain ⟨e1, e2⟩ := addFinal_n_spec self st mode (pick sub g).2
        obtain ⟨a1, a2, a3⟩ := ancFold_ok mode (sortNat st.sub.inHer.keys) self ⟨hws, hgs⟩
        obtain ⟨c1, c2⟩ := addedComps_ok st inv hpt.1 hpt.2 mode (pick sub g).2
        have hkl : (sortNat st.sub.inHer.keys).length = sub.inHer.length := by
          rw [length_sortNat, ← inv.len]; simp [Dict.keys]
        rw [e1, e2]
        refine ⟨specWf_append a1 (SpecWf.mono c1 ?_), specGroupOk_append a2 c2⟩
        rw [a3, hkl]
        omega

/-! ### `+` -/

theorem plus_ok (a b c' : Circ K) (hwa : SpecWf a.n a.spec) (hga : SpecGroupOk a.spec)
    (hwb : SpecWf b.n b.spec) (hgb : SpecGroupOk b.spec) (h : a.plus b = .ok c') :
    c'.WF ∧ SpecWf c'.n c'.spec ∧ SpecGroupOk c'.spec := by
  unfold Circ.plus at h
  split at h
  · cases h
  · rename_i hn
    split at h
    · cases h
    · injection h with h; subst h
      have hn' : b.n = a.n := by
        by_contra hc; exact hn (fun e => hc e.symm)
      have hw : SpecWf a.n (a.spec ++ b.spec) := specWf_append hwa (hn' ▸ hwb)
      refine ⟨⟨?_, ?_, ?_, ?_, rfl, ?_, ?_, SpecWf.modes_lt hw⟩, hw, specGroupOk_append hga hgb⟩
      · exact List.nodup_nil
      · exact List.nodup_nil
      · intro k hk; cases hk
      · intro k hk; cases hk
      · exact List.nodup_nil
      · intro k hk; cases hk

end LW.Proofs.Reach
