/-
  LW.Proofs.C16Final — corollaries stated in LW/Properties/C16.lean.
-/
import LW.Proofs.C16MLE

open scoped BigOperators

namespace LW.Proofs.C16

open LW.Tomo

variable {K : Type} [Field K] [StarRing K] [DecidableEq K]

set_option linter.unusedSectionVars false

theorem trace_one (N : Nat) : trace (M.one N : M K) = (N : K) := by
  rw [trace_eq_sum, M.one_n]
  rw [Finset.sum_congr rfl (fun a ha => by
    rw [M.get_one (Finset.mem_range.mp ha) (Finset.mem_range.mp ha), if_pos rfl])]
  simp

/-- the average gate fidelity of a unitary with itself is one -/
theorem avg_gate_fidelity_self (h2 : (1 + 1 : K) ≠ 0) (k : Nat) (V : M K)
    (hU : V.dagger.mul V = M.one (2 ^ (k + 1))) (hd1 : (1 + 1 : K) ^ (k + 1) + 1 ≠ 0) :
    avgGateFidelity (k + 1) V V = 1 := by
  unfold avgGateFidelity
  simp only [hU, trace_one, twoPow_eq, conj_eq_star]
  have hc : ((2 ^ (k + 1) : Nat) : K) = (1 + 1) ^ (k + 1) := by
    rw [Nat.cast_pow, Nat.cast_ofNat, one_add_one_eq_two]
  rw [hc]
  set d : K := (1 + 1) ^ (k + 1) with hd
  have hsd : star d = d := by simp [hd]
  rw [hsd]
  have hd0 : d ≠ 0 := pow_ne_zero _ h2
  rw [show d * d + d = d * (d + 1) by ring]
  exact mul_inv_cancel₀ (mul_ne_zero hd0 hd1)

/-- gate fidelity against the implemented unitary itself is one -/
theorem gate_fidelity_self {i : K} (hi : i * i = -1) (hs : star i = -i) (h2 : (1 + 1 : K) ≠ 0)
    (k : Nat) (V : M K) (hV : V.n = 2 ^ (k + 1)) (hU : V.dagger.mul V = M.one (2 ^ (k + 1)))
    (hd1 : (1 + 1 : K) ^ (k + 1) + 1 ≠ 0) :
    gateFidelityOf i (k + 1) V ((combineAll tomoInputsLI (k + 1)).map fun ins =>
        (ins, channel V (rhoKron i ins))) = 1 := by
  rw [gate_fidelity_formula hi hs h2 k V V hV hV, avg_gate_fidelity_self h2 k V hU hd1]

end LW.Proofs.C16
