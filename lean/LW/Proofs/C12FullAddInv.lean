/-
  LW.Proofs.C12FullAddInv — `Circ.add` succeeds when the sub-circuit fits, and preserves the
  invariant of the circuits built by the converter (heralds = ancillas, in order; no loss).
-/
import LW.Proofs.C02SemAdd6

namespace LW.C12F

open LW LW.Proofs.C01Aux LW.Proofs.C02 LW.Proofs.C02Sem

variable {K : Type} [CommRing K] [StarRing K]

set_option linter.unusedSectionVars false

/-- invariant of the circuits built by the converter: heralds = ancillas, in the same order,
input heralds = output heralds, no loss component -/
structure HerInv (c : Circ K) : Prop where
  wf : c.WF
  io : c.outHer = c.inHer
  keys : c.inHer.keys = c.internal
  loss : lossCount c.spec = 0

/-- `add` succeeds when the sub-circuit fits on the ports -/
theorem add_succeeds (self sub : Circ K) (hwf : self.WF) (hwfs : sub.WF) (m : Nat) (g : Bool)
    (hfit : m + (sub.n - sub.inHer.length) ≤ self.n - self.internal.length)
    (hpos : 0 < sub.n - sub.inHer.length) :
    ∃ self', self.add sub (m : Int) g = .ok self' := by
  have hports : self.ports = self.n - self.internal.length := rfl
  have hm0 : (0 : Int) ≤ (m : Int) := Int.natCast_nonneg m
  have hm1 : ((m : Nat) : Int) < (self.ports : Int) := by rw [hports]; omega
  rw [add_eq]
  have hR1 : self.mapMode m < (self.n : Int) := (mapMode_lt_iff' self hwf m).mpr hm1
  have hR0 : (m : Int) ≤ self.mapMode m := le_skipFold _ m
  have hok : self.modeInRange (self.mapMode m) = .ok (self.mapMode m).toNat := by
    unfold Circ.modeInRange; rw [if_pos ⟨by omega, hR1⟩]
  rw [hok]
  simp only [Except.bind, addTail]
  obtain ⟨hcount, hnot⟩ := mapMode_count self hwf m hm0
  have hsplit := length_split (sortNat self.internal) _ hnot
  rw [length_sortNat] at hsplit
  have hil := WF.internal_length_le hwf
  have hhle := length_le_of_nodup_lt _ _ hwfs.inNodup hwfs.inLt
  have hkl : sub.inHer.keys.length = sub.inHer.length := by simp [Dict.keys]
  have hlen : (pick sub g).1.inHer.length = sub.inHer.length := by rw [(pick_props sub g).2.1]
  have hn : (pick sub g).1.n = sub.n := (pick_props sub g).1
  have hup := ptFold_le (self.mapMode m).toNat (sortNat self.internal)
    ⟨(pick sub g).1, swapSpec (pick sub g).1⟩
  have hlo := ptFold_ge (self.mapMode m).toNat (sortNat self.internal)
    ⟨(pick sub g).1, swapSpec (pick sub g).1⟩
  have hfil : ((sortNat self.internal).filter fun a => decide ((self.mapMode m).toNat ≤ a)).length
      = ((sortNat self.internal).filter fun a => decide ((self.mapMode m).toNat < a)).length := by
    congr 1
    apply List.filter_congr
    intro a ha
    have : a ≠ (self.mapMode m).toNat := fun e => hnot (e ▸ ha)
    simp only [decide_eq_decide]
    omega
  rw [hfil] at hup
  simp only [hn] at hup hlo
  rw [hlen, hn]
  rw [if_neg (by omega), if_neg (by omega)]
  exact ⟨_, rfl⟩

/-- `sortNat` leaves a strictly sorted list unchanged -/
theorem sortNat_of_strictSorted {l : List Nat} (h : l.Pairwise (· < ·)) : sortNat l = l := by
  have hnd : l.Nodup := h.imp (fun h => Nat.ne_of_lt h)
  exact eq_of_sorted_subset (strictSorted_sortNat hnd) h (fun x hx => mem_sortNat.mp hx)
    (by rw [length_sortNat])

set_option linter.unusedVariables false in
/-- the invariant is preserved when the sub-circuit has equal input/output heralds listed in
increasing mode order and no loss -/
theorem add_herInv (self sub self' : Circ K) (hs : HerInv self) (hwfs : sub.WF)
    (hio : sub.outHer = sub.inHer) (hsorted : sub.inHer.keys.Pairwise (· < ·))
    (hloss : lossCount sub.spec = 0) (m : Int) (g : Bool) (h : self.add sub m g = .ok self') :
    HerInv self' ∧
    self'.n - self'.inHer.length = self.n - self.inHer.length ∧
    self'.inHer.map (·.2) = self.inHer.map (·.2) ++ sub.inHer.map (·.2) := by
  obtain ⟨mode, ts, d⟩ := add_data self sub self' hs.wf hwfs m g h
  have hwf' := (add_preserves_WF self sub self' hs.wf hwfs m g h).1
  have hmono : (sub.inHer.keys.map (bumps ts)).Pairwise (· < ·) := by
    rw [List.pairwise_map]
    exact hsorted.imp (fun hab => bumps_strictMono ts hab)
  have hsn := sortNat_of_strictSorted hmono
  have hlenIn : self'.inHer.length = self.inHer.length + sub.inHer.length := by
    rw [d.inHer, List.length_append, List.length_map, length_mapKeys, length_mapKeys]
  refine ⟨⟨hwf', ?_, ?_, ?_⟩, ?_, ?_⟩
  · rw [d.outHer, d.inHer, hs.io]
  · rw [d.inHer, d.internal, hsn, ← hs.keys]
    simp only [Dict.keys, Dict.mapKeys, List.map_append, List.map_map]
    congr 1
    apply List.map_congr_left
    intro p _
    simp [Nat.add_comm]
  · rw [lossCount_res d, hs.loss, hloss]
  · rw [d.n_eq, hlenIn]; omega
  · rw [d.inHer, List.map_append]
    simp [Dict.mapKeys, Function.comp_def]

/-! ### non-vacuity: a 2-mode circuit with one heralded ancilla satisfies the invariant, adding it
to itself succeeds and the result satisfies the invariant again -/

/-- one port (mode 0) and one ancilla (mode 1) heralded on 0 photons -/
def exC : Circ Int := { n := 2, inHer := [(1, 0)], outHer := [(1, 0)], internal := [1] }

theorem exC_herInv : HerInv exC := by
  refine ⟨⟨?_, ?_, ?_, ?_, rfl, ?_, ?_, ?_⟩, rfl, rfl, rfl⟩
  · decide
  · decide
  · decide
  · decide
  · decide
  · decide
  · intro c hc; cases hc

example : ∃ c' : Circ Int, exC.add exC (0 : Nat) false = .ok c' ∧ HerInv c' ∧ c'.n - c'.inHer.length = 1 ∧
    c'.inHer.map (·.2) = [0, 0] := by
  obtain ⟨c', h⟩ := add_succeeds exC exC exC_herInv.wf exC_herInv.wf 0 false (by decide) (by decide)
  obtain ⟨h1, h2, h3⟩ := add_herInv exC exC c' exC_herInv exC_herInv.wf rfl (by decide) rfl _ false h
  exact ⟨c', h, h1, h2, h3⟩

end LW.C12F
