/-
  LW.Proofs.C04bCore — pure-Mathlib part of "SLOS = permanent": the sum of row products over all
  index functions of a given occupation (`fsum`), and its one-photon recursion.
-/
import LW.Proofs.FockIsoCore
import Mathlib.Algebra.BigOperators.Fin
import Mathlib.Data.Fin.Tuple.Basic

open Finset

namespace LW.Proofs.C04b

open LW.Proofs.FockIso (occ)

variable {K : Type} [CommSemiring K]

/-- `Σ_{f : occ f = w} ∏_m u (f m) (y m)` -/
def fsum {N k : ℕ} (u : ℕ → ℕ → K) (y : Fin k → ℕ) (w : Fin N → ℕ) : K :=
  ∑ f ∈ univ.filter (fun f : Fin k → Fin N => occ f = w), ∏ m, u (f m) (y m)

theorem occ_fin_zero {N : ℕ} (f : Fin 0 → Fin N) : occ f = 0 := by
  funext z
  simp [occ]

theorem fsum_zero {N : ℕ} (u : ℕ → ℕ → K) (y : Fin 0 → ℕ) (w : Fin N → ℕ) :
    fsum u y w = if w = 0 then 1 else 0 := by
  unfold fsum
  rw [Finset.sum_filter]
  simp only [occ_fin_zero, Finset.univ_eq_empty, Finset.prod_empty, Finset.univ_unique,
    Finset.sum_singleton]
  by_cases h : w = 0
  · simp [h]
  · rw [if_neg h, if_neg (fun h' => h h'.symm)]

theorem occ_snoc {N k : ℕ} (f : Fin k → Fin N) (j : Fin N) (z : Fin N) :
    occ (Fin.snoc f j : Fin (k + 1) → Fin N) z = occ f z + if j = z then 1 else 0 := by
  unfold occ
  rw [Fintype.card_subtype, Fintype.card_subtype, Finset.card_filter, Finset.card_filter,
    Fin.sum_univ_castSucc]
  simp

theorem occ_snoc_eq_iff {N k : ℕ} (f : Fin k → Fin N) (j : Fin N) (w : Fin N → ℕ) :
    occ (Fin.snoc f j : Fin (k + 1) → Fin N) = w ↔
      0 < w j ∧ occ f = Function.update w j (w j - 1) := by
  constructor
  · intro h
    subst h
    refine ⟨by rw [occ_snoc]; simp, ?_⟩
    funext z
    by_cases hz : z = j
    · subst hz
      rw [Function.update_self, occ_snoc]
      simp
    · rw [Function.update_of_ne hz, occ_snoc, if_neg (fun h => hz h.symm), add_zero]
  · rintro ⟨h1, h2⟩
    funext z
    rw [occ_snoc, h2]
    by_cases hz : z = j
    · subst hz
      rw [Function.update_self, if_pos rfl]
      omega
    · rw [Function.update_of_ne hz, if_neg (fun h => hz h.symm), add_zero]

theorem fsum_succ {N k : ℕ} (u : ℕ → ℕ → K) (y : Fin (k + 1) → ℕ) (w : Fin N → ℕ) :
    fsum u y w = ∑ j : Fin N,
      if 0 < w j then
        fsum u (fun m => y (Fin.castSucc m)) (Function.update w j (w j - 1)) * u j (y (Fin.last k))
      else 0 := by
  unfold fsum
  rw [Finset.sum_filter, ← Fintype.sum_equiv (Fin.snocEquiv (fun _ => Fin N)) _ _ (fun _ => rfl),
    Fintype.sum_prod_type]
  apply Finset.sum_congr rfl
  intro j _
  have hE : ∀ f : Fin k → Fin N,
      (Fin.snocEquiv (fun _ : Fin (k + 1) => Fin N)) (j, f) = (Fin.snoc f j : Fin (k + 1) → Fin N) :=
    fun _ => rfl
  simp only [hE, occ_snoc_eq_iff]
  by_cases hj : 0 < w j
  · simp only [hj, true_and, if_true]
    rw [Finset.sum_filter, Finset.sum_mul]
    apply Finset.sum_congr rfl
    intro f _
    by_cases hf : occ f = Function.update w j (w j - 1)
    · rw [if_pos hf, if_pos hf, Fin.prod_univ_castSucc]
      simp
    · rw [if_neg hf, if_neg hf, zero_mul]
  · simp [hj]

end LW.Proofs.C04b
