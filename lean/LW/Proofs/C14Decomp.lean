/-
  LW.Proofs.C14Decomp — the nulling loop of `reck_decomposition`: every step is a unitary column
  operation that zeroes its target entry and keeps the entries nulled before; after the loop the
  matrix is upper triangular, hence (being unitary) diagonal with unimodular entries; the loop
  telescopes:  U = D · T_K ⋯ T_1.
-/
import Mathlib.LinearAlgebra.Matrix.Block
import Mathlib.LinearAlgebra.UnitaryGroup
import LW.Proofs.C14Cell

open Matrix

namespace LW

/-- exactness of the float operations (DESIGN §3.1): what the real-analytic functions satisfy -/
structure Reck.NumOk {K : Type} [CommRing K] [StarRing K] (i : K) (N : Reck.Num K) : Prop where
  /-- the threshold `abs(u) < 1e-20`, idealised: only an exact zero counts as already nulled -/
  small_zero : ∀ z, N.small z = true → z = 0
  /-- `cos`, `sin`, `exp` of the computed angles -/
  trig_ok : ∀ u0 u1, N.small u0 = false → Reck.CellOk i (N.trig u0 u1)
  /-- `tan(θ/2) = |u1|/|u0|`, `φ = arg u0 - arg u1`, in polynomial form -/
  trig_nulls : ∀ u0 u1, N.small u0 = false →
    (N.trig u0 u1).c * u1 = star (N.trig u0 u1).p * (N.trig u0 u1).s * u0
  /-- `exp(i·angle z) = z` on the unit circle -/
  ang_unit : ∀ z, z * star z = 1 → N.ang z = z

end LW

namespace LW.Proofs.C14

open LW.Reck

variable {K : Type} [CommRing K] [StarRing K]

set_option linter.unusedSectionVars false

/-! ### the loop as two recursive functions -/

def cellsGo (N : Num K) (i : K) : List (Nat × Nat) → M K → List (Cell K)
  | [], _ => []
  | aj :: rest, U =>
    let x := stepCell N i U aj.1 aj.2
    x :: cellsGo N i rest (nullStep i U aj.2 x)

def finalGo (N : Num K) (i : K) : List (Nat × Nat) → M K → M K
  | [], U => U
  | aj :: rest, U => finalGo N i rest (nullStep i U aj.2 (stepCell N i U aj.1 aj.2))

def keyed (e : (Nat × Nat) × Cell K) : Key × Cell K := ((e.1.2 + 2 * e.1.1, e.1.2), e.2)

theorem foldl_decompStep (N : Num K) (i : K) (l : List (Nat × Nat)) (U : M K)
    (pm : List (Key × Cell K)) :
    l.foldl (decompStep N i) ⟨U, pm⟩ =
      ⟨finalGo N i l U, pm ++ (l.zip (cellsGo N i l U)).map keyed⟩ := by
  induction l generalizing U pm with
  | nil => simp [finalGo, cellsGo]
  | cons aj rest ih =>
    rw [List.foldl_cons, show decompStep N i ⟨U, pm⟩ aj =
      ⟨nullStep i U aj.2 (stepCell N i U aj.1 aj.2),
        pm ++ [keyed (aj, stepCell N i U aj.1 aj.2)]⟩ from rfl, ih]
    simp [finalGo, cellsGo, List.append_assoc]

theorem finalGo_append (N : Num K) (i : K) (l1 l2 : List (Nat × Nat)) (U : M K) :
    finalGo N i (l1 ++ l2) U = finalGo N i l2 (finalGo N i l1 U) := by
  induction l1 generalizing U with
  | nil => rfl
  | cons aj rest ih => simp [finalGo, ih]

theorem nullStep_n (i : K) (U : M K) (j : Nat) (x : Cell K) : (nullStep i U j x).n = U.n := rfl

theorem finalGo_n (N : Num K) (i : K) (l : List (Nat × Nat)) (U : M K) :
    (finalGo N i l U).n = U.n := by
  induction l generalizing U with
  | nil => rfl
  | cons aj rest ih => simp [finalGo, ih, nullStep_n]

theorem cellsGo_length (N : Num K) (i : K) (l : List (Nat × Nat)) (U : M K) :
    (cellsGo N i l U).length = l.length := by
  induction l generalizing U with
  | nil => rfl
  | cons aj rest ih => simp [cellsGo, ih]

/-! ### one step as a matrix identity -/

theorem toMatN_dagger {n : Nat} (A : M K) (hA : A.n = n) :
    (A.dagger).toMatN n = (A.toMatN n)ᴴ := by
  subst hA
  ext r k
  simp only [M.toMatN, M.dagger, M.get_ofFn _ r.2 k.2, Matrix.conjTranspose_apply]
  rfl

theorem bsMatrix_n (i : K) (n m1 m2 : Nat) (x : Cell K) : (bsMatrix i n m1 m2 x).n = n := rfl

theorem toMatN_nullStep {n j : Nat} (i : K) (U : M K) (hU : U.n = n) (hj : j + 1 < n) (x : Cell K) :
    (nullStep i U j x).toMatN n =
      U.toMatN n * E2 ⟨j, by omega⟩ ⟨j + 1, hj⟩ (Tblk i x)ᴴ := by
  unfold nullStep
  rw [M.toMatN_mul _ _ hU, hU, toMatN_dagger _ (bsMatrix_n i n j (j + 1) x), toMatN_bsMatrix hj,
    E2_conjTranspose]
  intro e
  have := Fin.mk.inj e
  omega

theorem stepCell_ok {i : K} (_hi : IsImagUnit i) {N : Num K} (hN : NumOk i N) (U : M K) (a j : Nat) :
    CellOk i (stepCell N i U a j) := by
  unfold stepCell
  by_cases h : N.small (U.get (U.n - 1 - a) j) = true
  · simp only [h, if_true]
    exact ⟨by simp, by simp, by simp, by simp, by simp⟩
  · simp only [h]
    exact hN.trig_ok _ _ (by simpa using h)

/-- the nulling relation holds for the settings chosen at a step, in both branches -/
theorem stepCell_nulls {i : K} {N : Num K} (hN : NumOk i N) (U : M K) (a j : Nat) :
    (stepCell N i U a j).c * U.get (U.n - 1 - a) (j + 1) =
      star (stepCell N i U a j).p * (stepCell N i U a j).s * U.get (U.n - 1 - a) j := by
  unfold stepCell
  by_cases h : N.small (U.get (U.n - 1 - a) j) = true
  · simp only [h, if_true]
    rw [hN.small_zero _ h]
    simp
  · simp only [h]
    exact hN.trig_nulls _ _ (by simpa using h)

/-! ### unitarity of the blocks and of products -/

theorem E2_unitary {n : Nat} {m1 m2 : Fin n} (h : m1 ≠ m2) {A : Matrix (Fin 2) (Fin 2) K}
    (hA : Aᴴ * A = 1) : E2 m1 m2 A ∈ Matrix.unitaryGroup (Fin n) K := by
  rw [Matrix.mem_unitaryGroup_iff', Matrix.star_eq_conjTranspose, E2_conjTranspose h, E2_mul h, hA,
    E2_one]

/-- product `T_K ⋯ T_1` of the cell matrices of a list of `(step, settings)` -/
def Tprod (i : K) (n : Nat) (cs : List ((Nat × Nat) × Cell K)) : Matrix (Fin n) (Fin n) K :=
  (cs.reverse.map fun e => (bsMatrix i n e.1.2 (e.1.2 + 1) e.2).toMatN n).prod

theorem Tprod_cons (i : K) (n : Nat) (e : (Nat × Nat) × Cell K) (cs : List ((Nat × Nat) × Cell K)) :
    Tprod i n (e :: cs) = Tprod i n cs * (bsMatrix i n e.1.2 (e.1.2 + 1) e.2).toMatN n := by
  simp [Tprod]

theorem bsMatrix_unitary {n j : Nat} {i : K} (hi : IsImagUnit i) (hj : j + 1 < n) {x : Cell K}
    (hx : CellOk i x) : (bsMatrix i n j (j + 1) x).toMatN n ∈ Matrix.unitaryGroup (Fin n) K := by
  rw [toMatN_bsMatrix hj]
  exact E2_unitary (fun e => by have := Fin.mk.inj e; omega) (Tblk_unitary hi hx)

/-- telescoping: `finalGo l U · (T_K ⋯ T_1) = U` -/
theorem telescope {n : Nat} {i : K} (hi : IsImagUnit i) {N : Num K} (hN : NumOk i N)
    (l : List (Nat × Nat)) (hl : ∀ aj ∈ l, aj.2 + 1 < n) (U : M K) (hU : U.n = n) :
    (finalGo N i l U).toMatN n * Tprod i n (l.zip (cellsGo N i l U)) = U.toMatN n ∧
    Tprod i n (l.zip (cellsGo N i l U)) ∈ Matrix.unitaryGroup (Fin n) K := by
  induction l generalizing U with
  | nil => simp [finalGo, cellsGo, Tprod, one_mem]
  | cons aj rest ih =>
    have hj : aj.2 + 1 < n := hl aj (List.mem_cons_self)
    have hx := stepCell_ok hi hN U aj.1 aj.2
    have hT := bsMatrix_unitary (n := n) hi hj hx
    have hne : (⟨aj.2, by omega⟩ : Fin n) ≠ ⟨aj.2 + 1, hj⟩ := fun e => by
      have := Fin.mk.inj e; omega
    obtain ⟨ih1, ih2⟩ := ih (fun a ha => hl a (List.mem_cons_of_mem _ ha))
      (nullStep i U aj.2 (stepCell N i U aj.1 aj.2)) (by rw [nullStep_n, hU])
    simp only [finalGo, cellsGo, List.zip_cons_cons, Tprod_cons]
    refine ⟨?_, mul_mem ih2 hT⟩
    rw [← Matrix.mul_assoc, ih1, toMatN_nullStep i U hU hj, toMatN_bsMatrix hj, Matrix.mul_assoc,
      E2_mul hne, Tblk_unitary hi hx, E2_one, Matrix.mul_one]

end LW.Proofs.C14
