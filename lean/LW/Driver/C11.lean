/-
  LW.Driver.C11 — protocol handler `cache`: histories of long-lived Sampler / QuickSampler objects on
  the cache model LW.Model.Cache (`Cached.runE`, `CWorld.step`).

  one object:
    {"op":"cache","snap":"sampler-fixed"|"sampler-pinned"|"quick-fixed"|"quick-pinned",
     "history":[["cfg", CFG] | ["read"] …]        (the first step must be a "cfg": the initial settings)
     "fails":[r…]}                                 indexes (among the reads) whose computation raised
    CFG (sampler) {"ufull":n,"nModes":n,"inHer":[[m,k]…],"outHer":[[m,k]…],"input":[n…],"backend":n,
                   "source":[n,n,n,n]}
    CFG (quick)   {"ufull":n,"nModes":n,"inHer":…,"outHer":…,"input":[n…],"psId":n,
                   "psRules":[[[m…],[k…]]…],"photonCounting":bool}
  several QuickSamplers sharing PostSelection objects:
    {"op":"cache","snap":"quick-world-fixed"|"quick-world-pinned","heap":[[psId, RULES]…],
     "history":[["new", OWN] | ["set", i, OWN] | ["mutate", psId, RULES] | ["read", i] …],"fails":[r…]}
    OWN = CFG (quick) without "psRules"; objects not listed in "heap" hold no rules

  The abstract computation is `compute c = the index of the first read whose configuration equals c`
  (an exception for the configurations of the reads listed in "fails"), so the value returned by a
  read names the configuration it was computed for.
  response: one record per read, in order:
    {"recomputed":bool, "cfg":id, "value":id|null}   (+ "holder":i in a world; reads of holders that do
    not exist produce {"holder":i,"missing":true})
-/
import LW.Driver.Common
import LW.Model.Cache

open Lean

namespace LW.Driver.C11

open LW LW.Driver

def asHer (j : Json) : R (List (Nat × Nat)) := asListOf (asPair asNat asNat) j
def asRules (j : Json) : R (List PSRule) := asListOf (asPair (asListOf asNat) (asListOf asNat)) j

def asSamplerCfg (j : Json) : R (SamplerCfg Nat) := do
  return ⟨← asNat (← fld j "ufull"), ← asNat (← fld j "nModes"), ← asHer (← fld j "inHer"),
          ← asHer (← fld j "outHer"), ← asListOf asNat (← fld j "input"), ← asNat (← fld j "backend"),
          ← asListOf asNat (← fld j "source")⟩

def asQuickOwn (j : Json) : R (QuickOwn Nat) := do
  return ⟨← asNat (← fld j "ufull"), ← asNat (← fld j "nModes"), ← asHer (← fld j "inHer"),
          ← asHer (← fld j "outHer"), ← asListOf asNat (← fld j "input"), ← asNat (← fld j "psId"),
          ← asBool (← fld j "photonCounting")⟩

def asQuickCfg (j : Json) : R (QuickCfg Nat) := do
  let o ← asQuickOwn j
  let rules ← asRules (← fld j "psRules")
  return o.resolve (fun _ => rules)

def firstIdx {α : Type} [DecidableEq α] (l : List α) (a : α) : Nat :=
  match l with
  | [] => 0
  | x :: xs => if x = a then 0 else firstIdx xs a + 1

/-- the abstract computation: the index of the first read with that configuration; raises for the
configurations of the reads listed in `fails` -/
def computeOf {C : Type} [DecidableEq C] (atReads : List C) (fails : List Nat) (c : C) :
    Except Unit Nat :=
  if (fails.filterMap (atReads[·]?)).contains c then .error () else .ok (firstIdx atReads c)

def outJ (v : Except Unit Nat) : Json :=
  match v with
  | .ok n => natJ n
  | .error _ => Json.null

/-! ### one object -/

def parseHist {C : Type} (parse : Json → R C) (j : Json) : R (C × List (Cached.Op C)) := do
  let steps ← asList j
  match steps with
  | [] => .error "empty history"
  | first :: rest =>
    let f ← asList first
    let init ← match f with
      | [Json.str "cfg", c] => parse c
      | _ => .error "the first step must be a cfg"
    let ops ← rest.mapM (fun st => do
      match ← asList st with
      | [Json.str "cfg", c] => do
        let c' ← parse c
        return Cached.Op.reconfig (fun _ => c')
      | [Json.str "read"] => return Cached.Op.read
      | _ => .error s!"bad step {st.compress}")
    return (init, ops)

def runOne {C S : Type} [DecidableEq C] [DecidableEq S] (snap : C → S) (parse : Json → R C)
    (req : Json) : R Json := do
  let (init, ops) ← parseHist parse (← fld req "history")
  let fails ← asListOf asNat (← fld req "fails")
  -- the configurations current at the reads (a run with a computation that returns nothing)
  let atReads := (Cached.runE snap (fun _ => (Except.ok 0 : Except Unit Nat))
    ({ cfg := init } : Cached C S Nat) ops).map (·.1)
  let compute := computeOf atReads fails
  let res := Cached.runE snap compute ({ cfg := init } : Cached C S Nat) ops
  return listJ (fun r => Json.mkObj [("recomputed", Json.bool r.2.1), ("cfg", natJ (firstIdx atReads r.1)),
                                     ("value", outJ r.2.2)]) res

/-! ### QuickSamplers sharing PostSelection objects -/

def asWOp (st : Json) : R (WOp PSHeap (QuickOwn Nat)) := do
  match ← asList st with
  | [Json.str "new", o] => return .new (← asQuickOwn o)
  | [Json.str "set", i, o] => do
    let o' ← asQuickOwn o
    return .reconfig (← asNat i) (fun _ => o')
  | [Json.str "mutate", p, r] => return .mutatePS (← asNat p) (← asRules r)
  | [Json.str "read", i] => return .read (← asNat i)
  | _ => .error s!"bad step {st.compress}"

def readIdx : WOp PSHeap (QuickOwn Nat) → Option Nat
  | .read i => some i
  | _ => none

def runWorld {S : Type} [DecidableEq S] (snap : QuickCfg Nat → S) (req : Json) : R Json := do
  let ops ← asListOf asWOp (← fld req "history")
  let fails ← asListOf asNat (← fld req "fails")
  let heap0 ← match req.getObjVal? "heap" with
    | .ok h => asListOf (asPair asNat asRules) h
    | .error _ => pure []
  let heap : PSHeap := fun p => match heap0.find? (·.1 == p) with
    | some (_, r) => r
    | none => []
  -- the configurations current at the reads: the cache-free world
  let atReads := (CWorld.specRun QuickOwn.resolve (fun _ => (Except.ok 0 : Except Unit Nat))
    (heap, []) ops).map (·.2.1)
  let compute := computeOf atReads fails
  let w0 : CWorld PSHeap (QuickOwn Nat) S Nat := ⟨heap, []⟩
  let (_, out) := ops.foldl (fun (acc : CWorld PSHeap (QuickOwn Nat) S Nat × Array Json) op =>
    let (w, out) := acc
    let flag := (readIdx op).bind (CWorld.staleAt QuickOwn.resolve snap w)
    let (r, w') := CWorld.step QuickOwn.resolve snap compute w op
    match r, readIdx op with
    | some (i, c, v), _ =>
      (w', out.push (Json.mkObj [("holder", natJ i), ("recomputed", Json.bool (flag.getD true)),
                                 ("cfg", natJ (firstIdx atReads c)), ("value", outJ v)]))
    | none, some i => (w', out.push (Json.mkObj [("holder", natJ i), ("missing", Json.bool true)]))
    | none, none => (w', out)) (w0, #[])
  return Json.arr out

def handleC11 (req : Json) : R Json := do
  match ← asStr (← fld req "snap") with
  | "sampler-fixed" => runOne (snapFixed (U := Nat)) asSamplerCfg req
  | "sampler-pinned" => runOne (snapPinned (U := Nat)) asSamplerCfg req
  | "quick-fixed" => runOne (snapQuickFixed (U := Nat)) asQuickCfg req
  | "quick-pinned" => runOne (snapQuickPinned (U := Nat)) asQuickCfg req
  | "quick-world-fixed" => runWorld (snapQuickFixed (U := Nat)) req
  | "quick-world-pinned" => runWorld (snapQuickPinned (U := Nat)) req
  | s => .error s!"unknown snapshot {s}"

end LW.Driver.C11
