/-
  LW.Driver.Fock — protocol handler `fock`: simulator amplitudes (C03) and sampler distributions
  (C04) of the circuit built by a construction program, on the exact model (K = GQ, Q = Rat).
-/
import LW.Driver.Circuit
import LW.Model.Fock
import LW.Model.Dist
import LW.Model.Analysis

open Lean

namespace LW.Driver

def asOcc (j : Json) : R Occ :=
  match j with
  | .str _ => .ok .bad
  | .bool _ => .ok .bad
  | .null => .ok .bad
  | _ => match j.getInt? with
    | .ok v => .ok (.int v)
    | .error _ => .ok .bad     -- non-integral number

def stateJ (s : FState) : Json := listJ natJ s

/-- run a construction program and return the named circuit -/
def buildCirc (req : Json) : R (Circ GQ) := do
  let prog ← asList (← fld req "prog")
  let id ← asStr (← fld req "id")
  let mut pool : Pool := []
  for op in prog do
    let (p', _) ← circStep pool op
    pool := p'
  pool.get id

def asBackend (j : Json) : R BackendKind := do
  match (← asStr j) with
  | "permanent" => .ok .permanent
  | "slos" => .ok .slos
  | s => .error s!"bad backend {s}"

def pdistJ (d : PDist Rat) : Json :=
  listJ (fun (x : FState × Rat) => Json.arr #[stateJ x.1, ratJ x.2]) d

/-- sampler distribution for an ideal source: heralds inserted, `pdist_calc`, empty → vacuum -/
def samplerDist (c : Circ GQ) (input : FState) (b : BackendKind) (eps : Rat) : PDist Rat :=
  let full := addHeralds input c.inHer
  let pd := pdistCalc b GQ.normSq eps (c.Ufull GQ.I) c.n [(full, 1)]
  if pd.isEmpty then [(List.replicate c.n 0, 1)] else pd

def asRules (j : Json) : R (List Rule) :=
  asListOf (fun r => do
    let p ← asPair (asListOf asNat) (asListOf asNat) r
    pure (⟨p.1, p.2⟩ : Rule)) j

def handleFock (req : Json) : R Json := do
  let what ← asStr (← fld req "what")
  let c ← buildCirc req
  match what with
  | "sim" => do
      let ins ← asListOf (asListOf asOcc) (← fld req "inputs")
      let outs ← asOpt (asListOf (asListOf asOcc)) (req.getObjValD "outputs")
      match simulate GQ.I c ins outs with
      | .error e => return Json.mkObj [("error_class", Json.str e.toString)]
      | .ok r =>
        return Json.mkObj [
          ("inputs", listJ stateJ r.inputs),
          ("outputs", listJ stateJ r.outputs),
          ("amps", listJ (listJ fun (x : GQ × Nat) => Json.arr #[gqJ x.1, natJ x.2]) r.amps)]
  | "dist" => do
      let input ← asListOf asNat (← fld req "input")
      let b ← asBackend (← fld req "backend")
      let eps ← asRat (← fld req "eps")
      if input.length ≠ c.inputModes then
        return Json.mkObj [("error_class", Json.str Err.modeMismatch.toString)]
      let pd := samplerDist c input b eps
      -- the un-thresholded distribution marks entries that sit at the truncation threshold
      let pd0 := samplerDist c input b 0
      return Json.mkObj [("pdist", pdistJ pd), ("pdist_exact", pdistJ pd0),
        ("n", natJ c.n), ("loss_modes", natJ ((c.Ufull GQ.I).n - c.n))]
  | "ana" => do
      let rules ← asRules (← fld req "rules")
      let ins ← asListOf (asListOf asOcc) (← fld req "inputs")
      let ex ← asOpt (asListOf (asListOf (asListOf asNat))) (req.getObjValD "expected")
      match analyze (Q := Rat) GQ.I GQ.normSq c rules ins ex with
      | .error e => return Json.mkObj [("error_class", Json.str e.toString)]
      | .ok r =>
        return Json.mkObj [
          ("outputs", listJ stateJ r.outputs),
          ("probs", listJ (listJ ratJ) r.probs),
          ("performance", ratJ r.performance),
          ("error_rate", match r.errorRate with | some e => ratJ e | none => Json.null)]
  | "quick" => do
      let rules ← asRules (← fld req "rules")
      let input ← asListOf asNat (← fld req "input")
      let pnr ← asBool (← fld req "pnr")
      let eps ← asRat (← fld req "eps")
      match quickDist (Q := Rat) GQ.I GQ.normSq eps c rules pnr input with
      | .error e => return Json.mkObj [("error_class", Json.str e.toString)]
      | .ok pd => return Json.mkObj [("pdist", pdistJ pd)]
  | s => .error s!"unknown fock request {s}"

end LW.Driver
