/-
  LW.Driver.C10 — protocol handler `c10`: runs a history of Parameter / ParameterDict / circuit
  calls on the exact model (α = Rat keys, K = GQ) and reports, after every call, the outcome and
  the public observables of every live object: Parameter.get / min_bound / max_bound,
  ParameterDict items, Circuit.U (or the exception class) and Circuit.get_all_params.

  The float functions (`Views`) are supplied per request as a finite table
  key ↦ (√x, √(1-x), e^{ix}); a lookup outside the table is a protocol error, never a default.
-/
import LW.Driver.Common
import LW.Driver.Circuit
import LW.Model.PCircuit

open Lean

namespace LW.Driver.C10
open LW.Driver

structure ViewRow where
  k : Rat
  rt : Option GQ
  rt1 : Option GQ
  e : Option GQ

def parseRow (j : Json) : R ViewRow := do
  let k ← asRat (← fld j "k")
  let opt (name : String) : R (Option GQ) :=
    match j.getObjVal? name with
    | .ok v => asOpt asGQ v
    | .error _ => .ok none
  return { k := k, rt := ← opt "rt", rt1 := ← opt "rt1", e := ← opt "e" }

def lookup (tab : List ViewRow) (x : Rat) : Option ViewRow := tab.find? (·.k == x)

def mkViews (tab : List ViewRow) : Views Rat GQ where
  unit x := decide (0 ≤ x) && decide (x ≤ 1)
  rt x := ((lookup tab x).bind (·.rt)).getD 0
  rt1 x := ((lookup tab x).bind (·.rt1)).getD 0
  expi x := ((lookup tab x).bind (·.e)).getD 0

/-- a view the table does not supply although a compile needs it -/
def missingView (tab : List ViewRow) (σ : Store Rat) : Sym Rat GQ → Option String
  | .lit _ => none
  | .view r src =>
    match src.val σ with
    | .other _ => none
    | .num x =>
      let row := lookup tab x
      let have_ := match r with
        | .rt => (row.bind (·.rt)).isSome
        | .rt1 => (row.bind (·.rt1)).isSome
        | .expi => (row.bind (·.e)).isSome
      if have_ then none else some s!"no {repr r} view for key {x}"

def asVal (j : Json) : R (Val Rat) :=
  match j.getObjVal? "n" with
  | .ok v => Val.num <$> asRat v
  | .error _ =>
    match j.getObjVal? "o" with
    | .ok v => Val.other <$> asNat v
    | .error _ => .error s!"bad value {j.compress}"

def valJ : Val Rat → Json
  | .num x => Json.mkObj [("n", ratJ x)]
  | .other t => Json.mkObj [("o", natJ t)]

def optJ (f : α → Json) : Option α → Json
  | none => Json.null
  | some x => f x

def asLossArg (j : Json) : R (LossArg Rat GQ) :=
  match j with
  | .null => .ok .zero
  | _ =>
    match j.getObjVal? "p" with
    | .ok v => LossArg.param <$> asNat v
    | .error _ => do
      let a ← asGQ (← fld j "a"); let b ← asGQ (← fld j "b"); let v ← asBool (← fld j "valid")
      return .lit a b v

def asReflArg (j : Json) : R (ReflArg Rat GQ) :=
  match j.getObjVal? "p" with
  | .ok v => ReflArg.param <$> asNat v
  | .error _ => do
    let c ← asGQ (← fld j "c"); let s ← asGQ (← fld j "s"); let v ← asBool (← fld j "valid")
    return .lit c s v

def asPhiArg (j : Json) : R (PhiArg Rat GQ) :=
  match j.getObjVal? "p" with
  | .ok v => PhiArg.param <$> asNat v
  | .error _ => do
    let e ← asGQ (← fld j "e")
    return .lit e

def parseOp (op : Json) : R (POp Rat GQ) := do
  let a ← asList op
  let name ← match a with
    | h :: _ => asStr h
    | [] => .error "empty op"
  let arg (k : Nat) : R Json := match a[k]? with
    | some v => .ok v
    | none => .error s!"op {name}: missing arg {k}"
  match name with
  | "pnew" => do
      let id ← asNat (← arg 1); let v ← asVal (← arg 2)
      let b ← asOpt (asListOf (asOpt asVal)) (← arg 3)
      return .pNew id v b
  | "pset" => do
      let id ← asNat (← arg 1); let v ← asVal (← arg 2)
      return .pSet id v
  | "pmin" => do
      let id ← asNat (← arg 1); let b ← asOpt asVal (← arg 2)
      return .pMin id b
  | "pmax" => do
      let id ← asNat (← arg 1); let b ← asOpt asVal (← arg 2)
      return .pMax id b
  | "dnew" => do
      let d ← asStr (← arg 1); let items ← asListOf (asPair asStr asNat) (← arg 2)
      return .dNew d items
  | "dset" => do
      let d ← asStr (← arg 1); let k ← asStr (← arg 2); let v ← asVal (← arg 3)
      return .dSet d k (.val v)
  | "dsetp" => do
      let d ← asStr (← arg 1); let k ← asStr (← arg 2); let id ← asNat (← arg 3)
      return .dSet d k (.par id)
  | "dremove" => do
      let d ← asStr (← arg 1); let k ← asStr (← arg 2)
      return .dRemove d k
  | "bsp" => do
      let cid ← asStr (← arg 1); let m1 ← asInt (← arg 2); let m2 ← asInt (← arg 3)
      let r ← asReflArg (← arg 4); let cv ← asConv (← arg 5); let l ← asLossArg (← arg 6)
      return .bs cid m1 m2 r cv l
  | "psp" => do
      let cid ← asStr (← arg 1); let m ← asInt (← arg 2)
      let phi ← asPhiArg (← arg 3); let l ← asLossArg (← arg 4)
      return .ps cid m phi l
  | "lossp" => do
      let cid ← asStr (← arg 1); let m ← asInt (← arg 2); let l ← asLossArg (← arg 3)
      return .loss cid m l
  | "freeze" => do
      let dst ← asStr (← arg 1); let src ← asStr (← arg 2)
      return .freeze dst src
  | _ => do
      let cop ← parseCircOp op
      return .circ (cop.map Sym.lit)

def circJ (tab : List ViewRow) (ν : Views Rat GQ) (σ : Store Rat) (cid : String) (c : PCirc Rat GQ) :
    R Json := do
  let ids := listJ natJ (PCirc.getAllParams c)
  if PCirc.fieldsValid ν σ c then
    match (Circ.syms c).findSome? (missingView tab σ) with
    | some msg => .error s!"circuit {cid}: {msg}"
    | none =>
      let U := (PCirc.resolve ν σ c).U GQ.I
      pure (Json.mkObj [("n", natJ c.n), ("U", matJ U), ("params", ids)])
  else
    pure (Json.mkObj [("n", natJ c.n), ("err", Json.str Err.compilation.toString), ("params", ids)])

/-- the circuit a call writes -/
def opTarget : POp Rat GQ → Option String
  | .circ op => some op.target
  | .bs cid .. | .ps cid .. | .loss cid .. => some cid
  | .freeze dst _ => some dst
  | _ => none

/-- parameters whose value differs between two stores -/
def changedIds (old new : Store Rat) : List Nat :=
  new.filterMap fun (id, p) =>
    match old.get? id with
    | some q => if decide (q.value = p.value) then none else some id
    | none => some id

/-- Observables of every live object.  The circuit entries are recomputed only for circuits that
the call wrote or that list a parameter whose value changed (`cache` holds the previous entries):
by the frame and `unlisted_param_no_influence` theorems the others are unchanged in the model. -/
def snapshot (tab : List ViewRow) (ν : Views Rat GQ) (w : World Rat GQ)
    (cache : List (String × Json)) (dirty : String → PCirc Rat GQ → Bool) : R (Json × List (String × Json)) := do
  let params := w.store.map fun (id, p) =>
    Json.arr #[natJ id, valJ p.value, optJ ratJ p.min, optJ ratJ p.max]
  let dicts := w.dicts.map fun (d, pd) =>
    Json.arr #[Json.str d, listJ (fun (kv : String × Nat) => Json.arr #[Json.str kv.1, natJ kv.2]) pd]
  let circs ← w.circs.mapM fun (cid, c) => do
    match (if dirty cid c then none else cache.find? (·.1 == cid)) with
    | some e => pure e
    | none => pure (cid, ← circJ tab ν w.store cid c)
  let cj := circs.map fun (cid, j) => Json.arr #[Json.str cid, j]
  return (Json.mkObj [("params", Json.arr params.toArray), ("dicts", Json.arr dicts.toArray),
    ("circs", Json.arr cj.toArray)], circs)

/-- request: `{"op":"c10","views":[{k,rt?,rt1?,e?}…],"prog":[…],"each":bool}` -/
def handleC10 (req : Json) : R Json := do
  let tab ← asListOf parseRow (← fld req "views")
  let prog ← asList (← fld req "prog")
  let each := (req.getObjValD "each") == Json.bool true
  let ν := mkViews tab
  let mut w : World Rat GQ := {}
  let mut outs : Array Json := #[]
  let mut snaps : Array Json := #[]
  let mut cache : List (String × Json) := []
  for op in prog do
    let pop ← parseOp op
    let old := w
    let mut accepted := false
    match World.step ν w pop with
    | none => outs := outs.push (Json.str "KeyError")   -- unknown object: the harness reports the same
    | some (w', r) =>
      w := w'
      accepted := r.isNone
      outs := outs.push (Json.str (match r with | none => "ok" | some e => e.toString))
    if each then
      let changed := changedIds old.store w.store
      let tgt := if accepted then opTarget pop else none
      let (j, cache') ← snapshot tab ν w cache fun cid c =>
        tgt == some cid || (PCirc.getAllParams c).any changed.contains
      cache := cache'
      snaps := snaps.push j
  let (final, _) ← snapshot tab ν w [] fun _ _ => true
  return Json.mkObj [("results", Json.arr outs), ("snaps", Json.arr snaps), ("final", final)]

end LW.Driver.C10
