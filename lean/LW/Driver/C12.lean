/-
  LW.Driver.C12 — protocol handler `qconv`: runs the model of `qiskit_converter` on an instruction
  list and reports the outcome (ok / exception class), the plan, the post-selection flags, the
  qubits with a final post-selection rule and the bookkeeping of the converted circuit.
  Request: {"op":"qconv","n":<qubits>,"aps":<bool>,"pinned":<bool, optional>,
            "instrs":[[name,[q,…]],…]}
-/
import LW.Driver.Common
import LW.Model.QConvert

open Lean

namespace LW.Driver

open LW.QC

def asInstr (j : Json) : R Instr := do
  let (nm, qs) ← asPair asStr (asListOf asNat) j
  return ⟨nm, qs⟩

def placedJ : Placed → Json
  | .single nm idx mode => Json.arr #[Json.str "single", Json.str nm, natJ idx, natJ mode]
  | .swap a b => Json.arr #[Json.str "swap", natJ a, natJ b]
  | .two cx ps t mode => Json.arr #[Json.str "two", Json.str (if cx then "cx" else "cz"), Json.bool ps, natJ t, natJ mode]
  | .three ccx t mode => Json.arr #[Json.str "three", Json.str (if ccx then "ccx" else "ccz"), natJ t, natJ mode]

def handleC12 (req : Json) : R Json := do
  let n ← asNat (← fld req "n")
  let aps ← asBool (← fld req "aps")
  let pinned ← match req.getObjVal? "pinned" with
    | .ok v => asBool v
    | .error _ => pure false
  let instrs ← asListOf asInstr (← fld req "instrs")
  match convert aps (!pinned) n instrs with
  | .error e => return Json.mkObj [("result", Json.str e.toString)]
  | .ok o =>
    return Json.mkObj [
      ("result", Json.str "ok"),
      ("plan", listJ placedJ o.plan),
      ("flags", listJ Json.bool o.flags),
      ("ps_qubits", match o.psQubits with | some l => listJ natJ l | none => Json.null),
      ("n_full", natJ o.circ.n),
      ("n", natJ (o.circ.n - o.circ.inHer.length)),
      ("in_heralds", dictJ o.circ.inHer),
      ("out_heralds", dictJ o.circ.outHer)]

end LW.Driver
