/-
  LW.Driver.C13 — protocol handler `gate`: builds one gate of the qubit library on the exact model
  (through the `Circ` model of `Circuit.add`/`herald`, over the tower that contains its constants)
  and reports the observables: outcome (ok / exception class), user modes, heralds, `U_full` and
  the heralded amplitudes from each requested input state to every output state with the same
  photon number.

  Numbers are printed as coefficient lists over the tower basis (`gens`, innermost generator
  first = least significant index bit), every coefficient an exact rational `p/q`.
-/
import LW.Driver.Common
import LW.Model.GateTowers

open Lean

namespace LW.Driver

open LW.Gates LW.QF

section
variable {K : Type} [Add K] [Mul K] [Neg K] [Zero K] [One K] [Coeffs K Rat]

def coeffJ (x : K) : Json := listJ ratJ (Coeffs.coeffs x)

@[nospecialize, noinline] def gateReport (i : K) (gens : List String) (g : Except Err (Circ K))
    (inputs : List (List Nat)) : Json :=
  match g with
  | .error e => Json.mkObj [("result", Json.str e.toString)]
  | .ok c =>
    let U := c.Ufull i
    let user := c.n - c.inHer.length
    let amps := inputs.map fun ins =>
      let p := ins.foldl (· + ·) 0
      let outs := fockStates user p
      Json.mkObj [
        ("in", listJ natJ ins),
        ("outs", listJ (fun o => Json.arr #[listJ natJ o,
            coeffJ (permAmp U.get c.n c.inHer c.outHer ins o), natJ (normSq ins o)]) outs)]
    Json.mkObj [
      ("result", Json.str "ok"),
      ("gens", listJ Json.str gens),
      ("n_full", natJ c.n),
      ("n", natJ user),
      ("in_heralds", dictJ c.inHer),
      ("out_heralds", dictJ c.outHer),
      ("U_full", listJ (fun r => listJ (fun k => coeffJ (U.get r k)) (List.range U.n)) (List.range U.n)),
      ("amps", Json.arr amps.toArray)]
end

def asQI (j : Json) : R T1 := do
  let g ← asGQ j
  return T1.ofQI ⟨g.re, g.im⟩

def optInt (req : Json) (k : String) (dflt : Int) : R Int :=
  match req.getObjVal? k with
  | .ok v => asInt v
  | .error _ => .ok dflt

@[noinline] def repT1 (g : Except Err (Circ T1)) (inputs : List (List Nat)) : Json :=
  gateReport c1.i ["i", "t8"] g inputs
@[noinline] def repCZ (g : Except Err (Circ TCZ)) (inputs : List (List Nat)) : Json :=
  gateReport cCZ.i ["sqrt2", "sqrt3"] g inputs
@[noinline] def repCZH (g : Except Err (Circ TCZH)) (inputs : List (List Nat)) : Json :=
  gateReport cCZH.i ["sqrt2", "q4", "w", "i"] g inputs
@[noinline] def repCCZ (g : Except Err (Circ TCCZ)) (inputs : List (List Nat)) : Json :=
  gateReport cCCZ.i ["sqrt2", "sqrt3", "sqrt7", "i"] g inputs

def handleSQ (name : String) (req : Json) : R (SQ T1) := do
  match name with
  | "I" => pure .I | "H" => pure .H | "X" => pure .X | "Y" => pure .Y | "Z" => pure .Z
  | "S" => pure .S | "Sadj" => pure .Sadj | "T" => pure .T | "Tadj" => pure .Tadj | "SX" => pure .SX
  | "P" => do pure (.P (← asQI (← fld req "p")))
  | "Rx" => do pure (.Rx (← asQI (← fld req "c")) (← asQI (← fld req "s")))
  | "Ry" => do pure (.Ry (← asQI (← fld req "c")) (← asQI (← fld req "s")))
  | "Rz" => do pure (.Rz (← asQI (← fld req "pm")) (← asQI (← fld req "pp")))
  | s => .error s!"unknown gate {s}"

def handleC13 (req : Json) : R Json := do
  let name ← asStr (← fld req "name")
  let inputs ← asListOf (asListOf asNat) (← fld req "inputs")
  match name with
  | "SWAP" => do
      let q1 ← asListOf asInt (← fld req "q1")
      let q2 ← asListOf asInt (← fld req "q2")
      pure (repT1 (SWAP (K := T1) q1 q2) inputs)
  | "CZ" => pure (repCZ (CZ cCZ) inputs)
  | "CNOT" => do pure (repCZ (CNOT cCZ (← optInt req "target" 1)) inputs)
  | "CZ_Heralded" => pure (repCZH (CZH cCZH) inputs)
  | "CNOT_Heralded" => do pure (repCZH (CNOTH cCZH (← optInt req "target" 1)) inputs)
  | "CCZ" => pure (repCCZ (CCZ cCCZ) inputs)
  | "CCNOT" => do pure (repCCZ (CCNOT cCCZ (← optInt req "target" 2)) inputs)
  | s => do
      let g ← handleSQ s req
      pure (repT1 (.ok (sqCirc c1 g)) inputs)

end LW.Driver
