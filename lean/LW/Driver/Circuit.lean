/-
  LW.Driver.Circuit — protocol handler `circ`: runs a construction program over a pool of
  named circuits on the exact model (K = GQ) and reports per-op outcomes and observables.
-/
import LW.Driver.Common
import LW.Model.Circuit
import LW.Model.Rewrite
import LW.Model.CircuitSpec
import LW.Model.Optic
import LW.Model.Heap
import LW.Model.Abs

open Lean

namespace LW.Driver

abbrev Pool := Heap GQ

def Pool.get (p : Pool) (k : String) : R (Circ GQ) :=
  match Heap.get? p k with
  | some x => .ok x
  | none => .error s!"unknown circuit {k}"

def asConv (j : Json) : R Conv := do
  match (← asStr j) with
  | "Rx" => .ok .rx
  | "H" => .ok .h
  | s => .error s!"bad convention {s}"

def asGQPair (j : Json) : R (GQ × GQ) := asPair asGQ asGQ j

def closedJ (c : Closed GQ) : Json :=
  Json.mkObj [("q", natJ c.q), ("hn", listJ natJ c.hn), ("l", natJ c.l), ("W", matJ c.W)]

def observe (c : Circ GQ) : Json :=
  let U := c.Ufull GQ.I
  Json.mkObj [
    ("n", natJ c.n),
    ("input_modes", natJ c.inputModes),
    ("in_heralds", dictJ c.inHer),
    ("out_heralds", dictJ c.outHer),
    ("internal", listJ natJ c.internal),
    ("loss_modes", natJ (lossCount c.spec)),
    ("spec_len", natJ c.spec.length),
    ("U_full", matJ U),
    ("U_spec", matJ (c.Uspec GQ.I)),
    ("abs_closed", closedJ (c.toOptic GQ.I).closed)]

/-- parse one op of the protocol into the model's `CircOp` -/
def parseCircOp (op : Json) : R (CircOp GQ) := do
  let a ← asList op
  let name ← match a with
    | h :: _ => asStr h
    | [] => .error "empty op"
  let arg (k : Nat) : R Json := match a[k]? with
    | some v => .ok v
    | none => .error s!"op {name}: missing arg {k}"
  match name with
  | "new" => do
      let id ← asStr (← arg 1); let n ← asNat (← arg 2)
      return .new id n
  | "unitary" => do
      let id ← asStr (← arg 1); let u ← asMat (← arg 2)
      return .unitary id u
  | "bs" => do
      let id ← asStr (← arg 1); let m1 ← asInt (← arg 2); let m2 ← asInt (← arg 3)
      let cc ← asGQ (← arg 4); let ss ← asGQ (← arg 5); let cv ← asConv (← arg 6)
      let l ← asOpt asGQPair (← arg 7); let rv ← asBool (← arg 8); let lv ← asBool (← arg 9)
      return .bs id m1 m2 (cc, ss) cv l rv lv
  | "ps" => do
      let id ← asStr (← arg 1); let m ← asInt (← arg 2); let p ← asGQ (← arg 3)
      let l ← asOpt asGQPair (← arg 4); let lv ← asBool (← arg 5)
      return .ps id m p l lv
  | "loss" => do
      let id ← asStr (← arg 1); let m ← asInt (← arg 2)
      let x ← asGQ (← arg 3); let y ← asGQ (← arg 4); let lv ← asBool (← arg 5)
      return .loss id m (x, y) lv
  | "barrier" => do
      let id ← asStr (← arg 1); let ms ← asOpt (asListOf asInt) (← arg 2)
      return .barrier id ms
  | "swaps" => do
      let id ← asStr (← arg 1); let sw ← asListOf (asPair asInt asInt) (← arg 2)
      return .swaps id sw
  | "herald" => do
      let id ← asStr (← arg 1); let n ← asNat (← arg 2); let i ← asInt (← arg 3); let o ← asInt (← arg 4)
      return .herald id n i o
  | "add" => do
      let id ← asStr (← arg 1); let sub ← asStr (← arg 2); let m ← asInt (← arg 3); let g ← asBool (← arg 4)
      return .add id sub m g
  | "plus" => do
      let id ← asStr (← arg 1); let x ← asStr (← arg 2); let y ← asStr (← arg 3)
      return .plus id x y
  | "copy" => do
      let id ← asStr (← arg 1); let x ← asStr (← arg 2)
      return .copy id x
  | "unpack" => do
      let id ← asStr (← arg 1)
      return .unpack id
  | "compress" => do
      let id ← asStr (← arg 1)
      return .compress id
  | "nonadj" => do
      let id ← asStr (← arg 1)
      return .nonadj id
  | s => .error s!"unknown circuit op {s}"

/-- apply one op through the model's `heapStep` -/
def circStep (pool : Pool) (op : Json) : R (Pool × String) := do
  let cop ← parseCircOp op
  match heapStep pool cop with
  | none => return (pool, "KeyError")  -- unknown object id: the harness reports the same
  | some (p', none) => return (p', "ok")
  | some (p', some e) => return (p', e.toString)

def observeAll (pool : Pool) (ids : List String) : R Json := do
  let obs ← ids.mapM fun id => do
    match Heap.get? pool id with
    | some x => pure (id, observe x)
    | none => pure (id, Json.null)
  return Json.mkObj obs

abbrev OPool := List (String × Option (Optic GQ))

def OPool.get (p : OPool) (k : String) : Option (Optic GQ) :=
  match p.find? (·.1 == k) with
  | some x => x.2
  | none => none

def OPool.set (p : OPool) (k : String) (c : Option (Optic GQ)) : OPool :=
  if p.any (·.1 == k) then p.map fun x => if x.1 == k then (k, c) else x else p ++ [(k, c)]

/-- the same op on the specification level (`Optic`); `none` = not expressible (e.g. after
`unpack_groups` on a circuit with ancillas) -/
def opticStep (pool : OPool) (op : Json) : R (OPool × String) := do
  let a ← asList op
  let name ← match a with
    | h :: _ => asStr h
    | [] => .error "empty op"
  let arg (k : Nat) : R Json := match a[k]? with
    | some v => .ok v
    | none => .error s!"op {name}: missing arg {k}"
  let upd (id : String) (r : Option (Except Err (Optic GQ))) : R (OPool × String) :=
    match r with
    | some (.ok c) => .ok (pool.set id (some c), "ok")
    | some (.error e) => .ok (pool, e.toString)
    | none => .ok (pool.set id none, "n/a")
  let call (id : String) (f : Circ GQ → Except Err (Circ GQ)) : R (OPool × String) :=
    upd id ((pool.get id).map fun x => x.applyCall GQ.I f)
  match name with
  | "new" => do
      let id ← asStr (← arg 1); let n ← asNat (← arg 2)
      return (pool.set id (some (Optic.new n)), "ok")
  | "unitary" => do
      let id ← asStr (← arg 1); let u ← asMat (← arg 2)
      return (pool.set id (some (Optic.ofUnitary u)), "ok")
  | "bs" => do
      let id ← asStr (← arg 1)
      let m1 ← asInt (← arg 2); let m2 ← asInt (← arg 3)
      let cc ← asGQ (← arg 4); let ss ← asGQ (← arg 5); let cv ← asConv (← arg 6)
      let l ← asOpt asGQPair (← arg 7)
      let rv ← asBool (← arg 8); let lv ← asBool (← arg 9)
      call id fun c => c.bs m1 m2 (cc, ss) cv l rv lv
  | "ps" => do
      let id ← asStr (← arg 1)
      let m ← asInt (← arg 2); let p ← asGQ (← arg 3)
      let l ← asOpt asGQPair (← arg 4); let lv ← asBool (← arg 5)
      call id fun c => c.ps m p l lv
  | "loss" => do
      let id ← asStr (← arg 1)
      let m ← asInt (← arg 2); let x ← asGQ (← arg 3); let y ← asGQ (← arg 4)
      let lv ← asBool (← arg 5)
      call id fun c => c.loss m (x, y) lv
  | "barrier" => do
      let id ← asStr (← arg 1)
      let ms ← asOpt (asListOf asInt) (← arg 2)
      call id fun c => c.barrier ms
  | "swaps" => do
      let id ← asStr (← arg 1)
      let sw ← asListOf (asPair asInt asInt) (← arg 2)
      call id fun c => c.modeSwaps sw
  | "herald" => do
      let id ← asStr (← arg 1)
      let n ← asNat (← arg 2); let i ← asInt (← arg 3); let o ← asInt (← arg 4)
      upd id ((pool.get id).map fun x => x.herald n i o)
  | "add" => do
      let id ← asStr (← arg 1)
      let sid ← asStr (← arg 2)
      let m ← asInt (← arg 3)
      upd id (do let x ← pool.get id; let s ← pool.get sid; pure (x.add s m))
  | "plus" => do
      let id ← asStr (← arg 1)
      let ia ← asStr (← arg 2); let ib ← asStr (← arg 3)
      upd id (do let x ← pool.get ia; let y ← pool.get ib; pure (x.plus y))
  | "copy" => do
      let id ← asStr (← arg 1); let src ← asStr (← arg 2)
      return (pool.set id (pool.get src), "ok")
  | "unpack" => do
      let id ← asStr (← arg 1)
      -- unpacking exposes ancilla positions, which the specification deliberately forgets
      match pool.get id with
      | some x => if x.a == 0 then return (pool, "ok") else return (pool.set id none, "n/a")
      | none => return (pool, "n/a")
  | "compress" | "nonadj" => return (pool, "ok")
  | s => .error s!"unknown circuit op {s}"

/-- request: `{"op":"circ","prog":[...],"observe":[ids],"each":bool}` -/
def handleCirc (req : Json) : R Json := do
  let prog ← asList (← fld req "prog")
  let ids ← asListOf asStr (← fld req "observe")
  let each := (req.getObjValD "each") == Json.bool true
  let mut pool : Pool := []
  let withOptic := (req.getObjValD "optic") == Json.bool true
  let mut opool : OPool := []
  let mut oouts : Array Json := #[]
  let mut outs : Array Json := #[]
  let mut snaps : Array Json := #[]
  for op in prog do
    let (p', r) ← circStep pool op
    pool := p'
    outs := outs.push (Json.str r)
    if withOptic then
      let (op', r') ← opticStep opool op
      opool := op'
      oouts := oouts.push (Json.str r')
    if each then snaps := snaps.push (← observeAll pool ids)
  let final ← observeAll pool ids
  let closed := Json.mkObj (ids.map fun id =>
    (id, match opool.get id with
         | some x => closedJ x.closed
         | none => Json.null))
  return Json.mkObj [("results", Json.arr outs), ("final", final), ("snaps", Json.arr snaps),
    ("optic_results", Json.arr oouts), ("optic_closed", closed)]

end LW.Driver
