/-
  LW.Driver.Sampling — protocol handler `samp`: detector and sampling pipelines on explicit
  distributions and random tapes (C07).
-/
import LW.Driver.Fock
import LW.Model.Sampling

open Lean

namespace LW.Driver

def asDet (j : Json) : R Det := do
  let eta ← asRat (← fld j "eta")
  let pd ← asRat (← fld j "pdark")
  let pnr ← asBool (← fld j "pnr")
  return ⟨eta, pd, pnr⟩

def asDist (j : Json) : R (List (FState × Rat)) :=
  asListOf (asPair (asListOf asNat) asRat) j

def asDict (j : Json) : R Dict := asListOf (asPair asNat asNat) j

def handleSamp (req : Json) : R Json := do
  let what ← asStr (← fld req "what")
  match what with
  | "det" => do
      let d ← asDet (← fld req "det")
      let s ← asListOf asNat (← fld req "state")
      let tape ← asListOf asRat (← fld req "tape")
      let (o, rest) := detectorSample d s tape
      return Json.mkObj [("state", stateJ o), ("used", natJ (tape.length - rest.length))]
  | "kernel" => do
      let d ← asDet (← fld req "det")
      let s ← asListOf asNat (← fld req "state")
      return pdistJ (detectorKernel d s)
  | "n_inputs" => do
      let dist ← asDist (← fld req "dist")
      let d ← asDet (← fld req "det")
      let oh ← asDict (← fld req "outher")
      let rules ← asRules (← fld req "rules")
      let md ← asNat (← fld req "min")
      let us ← asListOf asRat (← fld req "us")
      let tape ← asListOf asRat (← fld req "tape")
      return listJ stateJ (sampleNInputs dist d oh rules md us tape)
  | "outputs_dist" => do
      let dist ← asDist (← fld req "dist")
      let pnr ← asBool (← fld req "pnr")
      let oh ← asDict (← fld req "outher")
      let rules ← asRules (← fld req "rules")
      let md ← asNat (← fld req "min")
      return pdistJ (outputsDist dist pnr oh rules md)
  | "n_outputs" => do
      let cond ← asDist (← fld req "cond")
      let us ← asListOf asRat (← fld req "us")
      return listJ stateJ (sampleNOutputs cond us)
  | "one" => do
      let dist ← asDist (← fld req "dist")
      let u ← asRat (← fld req "u")
      return stateJ (sampleOne dist u)
  | s => .error s!"unknown samp request {s}"

end LW.Driver
