/-
  LW.Driver.C16 — protocol handler `ptomo` (process tomography and gate fidelity, C16), K = Q2.

  request kinds:
    "unitary"  {n, prog}                   → V (qubit-level matrix of the program), reference Choi
                                             matrices (repaired and pinned convention)
    "li_born"  {n, prog, order}            → LI on the exact Born tables of V: choi, comparison
                                             with the reference, residual of the linear system
    "li_data"  {n, order, results}         → LI on arbitrary callback data
    "gf_born"  {n, prog, order, target}    → gate fidelity on Born tables + the closed formula
    "gf_data"  {n, order, results, target} → gate fidelity on arbitrary callback data
    "mle_born" {n, prog, order}            → n_vec from the Born tables, p_vec of the reference
                                             Choi matrix (repaired / pinned), consistency flags
    "tp_proj"  {n, A}                      → `_tp_proj(A)` (d = 2ⁿ, A of size d²), its partial trace,
                                             the partial trace of A
    "cp_proj"  {n, vals, vecs}             → A = vecs·diag(vals)·vecs†, `_cp_proj` of it computed
                                             from this eigen-decomposition (rational `vals`), the
                                             part removed, whether `vecs` is exactly unitary
    "pgdb_step" {n, choi, proj, alpha}     → `choi + alpha·(proj − choi)` and its partial trace
-/
import LW.Driver.C15
import LW.Model.ProcTomo
import LW.Model.MLEProj

open Lean

namespace LW.Driver

open LW.Tomo

def asIns (j : Json) : R Ins := do
  let s ← asStr j
  (s.splitOn ",").mapM fun t => match InLabel.parse? t with
    | some p => .ok p
    | none => .error s!"bad input label {s}"

/-- matrix of a qubit-level program: column `c` is the state prepared from basis state `c` -/
def progMatrix (n : Nat) (gs : List (Gate Q2)) : M Q2 :=
  let cols : List (Array Q2) := (List.range (2 ^ n)).map fun c =>
    let xs : List (Gate Q2) := (List.range n).filterMap fun q =>
      if bitOf n q c = 1 then some (.u1 q (mat2 0 1 1 0)) else none
    prepare n (xs ++ gs)
  M.ofFn (2 ^ n) fun r c => (cols.getD c #[]).getD r 0

/-- Born tables of the process experiments, input-major / `order`-minor -/
def procTables (n : Nat) (V : M Q2) (inputs : List Ins) (order : List Meas) : List (Res Q2) :=
  inputs.flatMap fun ins =>
    let rhoOut := channel V (rhoKron Q2.I ins)
    order.map fun s => bornTable Q2.I Q2.invSqrt2 n rhoOut s

def q2ListJ (l : List Q2) : Json := listJ q2J l

def handlePtomo (req : Json) : R Json := do
  let kind ← asStr (← fld req "kind")
  let n ← asNat (← fld req "n")
  if n = 0 ∨ n > 2 then .error "n out of range"
  let i := Q2.I
  let d : Q2 := twoPow n
  let getOrder : R (List Meas) := do
    let order ← asListOf asMeas (← fld req "order")
    if !isPermOf order (requiredSet n) then .error "order is not a permutation of the required settings"
    pure order
  let getV : R (M Q2) := do
    let gs ← asListOf asGate (← fld req "prog")
    pure (progMatrix n gs)
  /- reference Choi matrix of the normalised process (V may be a scaled unitary: post-selected /
     heralded gates succeed with probability < 1) -/
  let refChoi (V : M Q2) : M Q2 :=
    scale (d * (trace (V.dagger.mul V))⁻¹) (choiFromUnitary V)
  match kind with
  | "unitary" =>
      let V ← getV
      return Json.mkObj [("V", matQ2J V), ("vdv", q2J (trace (V.dagger.mul V))),
        ("choi", matQ2J (choiFromUnitary V)), ("choi_pinned", matQ2J (choiFromUnitaryPinned V))]
  | "li_born" =>
      let V ← getV
      let order ← getOrder
      let tables := procTables n V (combineAll tomoInputsLI n) order
      match liProcess i n order tables with
      | .error e => return errJ e
      | .ok choi =>
          -- residual of the linear system the code solves with pinv
          let lams := match (do let f ← runExperiments n (combineAll tomoInputsLI n) order tables
                                expectationValues f) with
            | .ok l => l
            | .error _ => []
          let check := (req.getObjValD "check_system") != Json.bool false
          let solves := !check || (lams.all fun e => liApply i choi e.1.1 e.1.2 == e.2)
          return Json.mkObj [("choi", matQ2J choi), ("choi_is_ref", .bool (choi.beq (refChoi V))),
            ("solves_system", .bool (solves && !lams.isEmpty)), ("ref", matQ2J (refChoi V))]
  | "li_data" =>
      let order ← getOrder
      let rs ← asListOf asRes (← fld req "results")
      match liProcess i n order rs with
      | .error e => return errJ e
      | .ok choi => return Json.mkObj [("choi", matQ2J choi)]
  | "gf_born" =>
      let V ← getV
      let order ← getOrder
      let target ← asMatQ2 (← fld req "target")
      let tables := procTables n V (combineAll tomoInputsLI n) order
      match gateFidelity i n order tables target with
      | .error e => return errJ e
      | .ok f =>
          let t := trace (target.dagger.mul V)
          let formula := (t * conj t * (d * (trace (V.dagger.mul V))⁻¹) + d) * (d * (d + 1))⁻¹
          return Json.mkObj [("fidelity", q2J f), ("formula", q2J formula),
            ("matches_formula", .bool (f == formula))]
  | "gf_data" =>
      let order ← getOrder
      let rs ← asListOf asRes (← fld req "results")
      let target ← asMatQ2 (← fld req "target")
      match gateFidelity i n order rs target with
      | .error e => return errJ e
      | .ok f => return Json.mkObj [("fidelity", q2J f)]
  | "mle_born" =>
      let V ← getV
      let order ← getOrder
      let tables := procTables n V (combineAll tomoInputsMLE n) order
      match (do let data ← mleData n order tables; nVec n data) with
      | .error e => return errJ e
      | .ok nv =>
          let ref := refChoi V
          let len : Q2 := lsum (nv.map fun _ => (1 : Q2)) * half   -- len(data) = len(n_vec)/2
          let c4 : Q2 := twoPow (2 * n)
          let prop (pv : List Q2) : Bool :=
            pv.length == nv.length && (pv.zip nv).all fun pn => pn.1 * c4 == pn.2 * len
          return Json.mkObj [("n_vec_len", natJ nv.length),
            ("consistent", .bool (prop (pVec i n ref))),
            ("consistent_pinned", if (req.getObjValD "pinned") == Json.bool true
                                  then .bool (prop (pVecPinned i n ref)) else Json.null)]
  | "tp_proj" =>
      let A ← asMatQ2 (← fld req "A")
      let dd := 2 ^ n
      if A.n ≠ dd * dd then .error "A has the wrong size"
      let out := tpProj dd A
      return Json.mkObj [("out", matQ2J out), ("ptrace_out", matQ2J (partialTrace dd out)),
        ("ptrace_in", matQ2J (partialTrace dd A))]
  | "cp_proj" =>
      let vals ← asListOf asQ2 (← fld req "vals")
      let V ← asMatQ2 (← fld req "vecs")
      if V.n ≠ vals.length then .error "vals / vecs sizes differ"
      if !(vals.all fun v => v.b == 0 && v.a.im == 0) then .error "eigenvalues must be rational"
      let clip (x : Q2) : Q2 := if x.a.re > 0 then x else 0
      let clipNeg (x : Q2) : Q2 := if x.a.re < 0 then x else 0
      return Json.mkObj [("A", matQ2J (cpProjFrom id vals V)), ("P", matQ2J (cpProjFrom clip vals V)),
        ("N", matQ2J (cpProjFrom clipNeg vals V)),
        ("unitary", .bool ((V.dagger.mul V).beq (M.one V.n)))]
  | "pgdb_step" =>
      let C ← asMatQ2 (← fld req "choi")
      let P ← asMatQ2 (← fld req "proj")
      let al ← asQ2 (← fld req "alpha")
      let dd := 2 ^ n
      if C.n ≠ dd * dd ∨ P.n ≠ dd * dd then .error "wrong size"
      let out := pgdbStep (fun _ => P) (fun X => X) 0 al C
      return Json.mkObj [("out", matQ2J out), ("ptrace_out", matQ2J (partialTrace dd out))]
  | s => .error s!"unknown ptomo kind {s}"

end LW.Driver
