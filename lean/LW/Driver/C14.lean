/-
  LW.Driver.C14 — protocol handler `reck` (C14): the Reck decomposition / `Reck.map` on the exact
  scalars `Q2 = GQ[√2]`, and the error model on rational tapes.

  request `{"op":"reck","cmd":…}` with
    cmd = "synth"  : {n, cells:[[c,s,p]…] (loop order), ends:[gq…]}            → {"U": gq matrix}
                     the unitary (in circuit coordinates) whose Reck settings are the given ones
    cmd = "map"    : {n, U, in_heralds, out_heralds, em:{bs:"half"|[c,s], loss:null|[a,b],
                      off:gq, refl_ok, loss_ok}}                               → see `mapJ`
    cmd = "params" : {two_pi, dists:{bs,loss,off}, ints:[…], tapes:[[k,dist,[…]]…],
                      prior:{bs:[…],loss:[…],off:[…]}, angles:{cells:[[th,ph]…], ends:[…]}}
    cmd = "dist"   : {dist, tape:[…], draws:k}       constructor validation + k values
-/
import LW.Driver.Common
import LW.Model.Reck
import LW.Model.Q2
import LW.Model.ReckExact
import LW.Model.ReckNoise

open Lean

namespace LW.Driver.C14
open LW.Driver

open LW.Reck

def q2J (x : Q2) : Json := .str x.toStr
def matQ2J (A : M Q2) : Json :=
  listJ (fun i => listJ (fun j => q2J (A.get i j)) (List.range A.n)) (List.range A.n)

def liftMat (A : M GQ) : M Q2 := M.ofFn A.n fun r k => Q2.ofGQ (A.get r k)

/-- validity of the settings used at one step (hypotheses `CellOk` / `Nulls` of the theorems) -/
def cellValid (u0 u1 : Q2) (x : Cell Q2) : Bool :=
  conj x.c == x.c && conj x.s == x.s && x.c * x.c + x.s * x.s == 1 &&
  x.w == x.c + Q2.I * x.s && x.p * conj x.p == 1 &&
  x.c * u1 == conj x.p * x.s * u0

/-- re-run the nulling loop and check every cell that was used -/
def traceValid (N : Num Q2) (U : M Q2) : Bool :=
  ((steps U.n).foldl (fun (acc : M Q2 × Bool) aj =>
      let V := acc.1
      let loc := V.n - 1 - aj.1
      let u0 := V.get loc aj.2
      let u1 := V.get loc (aj.2 + 1)
      let x := stepCell N Q2.I V aj.1 aj.2
      let ok := if N.small u0 then u0 == 0 else cellValid u0 u1 x
      (nullStep Q2.I V aj.2 x, acc.2 && ok)) (U, true)).2

def primJ : Prim Q2 → Json
  | .bs m1 m2 c s cv => .arr #[.str "bs", natJ m1, natJ m2, q2J c, q2J s,
      .str (match cv with | .rx => "Rx" | .h => "H")]
  | .ps m p => .arr #[.str "ps", natJ m, q2J p]
  | .loss m a b => .arr #[.str "loss", natJ m, q2J a, q2J b]
  | .barrier ms => .arr #[.str "barrier", listJ natJ ms]
  | .swaps σ => .arr #[.str "swaps", dictJ σ]
  | .unitary m _ => .arr #[.str "unitary", natJ m]

def compJ : Comp Q2 → Json
  | .prim p => primJ p
  | .group cs .. => .arr #[.str "group", listJ primJ cs]

def asRatPair (j : Json) : R (Rat × Rat) := asPair asRat asRat j

def parseEM (j : Json) : R (EM Q2) := do
  let bsJ ← fld j "bs"
  let bs : Q2 × Q2 ← match bsJ with
    | .str "half" => pure (Q2.invSqrt2, Q2.invSqrt2)
    | _ => do let (c, s) ← asRatPair bsJ; pure (Q2.ofRat c, Q2.ofRat s)
  let loss ← asOpt asRatPair (← fld j "loss")
  let off ← asGQ (← fld j "off")
  let rok ← asBool (← fld j "refl_ok")
  let lok ← asBool (← fld j "loss_ok")
  return { bs1 := fun _ _ => bs, bs2 := fun _ _ => bs,
           loss := fun _ _ => loss.map fun (a, b) => (Q2.ofRat a, Q2.ofRat b),
           offTheta := fun _ _ => Q2.ofGQ off, offPhi := fun _ _ => Q2.ofGQ off,
           offEnd := fun _ => Q2.ofGQ off,
           refl1Ok := fun _ _ => rok, refl2Ok := fun _ _ => rok, lossOk := fun _ _ => lok }

def asDict (j : Json) : R Dict := asListOf (asPair asNat asNat) j

def handleSynth (req : Json) : R Json := do
  let n ← asNat (← fld req "n")
  let cellsJ ← asList (← fld req "cells")
  let ends ← asListOf asGQ (← fld req "ends")
  let cells ← cellsJ.mapM fun c => do
    let l ← asList c
    match l with
    | [c, s, p] => do
        let c ← asRat c; let s ← asRat s; let p ← asGQ p
        pure (⟨⟨c, 0⟩, ⟨s, 0⟩, ⟨c, s⟩, p⟩ : Cell GQ)
    | _ => .error "cell: expected [c, s, p]"
  let st := steps n
  if st.length != cells.length then .error s!"synth: {cells.length} cells for {st.length} steps"
  let V := synth GQ.I n (st.zip cells) ends
  return Json.mkObj [("U", matJ (flip V))]

def handleMap (req : Json) : R Json := do
  let n ← asNat (← fld req "n")
  let U ← asMat (← fld req "U")
  let inH ← asDict (← fld req "in_heralds")
  let outH ← asDict (← fld req "out_heralds")
  let em ← parseEM (← fld req "em")
  let src : Src Q2 := ⟨n, liftMat U, inH, outH⟩
  let N := Reck.Exact.exactNum
  let V := flip src.U
  let exactCells := traceValid N V
  let fin := (decompLoop N Q2.I V).U
  let exactEnds := (List.range V.n).all fun k =>
    let e := N.ang (fin.get k k); e * conj e == 1
  let decompJ : Json := match reckDecomposition N Q2.I V with
    | .ok (pm, ends) => Json.mkObj [
        ("cells", listJ (fun (e : Key × Cell Q2) =>
            .arr #[natJ e.1.1, natJ e.1.2, q2J e.2.c, q2J e.2.s, q2J e.2.w, q2J e.2.p]) pm),
        ("ends", listJ q2J ends)]
    | .error e => .str e.toString
  match map N em Q2.I src with
  | .error e =>
      return Json.mkObj [("result", .str e.toString), ("exact", .bool (exactCells && exactEnds)),
        ("decomp", decompJ)]
  | .ok c =>
      let Uf := c.Ufull Q2.I
      return Json.mkObj [
        ("result", .str "ok"),
        ("exact", .bool (exactCells && exactEnds)),
        ("decomp", decompJ),
        ("n", natJ c.n),
        ("input_modes", natJ c.inputModes),
        ("in_heralds", dictJ c.inHer),
        ("out_heralds", dictJ c.outHer),
        ("spec", listJ compJ c.spec),
        ("U_full", matQ2J Uf),
        ("U", matQ2J (Uf.lead c.n)),
        ("U_equal_input", .bool ((Uf.lead c.n).beq src.U))]

/-! ### error model on tapes -/

def asDist (j : Json) : R (Except Err Dist) := do
  let kind ← asStr (← fld j "kind")
  match kind with
  | "constant" => do let v ← asRat (← fld j "v"); pure (.ok (.constant v))
  | "gaussian" => do
      let c ← asRat (← fld j "c"); let d ← asRat (← fld j "d")
      let lo ← asOpt asRat (← fld j "lo"); let hi ← asOpt asRat (← fld j "hi")
      pure (mkGaussian c d lo hi)
  | "tophat" => do
      let lo ← asRat (← fld j "lo"); let hi ← asRat (← fld j "hi")
      pure (mkTopHat lo hi)
  | s => .error s!"unknown distribution {s}"

def asDistOk (j : Json) : R Dist := do
  match (← asDist j) with
  | .ok d => pure d
  | .error e => .error s!"distribution rejected: {e}"

def drawK (d : Dist) : Nat → Tape → Option (List Rat)
  | 0, _ => some []
  | k + 1, t => do
    let (v, t) ← d.value t
    let r ← drawK d k t
    some (v :: r)

def handleDist (req : Json) : R Json := do
  let tape ← asListOf asRat (← fld req "tape")
  let k ← asNat (← fld req "draws")
  match (← asDist (← fld req "dist")) with
  | .error e => return Json.mkObj [("result", .str e.toString)]
  | .ok d =>
    match drawK d k tape with
    | none => return Json.mkObj [("result", .str "exhausted")]
    | some vs => return Json.mkObj [("result", .str "ok"), ("values", listJ ratJ vs),
        ("has_seed", .bool d.hasSeed)]

def handleParams (req : Json) : R Json := do
  let twoPi ← asRat (← fld req "two_pi")
  let ds ← fld req "dists"
  let dBs ← asDistOk (← fld ds "bs")
  let dLoss ← asDistOk (← fld ds "loss")
  let dOff ← asDistOk (← fld ds "off")
  let ints ← asListOf asNat (← fld req "ints")
  let tapesJ ← asList (← fld req "tapes")
  let tapes ← tapesJ.mapM fun t => do
    let l ← asList t
    match l with
    | [k, d, vs] => do pure ((← asNat k), (← asDistOk d), (← asListOf asRat vs))
    | _ => .error "tape: expected [k, dist, values]"
  let prior ← fld req "prior"
  let pBs ← asListOf asRat (← fld prior "bs")
  let pLoss ← asListOf asRat (← fld prior "loss")
  let pOff ← asListOf asRat (← fld prior "off")
  let an ← fld req "angles"
  let cells ← asListOf asRatPair (← fld an "cells")
  let ends ← asListOf asRat (← fld an "ends")
  -- `default_rng(k)` specialised to the variates a distribution draws
  let gen (k : Nat) (d : Dist) : Tape :=
    match tapes.find? (fun t => t.1 == k && t.2.1 == d) with
    | some t => t.2.2
    | none => []
  let e0 : EMS := ⟨dBs, dLoss, dOff, pBs, pLoss, pOff⟩
  let seeded := setRandomSeed gen ints e0
  let subSeeds : List Json :=
    let i1 := if dBs.hasSeed then ints.tail else ints
    let i2 := if dLoss.hasSeed then i1.tail else i1
    [if dBs.hasSeed then natJ (ints.headD 0) else .null,
     if dLoss.hasSeed then natJ (i1.headD 0) else .null,
     if dOff.hasSeed then natJ (i2.headD 0) else .null]
  match program twoPi seeded ⟨cells, ends⟩ with
  | none => return Json.mkObj [("result", .str "exhausted"), ("sub_seeds", .arr subSeeds.toArray)]
  | some (P, e') =>
    return Json.mkObj [
      ("result", .str "ok"),
      ("sub_seeds", .arr subSeeds.toArray),
      ("cells", listJ (fun (c : CellParams) =>
          .arr #[ratJ c.phi, ratJ c.r1, ratJ c.theta, ratJ c.r2, ratJ c.loss]) P.cells),
      ("ends", listJ ratJ P.ends),
      ("left", Json.mkObj [("bs", natJ e'.tBs.length), ("loss", natJ e'.tLoss.length),
                           ("off", natJ e'.tOff.length)])]

def handleC14 (req : Json) : R Json := do
  let cmd ← asStr (← fld req "cmd")
  match cmd with
  | "synth" => handleSynth req
  | "map" => handleMap req
  | "params" => handleParams req
  | "dist" => handleDist req
  | s => .error s!"reck: unknown cmd {s}"

end LW.Driver.C14
