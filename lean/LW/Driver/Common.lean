/-
  LW.Driver.Common — JSON helpers for the line protocol (one JSON object per line in,
  one JSON value per line out).  Imports `Lean.Data.Json` only (no Mathlib), so the driver can be
  a compiled `lean_exe`.
-/
import Lean.Data.Json
import LW.Model.Scalar
import LW.Model.Mat

open Lean

namespace LW.Driver

abbrev R := Except String

def fld (j : Json) (k : String) : R Json :=
  match j.getObjVal? k with
  | .ok v => .ok v
  | .error _ => .error s!"missing field {k}"

def asArr (j : Json) : R (Array Json) :=
  match j with
  | .arr a => .ok a
  | _ => .error s!"expected array, got {j.compress}"

def asList (j : Json) : R (List Json) := Array.toList <$> asArr j

def asStr (j : Json) : R String :=
  match j with
  | .str s => .ok s
  | _ => .error s!"expected string, got {j.compress}"

def asInt (j : Json) : R Int :=
  match j.getInt? with
  | .ok v => .ok v
  | .error _ => .error s!"expected int, got {j.compress}"

def asNat (j : Json) : R Nat := do
  let i ← asInt j
  if i < 0 then .error s!"expected nat, got {i}" else .ok i.toNat

def asBool (j : Json) : R Bool :=
  match j with
  | .bool b => .ok b
  | _ => .error s!"expected bool, got {j.compress}"

def asRat (j : Json) : R Rat :=
  match j with
  | .str s => match parseRat? s with
    | some r => .ok r
    | none => .error s!"bad rational {s}"
  | _ => match j.getInt? with
    | .ok v => .ok (v : Rat)
    | .error _ => .error s!"expected rational, got {j.compress}"

def asGQ (j : Json) : R GQ :=
  match j with
  | .str s => match parseGQ? s with
    | some r => .ok r
    | none => .error s!"bad GQ {s}"
  | _ => match j.getInt? with
    | .ok v => .ok ⟨(v : Rat), 0⟩
    | .error _ => .error s!"expected GQ, got {j.compress}"

def asOpt (f : Json → R α) (j : Json) : R (Option α) :=
  match j with
  | .null => .ok none
  | _ => some <$> f j

def asListOf (f : Json → R α) (j : Json) : R (List α) := do
  let l ← asList j
  l.mapM f

def asPair (f : Json → R α) (g : Json → R β) (j : Json) : R (α × β) := do
  let l ← asList j
  match l with
  | [a, b] => return (← f a, ← g b)
  | _ => .error s!"expected pair, got {j.compress}"

def asMat (j : Json) : R (M GQ) := do
  let rows ← asListOf (asListOf asGQ) j
  let n := rows.length
  let arr := rows.toArray.map List.toArray
  return ⟨n, arr⟩

def ratJ (r : Rat) : Json := .str (GQ.ratToString r)
def gqJ (g : GQ) : Json := .str g.toStr
def natJ (n : Nat) : Json := .num (JsonNumber.fromNat n)
def intJ (n : Int) : Json := .num (JsonNumber.fromInt n)
def listJ (f : α → Json) (l : List α) : Json := .arr (l.map f).toArray
def matJ (A : M GQ) : Json :=
  listJ (fun i => listJ (fun j => gqJ (A.get i j)) (List.range A.n)) (List.range A.n)
def pairJ (f : α → Json) (g : β → Json) (p : α × β) : Json := .arr #[f p.1, g p.2]
def dictJ (d : List (Nat × Nat)) : Json := listJ (pairJ natJ natJ) d

end LW.Driver
