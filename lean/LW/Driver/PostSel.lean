/-
  LW.Driver.PostSel — protocol handler `postsel` (the PostSelection object, C05 / C07).

  request  {"multi": bool, "ops": [["add", ARG, ARG] | ["multi", bool]], "states": [[nat]]}
           ARG = VAL | [VAL], VAL = int | {"f": int} (a float with that integral value) | "frac"
  response {"outcomes": ["ok" | "ValueError"], "rules": [[[modes],[counts]]], "modes": [nat],
            "multi": bool, "validate": ["true" | "false" | "IndexError"]}
-/
import LW.Driver.Common
import LW.Model.PostSel

open Lean

namespace LW.Driver

open LW.PostSel

def asPVal (j : Json) : R PVal :=
  match j with
  | .str "frac" => .ok .frac
  | .obj _ => do let i ← asInt (← fld j "f"); pure (.intFloat i)
  | _ => do let i ← asInt j; pure (.int i)

def asPArg (j : Json) : R PArg :=
  match j with
  | .arr a => do let vs ← a.toList.mapM asPVal; pure (.many vs)
  | _ => do let v ← asPVal j; pure (.one v)

def handlePostSel (req : Json) : R Json := do
  let multi ← match (← fld req "multi") with
    | .bool b => pure b
    | j => .error s!"expected bool, got {j.compress}"
  let ops ← asList (← fld req "ops")
  let mut p := PS.new multi
  let mut outcomes : Array Json := #[]
  for o in ops do
    let parts ← asList o
    match parts with
    | [.str "add", m, n] =>
        let m ← asPArg m
        let n ← asPArg n
        match p.add m n with
        | .ok q => p := q; outcomes := outcomes.push (.str "ok")
        | .error _ => outcomes := outcomes.push (.str "ValueError")
    | [.str "multi", .bool b] => p := p.setMulti b; outcomes := outcomes.push (.str "ok")
    | _ => .error s!"bad postsel op {o.compress}"
  let states ← asList (← fld req "states")
  let mut vals : Array Json := #[]
  for st in states do
    let s ← (← asList st).mapM asNat
    vals := vals.push (.str (match p.validate s with
      | .ok true => "true" | .ok false => "false" | .error _ => "IndexError"))
  let natsJ (l : List Nat) : Json := .arr (l.map fun (k : Nat) => Json.num k).toArray
  return Json.mkObj [("outcomes", .arr outcomes),
    ("rules", .arr (p.rules.map fun r => Json.arr #[natsJ r.modes, natsJ r.counts]).toArray),
    ("modes", natsJ p.modes), ("multi", .bool p.multi), ("validate", .arr vals)]

end LW.Driver
