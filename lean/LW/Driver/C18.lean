/-
  LW.Driver.C18 — protocol handler `sv`: state values, heralds, dB conversion, seeds/permutations
  on the exact model LW.Model.StateVal.

  request  {"op":"sv","kind":"state"|"astate"|"heralds"|"db"|"seed"|"perm", …}
  Model outcomes are `{"ok": value}` or `{"err": "<exception class>"}`; `Err.other` prints as
  "Exception" (IndexError / AnnotatedStateError — the harness knows which from the operation).
-/
import LW.Driver.Common
import LW.Model.StateVal

open Lean

namespace LW.Driver

open LW.SV

def exJ {α : Type} (f : α → Json) : Except Err α → Json
  | .ok v => Json.mkObj [("ok", f v)]
  | .error e => Json.mkObj [("err", Json.str e.toString)]

def intsJ (l : List Int) : Json := listJ intJ l
def rowsJ (l : List (List Int)) : Json := listJ intsJ l
def asInts (j : Json) : R (List Int) := asListOf asInt j
def asRows (j : Json) : R (List (List Int)) := asListOf asInts j

def qArgs (q : Json) : R (String × List Json) := do
  match (← asList q) with
  | h :: t => return (← asStr h, t)
  | [] => .error "empty query"

def argAt (name : String) (a : List Json) (k : Nat) : R Json :=
  match a[k]? with
  | some v => .ok v
  | none => .error s!"query {name}: missing argument {k}"

def asSlice (name : String) (a : List Json) : R Slice := do
  return ⟨← asOpt asInt (← argAt name a 0), ← asOpt asInt (← argAt name a 1), ← asOpt asInt (← argAt name a 2)⟩

def asClientOp (j : Json) : R ClientOp := do
  let (name, a) ← qArgs j
  match name with
  | "readS" => return .readS
  | "getRow" => return .getRow (← asInt (← argAt name a 0))
  | "setS" => return .setS
  | "setNModes" => return .setNModes
  | "setItem" => return .setItem
  | "slice" => return .slice (← asSlice name a)
  | "append" => return .append (← asNat (← argAt name a 0)) (← asInt (← argAt name a 1))
  | s => .error s!"unknown client op {s}"

def stateQuery (st : State) (q : Json) : R Json := do
  let (name, a) ← qArgs q
  match name with
  | "n_photons" => return exJ intJ (.ok st.nPhotons)
  | "n_modes" => return exJ natJ (.ok st.nModes)
  | "len" => return exJ natJ (.ok st.len)
  | "s" => return exJ intsJ (.ok st.getS)
  | "iter" => return exJ intsJ (.ok st.iter)
  | "str" => return exJ Json.str (.ok st.str)
  | "getitem" => return exJ intJ (st.getItem (← asInt (← argAt name a 0)))
  | "slice" => return exJ (fun (x : State) => intsJ x.s) (st.slice (← asSlice name a))
  | "add" => return exJ (fun (x : State) => intsJ x.s) (.ok (st.add ⟨← asInts (← argAt name a 0)⟩))
  | "merge" => return exJ (fun (x : State) => intsJ x.s) (st.merge ⟨← asInts (← argAt name a 0)⟩)
  | "eq" => return exJ Json.bool (.ok (st.eq ⟨← asInts (← argAt name a 0)⟩))
  | "str_eq" =>
      let o : State := ⟨← asInts (← argAt name a 0)⟩
      return exJ Json.bool (.ok (st.str == o.str))
  | "set_s" => return exJ (fun (x : State) => intsJ x.s) st.setS
  | "set_n_modes" => return exJ (fun (x : State) => intsJ x.s) st.setNModes
  | "set_item" => return exJ (fun (x : State) => intsJ x.s) st.setItem
  | "validate" => return exJ (fun _ => Json.null) st.validate
  | "client" =>
      let ops ← asListOf asClientOp (← argAt name a 0)
      let w := clientRun false ⟨[st.s], []⟩ ops
      return exJ intsJ (.ok (w.rows.getD 0 []))
  | s => .error s!"unknown state query {s}"

def astateQuery (st : AState) (q : Json) : R Json := do
  let (name, a) ← qArgs q
  let other (k : Nat) : R AState := do return AState.new (← asRows (← argAt name a k))
  match name with
  | "n_photons" => return exJ natJ (.ok st.nPhotons)
  | "n_modes" => return exJ natJ (.ok st.nModes)
  | "len" => return exJ natJ (.ok st.len)
  | "s" => return exJ rowsJ (.ok st.getS)
  | "iter" => return exJ rowsJ (.ok st.iter)
  | "str" => return exJ Json.str (.ok st.str)
  | "getitem" => return exJ intsJ (st.getItem (← asInt (← argAt name a 0)))
  | "slice" => return exJ (fun (x : AState) => rowsJ x.s) (st.slice (← asSlice name a))
  | "add" => return exJ (fun (x : AState) => rowsJ x.s) (.ok (st.add (← other 0)))
  | "merge" => return exJ (fun (x : AState) => rowsJ x.s) (st.merge (← other 0))
  | "eq" => return exJ Json.bool (.ok (st.eq (← other 0)))
  | "str_eq" => return exJ Json.bool (.ok (st.str == (← other 0).str))
  | "set_s" => return exJ (fun (x : AState) => rowsJ x.s) st.setS
  | "set_n_modes" => return exJ (fun (x : AState) => rowsJ x.s) st.setNModes
  | "set_item" => return exJ (fun (x : AState) => rowsJ x.s) st.setItem
  | "client" =>
      let ops ← asListOf asClientOp (← argAt name a 0)
      let w := clientRun false ⟨st.s, []⟩ ops
      return exJ rowsJ (.ok w.rows)
  | s => .error s!"unknown astate query {s}"

def asSeed (j : Json) : R Seed := do
  let t ← asStr (← fld j "t")
  match t with
  | "none" => return .none
  | "int" => return .int (← asInt (← fld j "v"))
  | "bool" => return .bool (← asBool (← fld j "v"))
  | "real" => return .real (← asRat (← fld j "v"))
  | "other" => return .other
  | s => .error s!"unknown seed kind {s}"

/-- `ExpLog Rat` from a finite table of exact pairs `(e, p)` with `p = 10^e` -/
def tableE (tab : List (Rat × Rat)) : ExpLog Rat :=
  { pow10 := fun e => ((tab.find? (·.1 == e)).map (·.2)).getD 0
    log10 := fun p => ((tab.find? (·.2 == p)).map (·.1)).getD 0 }

def handleC18 (req : Json) : R Json := do
  let kind ← asStr (← fld req "kind")
  match kind with
  | "state" =>
      let st : State := ⟨← asInts (← fld req "s")⟩
      let qs ← asList (← fld req "q")
      return Json.arr (← qs.mapM (stateQuery st)).toArray
  | "astate" =>
      let rows ← asListOf (asOpt asInts) (← fld req "rows")
      match AState.newChecked rows with
      | .error e => return Json.mkObj [("new", exJ (fun _ => Json.null) (.error e : Except Err Unit))]
      | .ok st =>
        let qs ← asList (← fld req "q")
        return Json.mkObj [("new", exJ rowsJ (.ok st.s)), ("q", Json.arr (← qs.mapM (astateQuery st)).toArray)]
  | "heralds" =>
      let s ← asInts (← fld req "s")
      let h ← asListOf (asPair asInt asInt) (← fld req "h")
      let modes ← asInts (← fld req "modes")
      let added := addHeralds s h
      let back : Json := match added with
        | .ok t => exJ intsJ (removeHeralds t (h.map (·.1)))
        | .error _ => Json.null
      return Json.mkObj [("add", exJ intsJ added), ("remove_of_add", back),
        ("remove", exJ intsJ (removeHeralds s modes))]
  | "db" =>
      let tab ← asListOf (asPair asRat asRat) (← fld req "table")
      let E := tableE tab
      let x ← asRat (← fld req "x")
      match (← asStr (← fld req "fn")) with
      | "to_dec" =>
          let arg : Rat := -(absK x) / 10
          if !(tab.any (·.1 == arg)) then .error s!"db table lacks exponent {GQ.ratToString arg}"
          return exJ ratJ (.ok (dbToDec E x))
      | "to_db" =>
          if !(x < 0 ∨ 1 ≤ x) && !(tab.any (·.2 == 1 - x)) then
            .error s!"db table lacks power {GQ.ratToString (1 - x)}"
          return exJ ratJ (decToDb E x)
      | s => .error s!"unknown db fn {s}"
  | "seed" =>
      return exJ (fun (o : Option Int) => match o with | none => Json.null | some i => intJ i)
        (processSeed (← asSeed (← fld req "seed")))
  | "perm" =>
      let n ← asNat (← fld req "N")
      let σ ← asListOf asNat (← fld req "sigma")
      let seed ← asSeed (← fld req "seed")
      let res : Except Err (M GQ) := randomPermutation n seed (fun _ => σ)
      return exJ (fun (A : M GQ) =>
        listJ (fun i => listJ (fun j => gqJ (A.get i j)) (List.range A.n)) (List.range A.n)) res
  | s => .error s!"unknown sv kind {s}"

end LW.Driver
