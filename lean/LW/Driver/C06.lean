/-
  LW.Driver.C06 — protocol handler `c06`: imperfect-source statistics and sampler distributions on
  the exact model (K = GQ, Q = Rat).  Source parameters: "nu","p2","pi","thr" as "p/q" (see
  LW.Model.Source).

  {"op":"c06","what":"table", params}
      → {"table":[c0,c1,c1d,c1dp,c12d,c1d2d]}
  {"op":"c06","what":"stats","state":[..], params}
      → {"kind":"basic"|"full","n":<check_number>,"stats":[[state,p],..],"raw":[[state,p],..]}
        (`raw` = statistics before thresholding)  |  {"error_class":..,"raw":..}
  {"op":"c06","what":"dist","prog":[..],"id":"c1","input":[..],"backend":..,"eps":.., params}
      → {"pdist":[[state,p],..],"pdist_exact":[..] (eps = 0),"n":..,"loss_modes":..,
         "n_inputs":<number of source inputs>,"kind":..,"raw":..}  |  {"error_class":..,"raw":..}
  {"op":"c06","what":"validate","purity":v,"brightness":v,"indist":v,"thr":v}
      (v = "p/q" | "nan" | true | false | null | any other string = non-numeric)
      → {"ok":true} | {"error_class":..}
-/
import LW.Driver.Fock
import LW.Model.Source

open Lean

namespace LW.Driver

open LW.Src

def asParams (req : Json) : R (Params Rat) := do
  return { nu := ← asRat (← fld req "nu"), p2 := ← asRat (← fld req "p2"),
           pi := ← asRat (← fld req "pi"), thr := ← asRat (← fld req "thr") }

def astateJ (a : SV.AState) : Json := listJ (listJ intJ) a.s

def statsJ : Stats Rat → Json
  | .basic d => listJ (fun (x : FState × Rat) => Json.arr #[stateJ x.1, ratJ x.2]) d
  | .full d => listJ (fun (x : SV.AState × Rat) => Json.arr #[astateJ x.1, ratJ x.2]) d

def statsKind : Stats Rat → String
  | .basic _ => "basic"
  | .full _ => "full"

def asPyVal (j : Json) : R PyVal :=
  match j with
  | .str "nan" => .ok .nan
  | .str s => match parseRat? s with
    | some r => .ok (.num r)
    | none => .ok .other
  | .bool b => .ok (.bool b)
  | .null => .ok .other
  | _ => match j.getInt? with
    | .ok v => .ok (.num (v : Rat))
    | .error _ => .ok .other

def handleC06 (req : Json) : R Json := do
  let what ← asStr (← fld req "what")
  if what == "validate" then
    let a ← asPyVal (← fld req "purity")
    let b ← asPyVal (← fld req "brightness")
    let c ← asPyVal (← fld req "indist")
    let d ← asPyVal (← fld req "thr")
    match validateSource a b c d with
    | .ok _ => return Json.mkObj [("ok", Json.bool true)]
    | .error e => return Json.mkObj [("error_class", Json.str e.toString)]
  let P ← asParams req
  match what with
  | "table" =>
      return Json.mkObj [("table", listJ ratJ [c0 P, c1 P, c1d P, c1dp P, c12d P, c1d2d P])]
  | "stats" => do
      let s ← asListOf asNat (← fld req "state")
      let raw := buildStatistics { P with thr := 0 } s
      match buildStatistics P s, raw with
      | .ok st, .ok rw =>
        return Json.mkObj [("kind", Json.str (statsKind st)), ("n", natJ st.size),
          ("stats", statsJ st), ("raw", statsJ rw)]
      | .error e, .ok rw =>
        return Json.mkObj [("error_class", Json.str e.toString), ("raw", statsJ rw)]
      | _, .error e => return Json.mkObj [("error_class", Json.str e.toString)]
  | "dist" => do
      let c ← buildCirc req
      let input ← asListOf asNat (← fld req "input")
      let b ← asBackend (← fld req "backend")
      let eps ← asRat (← fld req "eps")
      if input.length ≠ c.inputModes then
        return Json.mkObj [("error_class", Json.str Err.modeMismatch.toString)]
      let full := addHeralds input c.inHer
      let U := c.Ufull GQ.I
      let raw := buildStatistics { P with thr := 0 } full
      let rawJ := match raw with | .ok rw => statsJ rw | .error _ => Json.null
      match samplerDistSrc b GQ.normSq eps U c.n P full,
            samplerDistSrc b GQ.normSq 0 U c.n P full, buildStatistics P full with
      | .ok pd, .ok pd0, .ok st =>
        return Json.mkObj [("pdist", pdistJ pd), ("pdist_exact", pdistJ pd0), ("n", natJ c.n),
          ("loss_modes", natJ (U.n - c.n)), ("n_inputs", natJ st.size),
          ("kind", Json.str (statsKind st)), ("raw", rawJ)]
      | .error e, _, _ => return Json.mkObj [("error_class", Json.str e.toString), ("raw", rawJ)]
      | _, .error e, _ => return Json.mkObj [("error_class", Json.str e.toString), ("raw", rawJ)]
      | _, _, .error e => return Json.mkObj [("error_class", Json.str e.toString), ("raw", rawJ)]
  | s => .error s!"unknown c06 request {s}"

end LW.Driver
