/-
  LW.Driver.C15 — protocol handler `tomo` (state tomography, C15) on the exact model, K = Q2.

  request kinds (`"kind"`):
    "meta"    {n}                       → measurement enumeration, required settings (sorted),
                                          Pauli and basis-change matrices
    "process" {n, order, results}       → model of `StateTomography.process()` on arbitrary data
    "born"    {n, prog, order}          → state prepared by the qubit-level program, exact
                                          noiseless outcome tables per setting, `process` on them,
                                          and the exact comparison with |ψ⟩⟨ψ| / ⟨ψ|ψ⟩
-/
import LW.Driver.Common
import LW.Model.Q2
import LW.Model.Tomo

open Lean

namespace LW.Driver

open LW.Tomo

def asQ2 (j : Json) : R Q2 :=
  match j with
  | .str s => match parseQ2? s with
    | some r => .ok r
    | none => .error s!"bad Q2 {s}"
  | _ => match j.getInt? with
    | .ok v => .ok (Q2.ofRat (v : Rat))
    | .error _ => .error s!"expected Q2, got {j.compress}"

def q2J (x : Q2) : Json := .str x.toStr

def matQ2J (A : M Q2) : Json :=
  listJ (fun i => listJ (fun j => q2J (A.get i j)) (List.range A.n)) (List.range A.n)

def asMatQ2 (j : Json) : R (M Q2) := do
  let rows ← asListOf (asListOf asQ2) j
  return ⟨rows.length, rows.toArray.map List.toArray⟩

def asMeas (j : Json) : R Meas := do
  let s ← asStr j
  (s.splitOn ",").mapM fun t => match Pauli.parse? t with
    | some p => .ok p
    | none => .error s!"bad measurement label {s}"

def measJ (m : Meas) : Json := .str (Meas.toString m)

def asRes (j : Json) : R (Res Q2) := asListOf (asPair (asListOf asNat) asQ2) j

def resJ (r : Res Q2) : Json := listJ (pairJ (listJ natJ) q2J) r

def errJ (e : Err) : Json := Json.mkObj [("error", .str e.toString)]

def isPermOf (a b : List Meas) : Bool :=
  a.length == b.length && a.all (b.contains ·) && b.all (a.contains ·) && a.eraseDups.length == a.length

/-- insertion sort of labels by their string form (canonical output for set-like data) -/
def sortMeas (l : List Meas) : List Meas :=
  (l.map Meas.toString).toArray.qsort (· < ·) |>.toList.filterMap fun s =>
    ((s.splitOn ",").mapM Pauli.parse?)

/-- named single-qubit gates of `lightworks.qubit` as exact matrices -/
def namedGate (name : String) : Option (M Q2) :=
  let i := Q2.I
  let h := Q2.invSqrt2
  let t : Q2 := (1 + i) * h            -- e^{iπ/4}
  let half : Q2 := Q2.ofRat (1 / 2)
  match name with
  | "I" => some (mat2 1 0 0 1)
  | "H" => some (hM h)
  | "X" => some (mat2 0 1 1 0)
  | "Y" => some (mat2 0 (-i) i 0)
  | "Z" => some zM
  | "S" => some (sM i)
  | "Sadj" => some (mat2 1 0 0 (-i))
  | "T" => some (mat2 1 0 0 t)
  | "Tadj" => some (mat2 1 0 0 (conj t))
  | "SX" => some (mat2 (half * (1 + i)) (half * (1 + -i)) (half * (1 + -i)) (half * (1 + i)))
  | _ => none

def asGate (j : Json) : R (Gate Q2) := do
  let a ← asList j
  let name ← match a with
    | h :: _ => asStr h
    | [] => .error "empty gate"
  let arg (k : Nat) : R Json := match a[k]? with
    | some v => .ok v
    | none => .error s!"gate {name}: missing arg {k}"
  match name with
  | "U" => return .u1 (← asNat (← arg 1)) (← asMatQ2 (← arg 2))
  | "CZ" => return .cz (← asNat (← arg 1)) (← asNat (← arg 2))
  | "CNOT" => return .cnot (← asNat (← arg 1)) (← asNat (← arg 2))
  | "SWAP" => return .swap (← asNat (← arg 1)) (← asNat (← arg 2))
  | s => match namedGate s with
    | some m => return .u1 (← asNat (← arg 1)) m
    | none => .error s!"unknown gate {s}"

def handleTomo (req : Json) : R Json := do
  let kind ← asStr (← fld req "kind")
  let n ← asNat (← fld req "n")
  if kind == "init" then
    let r := Tomo.init (← asBool (← fld req "n_is_int")) (← asBool (← fld req "base_is_circuit"))
      (← asBool (← fld req "exp_is_function")) n (← asNat (← fld req "input_modes"))
    match r with
    | .ok _ => return Json.str "ok"
    | .error e => return errJ e
  if n = 0 ∨ n > 4 then .error "n out of range"
  let i := Q2.I
  let h := Q2.invSqrt2
  match kind with
  | "meta" =>
      return Json.mkObj [
        ("measurements", listJ measJ (tomoMeasurements n)),
        ("measurements_nontrivial", listJ measJ (tomoMeasurements n true)),
        ("required_sorted", listJ measJ (sortMeas (requiredSet n))),
        ("required_spec_sorted", listJ measJ (sortMeas (requiredSpec n))),
        ("pauli", Json.mkObj (Pauli.all.map fun p => (p.toString, matQ2J (pauliM i p)))),
        ("meas_u", Json.mkObj (Pauli.all.map fun p => (p.toString, matQ2J (measU i h p))))]
  | "process" =>
      let order ← asListOf asMeas (← fld req "order")
      if !isPermOf order (requiredSet n) then .error "order is not a permutation of the required settings"
      let rs ← asListOf asRes (← fld req "results")
      match process i n order rs with
      | .ok rho => return Json.mkObj [("rho", matQ2J rho)]
      | .error e => return errJ e
  | "born" =>
      let order ← asListOf asMeas (← fld req "order")
      if !isPermOf order (requiredSet n) then .error "order is not a permutation of the required settings"
      let gs ← asListOf asGate (← fld req "prog")
      let psi := prepare n gs
      let psiF : Nat → Q2 := fun a => psi.getD a 0
      let rho0 := densityOfState (2 ^ n) psiF
      let tables := order.map (bornTable i h n rho0)
      let norm := trace rho0
      let expected := M.ofFn (2 ^ n) fun r k => rho0.get r k * norm⁻¹
      let base := [("psi", listJ q2J psi.toList), ("norm", q2J norm),
                   ("tables", listJ resJ tables), ("expected", matQ2J expected)]
      match process i n order tables with
      | .ok rho =>
          return Json.mkObj (base ++ [("rho", matQ2J rho), ("rho_is_state", .bool (rho.beq expected))])
      | .error e => return Json.mkObj (base ++ [("error", .str e.toString)])
  | s => .error s!"unknown tomo kind {s}"

end LW.Driver
