/-
  LW.Driver.C19 — protocol handler `display`: builds a pool of circuits with a construction
  program (same ops as `circ`), then runs the model of `lightworks.Display` on selected circuits
  with the given options.

  request : {"op":"display","prog":[...],"targets":[{"id":…,"dtype":…,"loss":bool,
             "labels":null|[str],"values":bool}, …], "pinned":bool}
  response: {"results":[per-op outcome], "wf":{id: bool},
             "out":[{"err":class} | {"width":"p/q","height":"p/q","ys":["p/q"],"labels":[str]}]}
  `wf` is the decidable invariant `Disp.WF` of the model circuit (hypothesis of the C19 theorems).
-/
import LW.Driver.Common
import LW.Driver.Circuit
import LW.Model.Display

open Lean

namespace LW.Driver

def parseOpts (t : Json) : R Disp.Opts := do
  let dtype ← match t.getObjValD "dtype" with
    | .str s => pure s
    | j => pure j.compress          -- any non-string display type is "not recognised"
  let loss ← asBool (← fld t "loss")
  let labels ← asOpt (asListOf asStr) (← fld t "labels")
  let values ← asBool (← fld t "values")
  return { dtype := dtype, displayLoss := loss, labels := labels, showValues := values }

def dispOutJ (r : Except Err Disp.Out) : Json :=
  match r with
  | .error e => Json.mkObj [("err", Json.str e.toString)]
  | .ok o => Json.mkObj [("width", ratJ o.width), ("height", ratJ o.height),
      ("ys", listJ ratJ o.ys), ("labels", listJ Json.str o.labels)]

/-- what a displayed circuit contains (top level of the spec, as the back-ends see it) — used by
the harness for its coverage histogram only -/
def featJ (c : Circ GQ) : Json :=
  let cnt (p : Comp GQ → Bool) : Json := natJ (c.spec.filter p).length
  Json.mkObj [
    ("n", natJ c.n), ("spec_len", natJ c.spec.length), ("internal", natJ c.internal.length),
    ("ext", natJ (c.extIn.length + c.extOut.length)),
    ("groups", cnt fun | .group .. => true | _ => false),
    ("groups_heralded", cnt fun | .group _ _ _ hin hout => !hin.isEmpty || !hout.isEmpty | _ => false),
    ("loss", cnt fun | .prim (.loss ..) => true | _ => false),
    ("unitary", cnt fun | .prim (.unitary ..) => true | _ => false),
    ("swaps", cnt fun | .prim (.swaps _) => true | _ => false),
    ("barrier_empty", cnt fun | .prim (.barrier []) => true | _ => false)]

def handleC19 (req : Json) : R Json := do
  let prog ← asList (← fld req "prog")
  let targets ← asList (← fld req "targets")
  let pinned := (req.getObjValD "pinned") == Json.bool true
  let mut pool : Pool := []
  let mut outs : Array Json := #[]
  for op in prog do
    let (p', r) ← circStep pool op
    pool := p'
    outs := outs.push (Json.str r)
  let mut res : Array Json := #[]
  for t in targets do
    let id ← asStr (← fld t "id")
    let o ← parseOpts t
    if pinned then
      let c ← pool.get id
      res := res.push (dispOutJ (Disp.displayPinned c o))
    else
      match Disp.displayStep pool id o with
      | none => throw s!"unknown circuit {id}"
      | some (pool', r) =>
        pool := pool'
        res := res.push (dispOutJ r)
  let wf := Json.mkObj (pool.map fun (id, c) => (id, Json.bool (decide (Disp.WF c))))
  let feat := Json.mkObj (pool.map fun (id, c) => (id, featJ c))
  return Json.mkObj [("results", Json.arr outs), ("wf", wf), ("feat", feat), ("out", Json.arr res)]

end LW.Driver
