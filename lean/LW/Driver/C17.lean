/-
  LW.Driver.C17 — protocol handler `res`: result containers on the exact model LW.Model.Result
  (values are Gaussian rationals).

  request {"op":"res","kind":"sim", "rtype":"probability"|"probability_amplitude"|<other>,
           "shape":[r,c], "array":[[gq…]…], "inputs":[[int…]…], "outputs":[[int…]…], "q":[query…]}
          {"op":"res","kind":"samp", "results":[[[int…], gq]…], "input":[int…]|null, "q":[query…]}
  queries ["get", item]                      item = {"st":[…]} | {"tup":[elem…]} | {"bad":1}
                                             elem = {"st":[…]} | {"none":1} | {"bad":1}
          ["map", [[kind, invert]…], [[order…]…]]   chain of mappings; one column order per step
                                             (the order in which the implementation iterated its set)
-/
import LW.Driver.C18
import LW.Model.Result

open Lean

namespace LW.Driver

open LW.SV LW.Res

def asSt (j : Json) : R St := do return ⟨← asInts j⟩
def stJ (s : St) : Json := intsJ s.s
def pdJ {β : Type} (f : β → Json) (d : PD β) : Json := listJ (pairJ stJ f) d

def asTElem (j : Json) : R TElem := do
  match j.getObjVal? "st" with
  | .ok v => return .st (← asSt v)
  | .error _ =>
    match j.getObjVal? "none" with
    | .ok _ => return .none
    | .error _ => return .bad

def asItem (j : Json) : R Item := do
  match j.getObjVal? "st" with
  | .ok v => return .st (← asSt v)
  | .error _ =>
    match j.getObjVal? "tup" with
    | .ok v => return .tup (← asListOf asTElem v)
    | .error _ => return .bad

def asKind (j : Json) : R (St → St) := do
  let (k, inv) ← asPair asStr asBool j
  match k with
  | "threshold" => return thr inv
  | "parity" => return par inv
  | s => .error s!"unknown mapping {s}"

def simJ (r : SimResult GQ) : Json :=
  Json.mkObj [
    ("rtype", Json.str (match r.rtype with | .probability => "probability" | .amplitude => "probability_amplitude")),
    ("inputs", listJ stJ r.inputs), ("outputs", listJ stJ r.outputs),
    ("shape", Json.arr #[natJ r.array.r, natJ r.array.c]),
    ("array", listJ (listJ gqJ) r.array.a),
    ("dict", pdJ (pdJ gqJ) r.dict)]

def sampJ (r : SampResult GQ) : Json :=
  Json.mkObj [("input", stJ r.input), ("outputs", listJ stJ r.outputs), ("dict", pdJ gqJ r.dict)]

def outJ : Out GQ → Json
  | .row d => Json.mkObj [("row", pdJ gqJ d)]
  | .val v => Json.mkObj [("val", gqJ v)]

/-- apply a chain of mappings; every step uses the column order handed in (it must enumerate the
model's image set exactly once each, otherwise the request is malformed) -/
def simChain (r : SimResult GQ) : List (St → St) → List (List St) → R (Except Err (SimResult GQ))
  | [], _ => return .ok r
  | f :: fs, ords => do
    let (ord, rest) ← match ords with
      | o :: t => pure (o, t)
      | [] => .error "map: missing column order"
    if r.rtype = .amplitude then return .error .value
    let canon := imagesOf (mapDict f r.dict)
    if !(ord.isPerm canon) then
      .error s!"map: column order is not an enumeration of the image set (model {(listJ stJ canon).compress})"
    match r.applyMapping f (fun _ => ord) with
    | .error e => return .error e
    | .ok r' => simChain r' fs rest

def sampChain (r : SampResult GQ) : List (St → St) → Except Err (SampResult GQ)
  | [] => .ok r
  | f :: fs => do
    let r' ← r.applyMapping f
    sampChain r' fs

def handleC17 (req : Json) : R Json := do
  let kind ← asStr (← fld req "kind")
  let qs ← asList (← fld req "q")
  match kind with
  | "sim" =>
      let rtype := match (← asStr (← fld req "rtype")) with
        | "probability" => some RType.probability
        | "probability_amplitude" => some RType.amplitude
        | _ => none
      let (r, c) ← asPair asNat asNat (← fld req "shape")
      let a ← asListOf (asListOf asGQ) (← fld req "array")
      if a.length ≠ r ∨ a.any (·.length ≠ c) then .error "array does not have the stated shape"
      let ins ← asListOf asSt (← fld req "inputs")
      let outs ← asListOf asSt (← fld req "outputs")
      match SimResult.new rtype ⟨r, c, a⟩ ins outs with
      | .error e => return Json.mkObj [("new", exJ (fun _ => Json.null) (.error e : Except Err Unit))]
      | .ok res =>
        let answers ← qs.mapM fun q => do
          let (name, args) ← qArgs q
          match name with
          | "get" => return exJ outJ (res.getItem (← asItem (← argAt name args 0)))
          | "map" =>
              let fs ← asListOf asKind (← argAt name args 0)
              let ords ← asListOf (asListOf asSt) (← argAt name args 1)
              return exJ simJ (← simChain res fs ords)
          | s => .error s!"unknown sim query {s}"
        return Json.mkObj [("new", exJ simJ (.ok res)), ("q", Json.arr answers.toArray)]
  | "samp" =>
      let results ← asListOf (asPair asSt asGQ) (← fld req "results")
      let input ← asOpt asSt (← fld req "input")
      match SampResult.new results input with
      | .error e => return Json.mkObj [("new", exJ (fun _ => Json.null) (.error e : Except Err Unit))]
      | .ok res =>
        let answers ← qs.mapM fun q => do
          let (name, args) ← qArgs q
          match name with
          | "get" => return exJ gqJ (res.getItem (← asOpt asSt (← argAt name args 0)))
          | "map" =>
              let fs ← asListOf asKind (← argAt name args 0)
              return exJ sampJ (sampChain res fs)
          | s => .error s!"unknown samp query {s}"
        return Json.mkObj [("new", exJ sampJ (.ok res)), ("q", Json.arr answers.toArray)]
  | s => .error s!"unknown res kind {s}"

end LW.Driver
