/-
  LW.Model.Q2 — the exact scalar field ℚ(i, √2) = GQ[√2] used to *execute* the tomography models.

  Every constant of the qubit gate library that the tomography code touches (H: 1/√2, S: i,
  T: (1+i)/√2, SX: (1±i)/2, Paulis, CZ/CNOT on the dual-rail basis) lives in this field, so the
  driver computes outcome frequencies, density matrices and Choi matrices exactly.
  Core Lean only.
-/
import LW.Model.Scalar

namespace LW

/-- `a + b·√2` with `a, b` Gaussian rationals -/
structure Q2 where
  a : GQ
  b : GQ
deriving DecidableEq, Repr, Inhabited

namespace Q2

def two : GQ := ⟨2, 0⟩

instance : Zero Q2 := ⟨⟨0, 0⟩⟩
instance : One Q2 := ⟨⟨1, 0⟩⟩
instance : Add Q2 := ⟨fun x y => ⟨x.a + y.a, x.b + y.b⟩⟩
instance : Neg Q2 := ⟨fun x => ⟨-x.a, -x.b⟩⟩
instance : Sub Q2 := ⟨fun x y => ⟨x.a - y.a, x.b - y.b⟩⟩
instance : Mul Q2 := ⟨fun x y => ⟨x.a * y.a + two * (x.b * y.b), x.a * y.b + x.b * y.a⟩⟩
/-- complex conjugation (√2 is real) -/
instance : HasConj Q2 := ⟨fun x => ⟨conj x.a, conj x.b⟩⟩

def ofGQ (g : GQ) : Q2 := ⟨g, 0⟩
def ofRat (r : Rat) : Q2 := ⟨⟨r, 0⟩, 0⟩
/-- the imaginary unit -/
def I : Q2 := ⟨GQ.I, 0⟩
/-- `1/√2 = √2/2` -/
def invSqrt2 : Q2 := ⟨0, ⟨1 / 2, 0⟩⟩
def sqrt2 : Q2 := ⟨0, 1⟩

/-- inverse through the conjugate over `GQ`: `1/(a+b√2) = (a-b√2)/(a²-2b²)`; `0⁻¹ = 0` -/
def inv (x : Q2) : Q2 :=
  let d : GQ := x.a * x.a - two * (x.b * x.b)
  let di := d.inv
  ⟨x.a * di, -(x.b * di)⟩
instance : Inv Q2 := ⟨inv⟩
instance : Div Q2 := ⟨fun x y => x * y.inv⟩

/-- canonical print form `a.re,a.im,b.re,b.im` -/
def toStr (x : Q2) : String :=
  s!"{GQ.ratToString x.a.re},{GQ.ratToString x.a.im},{GQ.ratToString x.b.re},{GQ.ratToString x.b.im}"

instance : ToString Q2 := ⟨toStr⟩

end Q2

/-- parse `re`, `re,im` (Gaussian rational) or `a.re,a.im,b.re,b.im` -/
def parseQ2? (s : String) : Option Q2 :=
  match s.splitOn "," with
  | [a] => (fun r => Q2.ofRat r) <$> parseRat? a
  | [a, b] => do
      let x ← parseRat? a
      let y ← parseRat? b
      some ⟨⟨x, y⟩, 0⟩
  | [a, b, c, d] => do
      let x ← parseRat? a
      let y ← parseRat? b
      let z ← parseRat? c
      let w ← parseRat? d
      some ⟨⟨x, y⟩, ⟨z, w⟩⟩
  | _ => none

end LW
