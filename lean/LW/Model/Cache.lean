/-
  LW.Model.Cache — lazily recomputed results of long-lived Sampler / QuickSampler objects (C11).

  The objects keep a configuration (circuit, input state, source, backend, post-selection,
  detector mode), and cache the distribution together with a *snapshot* of the configuration
  (`_gen_calculation_values`).  A read recomputes iff the current snapshot differs from the stored
  one (`_check_parameter_updates`).  `read` is what `probability_distribution` /
  `continuous_distribution` do; sampling methods read first.
-/

namespace LW

structure Cached (Cfg Snap Val : Type) where
  cfg : Cfg
  cache : Option (Snap × Val) := none

namespace Cached

variable {Cfg Snap Val : Type} [DecidableEq Snap]

/-- a read through the cache: returns the value and the updated object -/
def read (snap : Cfg → Snap) (compute : Cfg → Val) (s : Cached Cfg Snap Val) :
    Val × Cached Cfg Snap Val :=
  match s.cache with
  | some (k, v) =>
      if k = snap s.cfg then (v, s)
      else let v' := compute s.cfg; (v', { s with cache := some (snap s.cfg, v') })
  | none => let v' := compute s.cfg; (v', { s with cache := some (snap s.cfg, v') })

/-- operations on a long-lived object: any reconfiguration, or a read -/
inductive Op (Cfg : Type)
  | reconfig (f : Cfg → Cfg)
  | read

def step (snap : Cfg → Snap) (compute : Cfg → Val) (s : Cached Cfg Snap Val) :
    Op Cfg → Option Val × Cached Cfg Snap Val
  | .reconfig f => (none, { s with cfg := f s.cfg })
  | .read => let (v, s') := s.read snap compute; (some v, s')

/-- run a history; returns the values returned by the reads, each paired with the configuration
that was current at that read -/
def run (snap : Cfg → Snap) (compute : Cfg → Val) :
    Cached Cfg Snap Val → List (Op Cfg) → List (Cfg × Val)
  | _, [] => []
  | s, op :: ops =>
    match step snap compute s op with
    | (some v, s') => (s'.cfg, v) :: run snap compute s' ops
    | (none, s') => run snap compute s' ops

end Cached

/-! ### the configuration of a Sampler and its snapshots -/

/-- what determines a Sampler's distribution.  Matrices are abstracted to an identifier type `U`
(equality of identifiers = element-wise equality of `U_full`). -/
structure SamplerCfg (U : Type) where
  ufull : U
  nModes : Nat
  inHer : List (Nat × Nat)
  outHer : List (Nat × Nat)
  input : List Nat
  backend : Nat
  source : List Nat      -- brightness, purity, indistinguishability, threshold (as identifiers)
deriving DecidableEq

/-- pinned `_gen_calculation_values`: heralds and mode count are missing -/
def snapPinned {U : Type} (c : SamplerCfg U) : U × List Nat × Nat × List Nat :=
  (c.ufull, c.input, c.backend, c.source)

/-- repaired snapshot: `U_full`, heralds, mode count, input, backend, source parameters -/
structure SnapF (U : Type) where
  ufull : U
  inHer : List (Nat × Nat)
  outHer : List (Nat × Nat)
  nModes : Nat
  input : List Nat
  backend : Nat
  source : List Nat
deriving DecidableEq

def snapFixed {U : Type} (c : SamplerCfg U) : SnapF U :=
  ⟨c.ufull, c.inHer, c.outHer, c.nModes, c.input, c.backend, c.source⟩

end LW
