/-
  LW.Model.Cache — lazily recomputed results of long-lived Sampler / QuickSampler objects (C11).

  The objects keep a configuration (circuit, input state, source, backend, post-selection,
  detector mode), and cache the distribution together with a *snapshot* of the configuration
  (`_gen_calculation_values`).  A read recomputes iff the current snapshot differs from the stored
  one (`_check_parameter_updates`).  `read` is what `probability_distribution` /
  `continuous_distribution` do; sampling methods read first.
-/

namespace LW

structure Cached (Cfg Snap Val : Type) where
  cfg : Cfg
  cache : Option (Snap × Val) := none

namespace Cached

variable {Cfg Snap Val : Type} [DecidableEq Snap]

/-- a read through the cache: returns the value and the updated object -/
def read (snap : Cfg → Snap) (compute : Cfg → Val) (s : Cached Cfg Snap Val) :
    Val × Cached Cfg Snap Val :=
  match s.cache with
  | some (k, v) =>
      if k = snap s.cfg then (v, s)
      else let v' := compute s.cfg; (v', { s with cache := some (snap s.cfg, v') })
  | none => let v' := compute s.cfg; (v', { s with cache := some (snap s.cfg, v') })

/-- operations on a long-lived object: any reconfiguration, or a read -/
inductive Op (Cfg : Type)
  | reconfig (f : Cfg → Cfg)
  | read

def step (snap : Cfg → Snap) (compute : Cfg → Val) (s : Cached Cfg Snap Val) :
    Op Cfg → Option Val × Cached Cfg Snap Val
  | .reconfig f => (none, { s with cfg := f s.cfg })
  | .read => let (v, s') := s.read snap compute; (some v, s')

/-- run a history; returns the values returned by the reads, each paired with the configuration
that was current at that read -/
def run (snap : Cfg → Snap) (compute : Cfg → Val) :
    Cached Cfg Snap Val → List (Op Cfg) → List (Cfg × Val)
  | _, [] => []
  | s, op :: ops =>
    match step snap compute s op with
    | (some v, s') => (s'.cfg, v) :: run snap compute s' ops
    | (none, s') => run snap compute s' ops

end Cached

/-! ### the configuration of a Sampler and its snapshots -/

/-- what determines a Sampler's distribution.  Matrices are abstracted to an identifier type `U`
(equality of identifiers = element-wise equality of `U_full`). -/
structure SamplerCfg (U : Type) where
  ufull : U
  nModes : Nat
  inHer : List (Nat × Nat)
  outHer : List (Nat × Nat)
  input : List Nat
  backend : Nat
  source : List Nat      -- brightness, purity, indistinguishability, threshold (as identifiers)
deriving DecidableEq

/-- pinned `_gen_calculation_values`: heralds and mode count are missing -/
def snapPinned {U : Type} (c : SamplerCfg U) : U × List Nat × Nat × List Nat :=
  (c.ufull, c.input, c.backend, c.source)

/-- repaired snapshot: `U_full`, heralds, mode count, input, backend, source parameters -/
structure SnapF (U : Type) where
  ufull : U
  inHer : List (Nat × Nat)
  outHer : List (Nat × Nat)
  nModes : Nat
  input : List Nat
  backend : Nat
  source : List Nat
deriving DecidableEq

def snapFixed {U : Type} (c : SamplerCfg U) : SnapF U :=
  ⟨c.ufull, c.inHer, c.outHer, c.nModes, c.input, c.backend, c.source⟩

/-! ### additions: the staleness test, computations that raise, the QuickSampler, shared components

`SamplerCfg` / `snapFixed` above, compared field by field with the CURRENT
`Sampler._gen_calculation_values` (lightworks/emulator/simulation/sampler.py):

    self.__circuit.U_full        ↦ ufull          (arrays: equal shape and `(a == b).all()`)
    self.__circuit.heralds       ↦ inHer, outHer  (a dict of two dicts, compared with `!=`)
    self.__circuit.n_modes       ↦ nModes
    self.input_state             ↦ input          (`State.__eq__`: the mode occupation lists)
    self.backend.backend         ↦ backend        (the NAME held by the Backend object now)
    source.brightness, .purity, .indistinguishability, .probability_threshold ↦ source (4 entries)

Nothing is missing; the detector is not part of the code's snapshot (it acts at sampling time, after
the cached distribution) and hence not part of `SamplerCfg`. -/

namespace Cached

variable {Cfg Snap Val : Type} [DecidableEq Snap]

/-- `_check_parameter_updates`: nothing stored yet, or the stored snapshot differs from the
snapshot of the current configuration -/
def stale (snap : Cfg → Snap) (s : Cached Cfg Snap Val) : Bool :=
  match s.cache with
  | some (k, _) => !(decide (k = snap s.cfg))
  | none => true

/-- a read whose computation may raise (`probability_distribution` raises e.g. on a mode mismatch
or when post-selection removes every output): the exception leaves the stored pair as it was,
because `__calculation_values` is assigned only after the distribution has been computed -/
def readE {E : Type} (snap : Cfg → Snap) (compute : Cfg → Except E Val)
    (s : Cached Cfg Snap Val) : Except E Val × Cached Cfg Snap Val :=
  if s.stale snap then
    match compute s.cfg with
    | .ok v' => (.ok v', { s with cache := some (snap s.cfg, v') })
    | .error e => (.error e, s)
  else
    match s.cache with
    | some (_, v) => (.ok v, s)
    | none => (compute s.cfg, s)   -- unreachable: `stale` is true without a stored pair

/-- a step of a history with raising computations; a read also reports whether it had to
recompute (`stale` just before the read) -/
def stepE {E : Type} (snap : Cfg → Snap) (compute : Cfg → Except E Val)
    (s : Cached Cfg Snap Val) : Op Cfg → Option (Bool × Except E Val) × Cached Cfg Snap Val
  | .reconfig f => (none, { s with cfg := f s.cfg })
  | .read => let r := s.readE snap compute; (some (s.stale snap, r.1), r.2)

/-- run a history with raising computations: for every read the configuration current at that
read, whether the read recomputed, and the value or exception it returned -/
def runE {E : Type} (snap : Cfg → Snap) (compute : Cfg → Except E Val) :
    Cached Cfg Snap Val → List (Op Cfg) → List (Cfg × Bool × Except E Val)
  | _, [] => []
  | s, op :: ops =>
    match stepE snap compute s op with
    | (some (b, v), s') => (s'.cfg, b, v) :: runE snap compute s' ops
    | (none, s') => runE snap compute s' ops

end Cached

/-! ### the configuration of a QuickSampler and its snapshots -/

/-- a post-selection rule as `Rule.as_tuple()` gives it: (modes, allowed photon numbers) -/
abbrev PSRule := List Nat × List Nat

/-- what determines a QuickSampler's distribution.  The post-selection is an OBJECT (`psId`, its
identity: `PostSelection` defines no `__eq__`, so `!=` on two of them is an identity test)
together with the rules that object holds NOW (`psRules`); the object can be given further rules
in place after it was assigned. -/
structure QuickCfg (U : Type) where
  ufull : U
  nModes : Nat
  inHer : List (Nat × Nat)
  outHer : List (Nat × Nat)
  input : List Nat
  psId : Nat
  psRules : List PSRule
  photonCounting : Bool
deriving DecidableEq

/-- `QuickSampler._gen_calculation_values` before the repair ab07a40 (finding F30): the object is
stored, the rules it holds are not -/
structure SnapQP (U : Type) where
  ufull : U
  inHer : List (Nat × Nat)
  outHer : List (Nat × Nat)
  nModes : Nat
  input : List Nat
  psId : Nat
  photonCounting : Bool
deriving DecidableEq

def snapQuickPinned {U : Type} (c : QuickCfg U) : SnapQP U :=
  ⟨c.ufull, c.inHer, c.outHer, c.nModes, c.input, c.psId, c.photonCounting⟩

/-- `QuickSampler._gen_calculation_values` as it is now, field by field:
`[U_full, heralds, n_modes, input_state, post_select, ps_rules, photon_counting]` -/
structure SnapQ (U : Type) where
  ufull : U
  inHer : List (Nat × Nat)
  outHer : List (Nat × Nat)
  nModes : Nat
  input : List Nat
  psId : Nat
  psRules : List PSRule
  photonCounting : Bool
deriving DecidableEq

def snapQuickFixed {U : Type} (c : QuickCfg U) : SnapQ U :=
  ⟨c.ufull, c.inHer, c.outHer, c.nModes, c.input, c.psId, c.psRules, c.photonCounting⟩

/-! ### components shared by several long-lived objects

A holder keeps its OWN settings (`Own`: what it was assigned, components by identity); the values
the components hold now live in a heap `H` that every holder sees; `resolve` reads a holder's
settings through the heap and gives the configuration (`Cfg`) its distribution depends on.  An
in-place change of a component is a change of the heap: it is seen by every holder at once, and by
no cache. -/

structure CWorld (H Own Snap Val : Type) where
  heap : H
  holders : List (Cached Own Snap Val)

inductive WOp (H Own : Type)
  | new (o : Own)                       -- a further holder is created (index = number so far)
  | reconfig (i : Nat) (f : Own → Own)  -- holder `i` is assigned new settings
  | mutate (g : H → H)                  -- a shared component is changed in place
  | read (i : Nat)                      -- holder `i` is read

namespace CWorld

variable {H Own Cfg Snap Val E : Type} [DecidableEq Snap]

/-- one step; reads go through `Cached.readE` (the computation may raise), with the snapshot and
the computation taken through the heap of that moment -/
def step (resolve : H → Own → Cfg) (snap : Cfg → Snap) (compute : Cfg → Except E Val)
    (w : CWorld H Own Snap Val) :
    WOp H Own → Option (Nat × Cfg × Except E Val) × CWorld H Own Snap Val
  | .new o => (none, { w with holders := w.holders ++ [{ cfg := o }] })
  | .reconfig i f =>
    match w.holders[i]? with
    | none => (none, w)
    | some s => (none, { w with holders := w.holders.set i { s with cfg := f s.cfg } })
  | .mutate g => (none, { w with heap := g w.heap })
  | .read i =>
    match w.holders[i]? with
    | none => (none, w)
    | some s =>
      let r := s.readE (fun o => snap (resolve w.heap o)) (fun o => compute (resolve w.heap o))
      (some (i, resolve w.heap s.cfg, r.1), { w with holders := w.holders.set i r.2 })

/-- run an interleaved history over all holders: for every read the holder, the configuration it
had at that read (its settings seen through the heap of that moment) and the value or exception
returned -/
def run (resolve : H → Own → Cfg) (snap : Cfg → Snap) (compute : Cfg → Except E Val) :
    CWorld H Own Snap Val → List (WOp H Own) → List (Nat × Cfg × Except E Val)
  | _, [] => []
  | w, op :: ops =>
    match step resolve snap compute w op with
    | (some r, w') => r :: run resolve snap compute w' ops
    | (none, w') => run resolve snap compute w' ops

/-- would a read of holder `i` recompute now (`_check_parameter_updates` of that holder)? -/
def staleAt (resolve : H → Own → Cfg) (snap : Cfg → Snap) (w : CWorld H Own Snap Val) (i : Nat) :
    Option Bool :=
  (w.holders[i]?).map (fun s => s.stale (fun o => snap (resolve w.heap o)))

/-- the same history WITHOUT any cache: every read builds a fresh object from the holder's
settings and the heap of that moment and computes -/
def specStep (resolve : H → Own → Cfg) (compute : Cfg → Except E Val) (w : H × List Own) :
    WOp H Own → Option (Nat × Cfg × Except E Val) × (H × List Own)
  | .new o => (none, (w.1, w.2 ++ [o]))
  | .reconfig i f =>
    match w.2[i]? with
    | none => (none, w)
    | some o => (none, (w.1, w.2.set i (f o)))
  | .mutate g => (none, (g w.1, w.2))
  | .read i =>
    match w.2[i]? with
    | none => (none, w)
    | some o => (some (i, resolve w.1 o, compute (resolve w.1 o)), w)

def specRun (resolve : H → Own → Cfg) (compute : Cfg → Except E Val) :
    H × List Own → List (WOp H Own) → List (Nat × Cfg × Except E Val)
  | _, [] => []
  | w, op :: ops =>
    match specStep resolve compute w op with
    | (some r, w') => r :: specRun resolve compute w' ops
    | (none, w') => specRun resolve compute w' ops

end CWorld

/-! #### the heap of PostSelection objects -/

/-- the rules every PostSelection object holds now, by object identity -/
abbrev PSHeap := Nat → List PSRule

/-- `mutate psId newRules`: the object `psId` holds `newRules` from now on (rules added in place);
every holder of that object sees it -/
def PSHeap.mutate (psId : Nat) (newRules : List PSRule) (h : PSHeap) : PSHeap :=
  fun p => if p = psId then newRules else h p

/-- a QuickSampler's own settings: the post-selection by identity only -/
structure QuickOwn (U : Type) where
  ufull : U
  nModes : Nat
  inHer : List (Nat × Nat)
  outHer : List (Nat × Nat)
  input : List Nat
  psId : Nat
  photonCounting : Bool
deriving DecidableEq

def QuickOwn.resolve {U : Type} (h : PSHeap) (o : QuickOwn U) : QuickCfg U :=
  ⟨o.ufull, o.nModes, o.inHer, o.outHer, o.input, o.psId, h o.psId, o.photonCounting⟩

/-- the history step "a rule is added in place to the PostSelection object `psId`" -/
def WOp.mutatePS {Own : Type} (psId : Nat) (newRules : List PSRule) : WOp PSHeap Own :=
  .mutate (PSHeap.mutate psId newRules)

/-! #### the heap of Backend and Source objects (Sampler) -/

/-- the backend name every Backend object holds now and the four parameters every Source object
holds now, by object identity (`sampler.backend.backend = …`, `sampler.source.purity = …` change a
component in place for every Sampler that was given it) -/
structure SHeap where
  backend : Nat → Nat
  source : Nat → List Nat

/-- a Sampler's own settings: Backend and Source by identity only -/
structure SamplerOwn (U : Type) where
  ufull : U
  nModes : Nat
  inHer : List (Nat × Nat)
  outHer : List (Nat × Nat)
  input : List Nat
  backendObj : Nat
  sourceObj : Nat
deriving DecidableEq

def SamplerOwn.resolve {U : Type} (h : SHeap) (o : SamplerOwn U) : SamplerCfg U :=
  ⟨o.ufull, o.nModes, o.inHer, o.outHer, o.input, h.backend o.backendObj, h.source o.sourceObj⟩

end LW
