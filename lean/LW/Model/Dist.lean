/-
  LW.Model.Dist — output probability distributions (C04).

  Mirrors emulator/backend/backend.py (Backend.full_probability_distribution, both backends),
  emulator/backend/slos.py and emulator/simulation/probability_distribution.py (pdist_calc, State
  variant).  Generic in the amplitude type `K` and the probability type `Q` with a squared-modulus
  map `nsq : K → Q`; the driver runs it at `K = GQ`, `Q = Rat`.

  SLOS: the code's ladder operator multiplies by `√(new count)` at every layer and finally by
  `1/√(s!)`.  The executable model tracks the √-free quantity `φ(t) = ψ(t)/√(t!)`, whose layer step
  is `φ'(t) = Σ_j U[j,i]·φ(t − e_j)`; the probability is `|φ(t)|²·t!/s!` (DESIGN §5 C04).
-/
import LW.Model.Fock

namespace LW

/-- insertion-ordered dictionary `State → probability` -/
abbrev PDist (Q : Type) := List (FState × Q)

namespace PDist
variable {Q : Type} [Add Q]

def get? (d : PDist Q) (s : FState) : Option Q := (d.find? (·.1 == s)).map (·.2)

/-- `d[s] += p` (insert when absent) -/
def addTo (d : PDist Q) (s : FState) (p : Q) : PDist Q :=
  if d.any (·.1 == s) then d.map fun x => if x.1 == s then (s, x.2 + p) else x else d ++ [(s, p)]

def total [Zero Q] (d : PDist Q) : Q := d.foldl (fun acc x => acc + x.2) 0

end PDist

section
variable {K Q : Type} [Add K] [Mul K] [Zero K] [One K]
variable [Add Q] [Mul Q] [Sub Q] [Div Q] [Zero Q] [One Q] [NatCast Q] [LT Q] [DecidableLT Q]

/-- exact transition probability `|perm|² / (∏ s! ∏ t!)` -/
def transProb (nsq : K → Q) (U : M K) (inS outS : FState) : Q :=
  nsq (ampNum U inS outS) / ((ampNormSq inS outS : Nat) : Q)

/-- `Backend.full_probability_distribution`, backend `permanent`.
`nReal` = circuit modes, `U.n - nReal` = loss modes, `input` has length `nReal`. -/
def fullDistPermanent (nsq : K → Q) (eps : Q) (U : M K) (nReal : Nat) (input : FState) : PDist Q :=
  if photons input = 0 then [(List.replicate nReal 0, 1)]
  else
    let lossModes := U.n - nReal
    let inS := input ++ List.replicate lossModes 0
    let outs := fockBasis inS.length (photons inS)
    let pd : PDist Q := outs.foldl (fun pd o =>
      if photons (o.take nReal) = 0 then pd
      else
        let p := transProb nsq U inS o
        if eps < p then pd.addTo (o.take nReal) p else pd) []
    let tot := pd.total
    if tot < 1 ∧ lossModes > 0 then
      -- plain assignment in the code; the vacuum key cannot be present (it was skipped above)
      pd.filter (fun x => x.1 != List.replicate nReal 0) ++ [(List.replicate nReal 0, 1 - tot)]
    else pd

/-- one SLOS layer for a photon entering in mode `i`: `φ'(t + e_j) += U[j,i]·φ(t)` -/
def slosLayer (U : M K) (i : Nat) (dist : List (FState × K)) : List (FState × K) :=
  (List.range U.n).foldl (fun out j =>
    dist.foldl (fun out (t, v) =>
      let t' := t.set j (t.getD j 0 + 1)
      let x := v * U.get j i
      if out.any (·.1 == t') then out.map fun y => if y.1 == t' then (t', y.2 + x) else y
      else out ++ [(t', x)]) out) []

/-- all layers: `φ` after injecting every photon of `s` -/
def slosPhi (U : M K) (s : FState) : List (FState × K) :=
  (partitionIdx s).foldl (fun d i => slosLayer U i d) [(List.replicate U.n 0, 1)]

/-- `Backend.full_probability_distribution`, backend `slos` -/
def fullDistSlos (nsq : K → Q) (eps : Q) (U : M K) (nReal : Nat) (input : FState) : PDist Q :=
  if photons input = 0 then [(List.replicate nReal 0, 1)]
  else
    let lossModes := U.n - nReal
    let inS := input ++ List.replicate lossModes 0
    (slosPhi U inS).foldl (fun pd (t, v) =>
      let p := nsq v * ((factProd t : Nat) : Q) / ((factProd inS : Nat) : Q)
      if eps < p then pd.addTo (t.take nReal) p else pd) []

inductive BackendKind | permanent | slos
deriving DecidableEq, Repr

def fullDist (b : BackendKind) (nsq : K → Q) (eps : Q) (U : M K) (nReal : Nat) (input : FState) :
    PDist Q :=
  match b with
  | .permanent => fullDistPermanent nsq eps U nReal input
  | .slos => fullDistSlos nsq eps U nReal input

/-- `pdist_calc` (State variant, repaired vacuum bookkeeping): mixture over source inputs -/
def pdistCalc (b : BackendKind) (nsq : K → Q) (eps : Q) (U : M K) (nReal : Nat)
    (inputs : List (FState × Q)) : PDist Q :=
  let pd : PDist Q := inputs.foldl (fun pd (s, w) =>
    (fullDist b nsq eps U nReal s).foldl (fun pd (t, p) => pd.addTo t (p * w)) pd) []
  let tot := pd.total
  if tot < 1 ∧ U.n - nReal > 0 then pd.addTo (List.replicate nReal 0) (1 - tot) else pd

end

end LW
