/-
  LW.Model.GateTowers — the exact number rings over which the gate library is evaluated, and the
  gate library's constants in them.

  Base ring `S6 = ℤ[1/6]` (kernel-friendly: Int/Nat arithmetic only), towers of formal square
  roots on top:
      TCZ  = S6[√2][√3]                       CZ, CNOT
      TCZH = S6[√2][2^(1/4)][w][i]            CZ_Heralded, CNOT_Heralded   (w² = 3/√2 − 2)
      TCCZ = S6[√2][√3][√7][i]                CCZ, CCNOT
      T1   = ℚ[i][e^{iπ/4}]                   single-qubit gates (rational rotation parameters), SWAP
  The same constants records are used by the driver (correspondence check) and by the kernel
  decisions in LW/Proofs/C13Tables.lean, so the objects compared with the code are literally the
  objects the theorems are about.
-/
import LW.Model.Quad
import LW.Model.Gates

namespace LW.Gates

open LW

/-! ### S6[√2] and friends -/

abbrev T2 := Quad S6 (⟨2, 0⟩ : S6)
def T2.ofS (x : S6) : T2 := Quad.lift x
/-- √2 -/
def T2.r2 : T2 := Quad.root
/-- 1/√2 = √2/2 -/
def T2.rh : T2 := ⟨0, S6.half⟩

/-! ### TCZ = S6[√2][√3] -/

abbrev TCZ := Quad T2 (Quad.lift ⟨3, 0⟩ : T2)
def TCZ.ofT2 (x : T2) : TCZ := Quad.lift x

def cCZ : GC TCZ where
  i := 0
  s2 := TCZ.ofT2 T2.r2
  rh := TCZ.ofT2 T2.rh
  half := TCZ.ofT2 (T2.ofS S6.half)
  third := TCZ.ofT2 (T2.ofS S6.third)
  s3i := ⟨0, T2.ofS S6.third⟩          -- √3/3
  q4i := 0
  w := 0
  s7 := 0
  t8 := 0
  t8c := 0

/-! ### TCZH = S6[√2][q][w][i],  q² = √2,  w² = (3/2)√2 − 2,  i² = −1 -/

abbrev TQ4 := Quad T2 (Quad.root : T2)
def wArg : TQ4 := Quad.lift ⟨⟨-2, 0⟩, ⟨9, 1⟩⟩        -- −2 + (3/2)·√2
abbrev TW := Quad TQ4 wArg
abbrev TCZH := Quad TW (Quad.lift (Quad.lift (Quad.lift (⟨-1, 0⟩ : S6))))
def TCZH.ofT2 (x : T2) : TCZH := Quad.lift (Quad.lift (Quad.lift x))

def cCZH : GC TCZH where
  i := Quad.root
  s2 := TCZH.ofT2 T2.r2
  rh := TCZH.ofT2 T2.rh
  half := TCZH.ofT2 (T2.ofS S6.half)
  third := TCZH.ofT2 (T2.ofS S6.third)
  s3i := 0
  q4i := Quad.lift (Quad.lift ⟨0, T2.rh⟩)   -- 2^(-1/4) = q·(√2/2)  (q·√2/2 = q³/2)
  w := Quad.lift Quad.root
  s7 := 0
  t8 := 0
  t8c := 0

/-! ### TCCZ = S6[√2][√3][√7][i] -/

abbrev T237 := Quad TCZ (Quad.lift (Quad.lift ⟨7, 0⟩) : TCZ)
abbrev TCCZ := Quad T237 (Quad.lift (Quad.lift (Quad.lift (⟨-1, 0⟩ : S6))))
def TCCZ.ofTCZ (x : TCZ) : TCCZ := Quad.lift (Quad.lift x)

def cCCZ : GC TCCZ where
  i := Quad.root
  s2 := TCCZ.ofTCZ cCZ.s2
  rh := TCCZ.ofTCZ cCZ.rh
  half := TCCZ.ofTCZ cCZ.half
  third := TCCZ.ofTCZ cCZ.third
  s3i := TCCZ.ofTCZ cCZ.s3i
  q4i := 0
  w := 0
  s7 := Quad.lift Quad.root
  t8 := 0
  t8c := 0

/-! ### T1 = ℚ[i][t],  t² = i  (t = e^{iπ/4}) -/

abbrev QI := Quad Rat (-1 : Rat)
abbrev T1 := Quad QI (Quad.root : QI)
def T1.ofQI (x : QI) : T1 := Quad.lift x
def T1.ofRat (x : Rat) : T1 := Quad.lift (Quad.lift x)

/-- `t8c = t⁻¹ = −i·t`, `√2 = t + t⁻¹ = (1 − i)·t`, `1/√2 = (1 − i)·t/2` -/
def c1 : GC T1 where
  i := T1.ofQI Quad.root
  s2 := ⟨0, ⟨1, -1⟩⟩
  rh := ⟨0, ⟨1/2, -1/2⟩⟩
  half := T1.ofRat (1/2)
  third := T1.ofRat (1/3)
  s3i := 0
  q4i := 0
  w := 0
  s7 := 0
  t8 := Quad.root
  t8c := ⟨0, ⟨0, -1⟩⟩

end LW.Gates
