/-
  LW.Model.QConvertSem — the two sides of the amplitude-level clause of C12, generic in the scalar
  type: the converted circuit assembled from the library's gates over `K` (`buildCirc`, the numeric
  counterpart of the structural fold in `convert`), and the ideal action of the qiskit instruction
  list on computational-basis amplitudes (`idealRun`).  Used by the statement
  `LW.C12.convert_correct_statement`; core Lean only.
-/
import LW.Model.QConvert

namespace LW.QC

open LW.Gates

variable {K : Type} [Add K] [Mul K] [Neg K] [Zero K] [One K]

/-- the single-qubit gate an instruction name stands for; `p` carries the rotation parameters
(`rx`/`ry`: (cos θ/2, sin θ/2); `rz`: (e^{-iθ/2}, e^{iθ/2}); `p`: (e^{iθ}, _)) -/
def sqOfName (name : String) (p : K × K) : SQ K :=
  if name = "h" then .H else if name = "x" then .X else if name = "y" then .Y
  else if name = "z" then .Z else if name = "s" then .S else if name = "sdg" then .Sadj
  else if name = "t" then .T else if name = "tdg" then .Tadj else if name = "sx" then .SX
  else if name = "rx" then .Rx p.1 p.2 else if name = "ry" then .Ry p.1 p.2
  else if name = "rz" then .Rz p.1 p.2 else if name = "p" then .P p.1 else .I

/-- the library gate a placement stands for, over `K` -/
def placedCircK (c : GC K) (par : Nat → K × K) : Placed → Except Err (Circ K × Int)
  | .single name idx mode => .ok (sqCirc c (sqOfName name (par idx)), mode)
  | .swap a b => do
      let g ← SWAP (K := K) [2 * a, 2 * a + 1] [2 * b, 2 * b + 1]
      return (g, 0)
  | .two cx ps target mode => do
      let g ← match cx, ps with
        | true, true => CNOT c target
        | true, false => CNOTH c target
        | false, true => CZ c
        | false, false => CZH c
      return (g, mode)
  | .three ccx target mode => do
      let g ← if ccx then CCNOT c target else CCZ c
      return (g, mode)

/-- the converted circuit: every placement added through `Circuit.add` on its user mode -/
def buildCirc (c : GC K) (par : Nat → K × K) (nq : Nat) (plan : List Placed) : Except Err (Circ K) :=
  plan.foldlM (fun (circ : Circ K) p => do
    let (g, mode) ← placedCircK c par p
    circ.add g mode false) (Circ.new (2 * nq))

/-! ### ideal semantics on computational-basis amplitudes `ψ : bit string → K` -/

def getBit (bs : List Bool) (q : Nat) : Bool := bs.getD q false

/-- `(G ψ)(b) = Σ_{b'} G[b, b'] ψ(b')` for a 2×2 matrix `m` on qubit `q` -/
def applySQ (m : Nat → Nat → K) (q : Nat) (ψ : List Bool → K) : List Bool → K :=
  fun b => m (getBit b q).toNat 0 * ψ (b.set q false) + m (getBit b q).toNat 1 * ψ (b.set q true)

def applyInstr (c : GC K) (par : Nat → K × K) (idx : Nat) (g : Instr) (ψ : List Bool → K) :
    List Bool → K :=
  match g.qubits with
  | [q] => applySQ (sqEntry c (sqOfName g.name (par idx))) q ψ
  | [a, b] =>
    if g.name = "swap" then fun bs => ψ ((bs.set a (getBit bs b)).set b (getBit bs a))
    else if g.name = "cx" then fun bs => ψ (if getBit bs a then bs.set b (!getBit bs b) else bs)
    else fun bs => if getBit bs a && getBit bs b then -(ψ bs) else ψ bs
  | [a, b, t] =>
    if g.name = "ccx" then
      fun bs => ψ (if getBit bs a && getBit bs b then bs.set t (!getBit bs t) else bs)
    else fun bs => if getBit bs a && getBit bs b && getBit bs t then -(ψ bs) else ψ bs
  | _ => ψ

/-- the instruction list applied in order, instruction indices counted from `idx` -/
def idealRun (c : GC K) (par : Nat → K × K) : Nat → List Instr → (List Bool → K) → (List Bool → K)
  | _, [], ψ => ψ
  | idx, g :: rest, ψ => idealRun c par (idx + 1) rest (applyInstr c par idx g ψ)

/-- the basis vector `|ib⟩` -/
def delta (ib : List Bool) : List Bool → K := fun b => if b = ib then 1 else 0

/-- bit string encoded by a dual-rail state -/
def unDualRail : List Nat → List Bool
  | a :: _ :: t => (a == 0) :: unDualRail t
  | _ => []

/-- the returned post-selection rules accept the output: one photon on each listed qubit -/
def accepted (rules : Option (List Nat)) (o : List Nat) : Bool :=
  match rules with
  | none => true
  | some qs => qs.all fun q => o.getD (2 * q) 0 + o.getD (2 * q + 1) 0 == 1

end LW.QC
