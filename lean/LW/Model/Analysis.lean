/-
  LW.Model.Analysis — post-selection rules, the Analyzer and the QuickSampler (C05).

  Mirrors sdk/utils/post_selection.py (PostSelection.validate / Rule.validate),
  emulator/simulation/analyzer.py and emulator/simulation/quick_sampler.py.
-/
import LW.Model.Dist

namespace LW

/-- one post-selection rule: total photons over `modes` must be one of `counts` -/
structure Rule where
  modes : List Nat
  counts : List Nat
deriving Repr, DecidableEq

def Rule.validate (r : Rule) (s : FState) : Bool :=
  r.counts.contains ((r.modes.map fun m => s.getD m 0).foldl (· + ·) 0)

/-- `PostSelection.validate`: all rules hold (no rules = `DefaultPostSelection`) -/
def psValidate (rules : List Rule) (s : FState) : Bool := rules.all (·.validate s)

section
variable {K Q : Type} [Add K] [Mul K] [Neg K] [Zero K] [One K]
variable [Add Q] [Mul Q] [Sub Q] [Div Q] [Zero Q] [One Q] [NatCast Q] [LT Q] [DecidableLT Q]

structure AnalysisResult (Q : Type) where
  outputs : List FState
  probs : List (List Q)
  performance : Q
  errorRate : Option Q

/-- `Analyzer._generate_outputs`: candidate user outputs (all photon numbers `≤ n` when lossy),
filtered by post-selection -/
def analyzerOutputs (rules : List Rule) (inputModes nPhotons : Nat) (lossy : Bool) : List FState :=
  let all := if lossy then (List.range (nPhotons + 1)).flatMap (fockBasis inputModes)
             else fockBasis inputModes nPhotons
  all.filter (psValidate rules)

/-- one entry of `Analyzer._get_probs`: probability of the full output `fo` (heralds inserted),
summed over all configurations of the lost photons on the loss modes -/
def analyzerProb (nsq : K → Q) (U : M K) (lossModes : Nat) (fin : FState) (fo : FState) :
    Except Err Q :=
  if lossModes = 0 then .ok (transProb nsq U fin fo)
  else if photons fin = photons fo then .ok (transProb nsq U fin (fo ++ List.replicate lossModes 0))
  else if photons fin < photons fo then .error .photonNumber
  else
    .ok ((fockBasis lossModes (photons fin - photons fo)).foldl
      (fun acc ls => acc + transProb nsq U fin (fo ++ ls)) 0)

def sumQ (l : List Q) : Q := l.foldl (· + ·) 0

/-- `Analyzer.analyze(inputs, expected)` (repaired: the output photon number is the user
input's; F31: an expected output listed more than once is counted once).  `expected`: per input,
the list of expected outputs. -/
def analyze (i : K) (nsq : K → Q) (c : Circ K) (rules : List Rule) (inputs : List (List Occ))
    (expected : Option (List (List FState))) : Except Err (AnalysisResult Q) := do
  let U := c.Ufull i
  let lossModes := U.n - c.n
  let im := c.inputModes
  -- photon numbers are compared before any validation
  let rawN := inputs.map fun s => (s.map fun | .int k => k | .bad => 0).foldl (· + ·) 0
  match rawN with
  | [] => throw .value
  | n0 :: _ => if rawN.any (· ≠ n0) then throw .photonNumber
  let ins ← inputs.mapM (validateState im)
  let fins := ins.map fun s => addHeralds s c.inHer ++ List.replicate lossModes 0
  let nPhot := match ins with
    | s :: _ => photons s
    | [] => 0
  let outs := analyzerOutputs rules im nPhot (lossModes != 0)
  if outs.isEmpty then throw .value
  let fouts := outs.map fun t => addHeralds t c.outHer
  let probs ← fins.mapM fun fi => fouts.mapM fun fo => analyzerProb nsq U lossModes fi fo
  let perf := sumQ (probs.map sumQ) / ((fins.length : Nat) : Q)
  let err := expected.map fun ex =>
    let errs := (probs.zip ex).map fun (row, exps) =>
      exps.eraseDups.foldl (fun e o =>
        match outs.idxOf? o with
        | some k => e - row.getD k 0 / sumQ row
        | none => e) 1
    sumQ errs / ((errs.length : Nat) : Q)
  return ⟨outs, probs, perf, err⟩

/-- `QuickSampler.probability_distribution`: photon-number-preserving conditional distribution -/
def quickDist (i : K) (nsq : K → Q) (eps : Q) (c : Circ K) (rules : List Rule) (pnr : Bool)
    (input : FState) : Except Err (PDist Q) := do
  if c.inputModes ≠ input.length then throw .value
  let U := c.Ufull i
  let lossModes := U.n - c.n
  let outs := fockBasis input.length (photons input)
  -- threshold detection keeps outputs with at most one photon per mode (repaired: `max(s) <= 1`)
  let outs := if pnr then outs else outs.filter fun s => s.all (· ≤ 1)
  let outs := outs.filter (psValidate rules)
  if outs.isEmpty then throw .value
  let fin := addHeralds input c.inHer ++ List.replicate lossModes 0
  let pd : PDist Q := outs.foldl (fun pd o =>
    let p := transProb nsq U fin (addHeralds o c.outHer ++ List.replicate lossModes 0)
    if eps < p then pd ++ [(o, p)] else pd) []
  if pd.isEmpty then throw .other
  let tot := sumQ (pd.map (·.2))
  return pd.map fun x => (x.1, x.2 / tot)

end

end LW
