/-
  LW.Model.ProcTomo — process tomography and gate fidelity (C16).

  Mirrors lightworks/tomography/{process_tomography, process_tomography_li,
  process_tomography_mle, gate_fidelity, utils, mappings}.py:
    `RHO_MAPPING`, `INPUT_MAPPING`, `TOMO_INPUTS`, `ProcessTomography._run_required_experiments`
    (through `runExperiments`), `LIProcessTomography.process` (transform matrix rows, the linear
    solve), `choi_from_unitary`, `MLETomographyAlgorithm._n_vec_from_data/_a_mat/_p_vec`,
    `GateFidelity.process/_calculate_alpha_and_u_basis`.

  Externals are parameters with explicit contracts:
    * `np.linalg.pinv(T) @ λ`   — for the invertible `T` of this file the unique solution of
                                   `T x = λ`; the model computes it in closed form (`liInverse`,
                                   from the dual bases of the input states and the Paulis) and the
                                   theorems show `liInverse` is the two-sided inverse of `liApply`;
    * `np.linalg.solve`         — the unique expansion coefficients of a Pauli string in the
                                   input density matrices (`alphaCoeff`, closed form);
    * the projected-gradient loop of `pgdb`, `eigh`, `sqrtm` — not modelled (DESIGN §10).

  F8 / F9: the definitions `choiFromUnitary` and `pVec` follow the REPAIRED code (column-stacking;
  no transpose); the pinned variants are kept as `choiFromUnitaryPinned`, `pVecPinned`.
  Core Lean only.
-/
import LW.Model.Tomo

namespace LW.Tomo

variable {K : Type}

/-! ### input states -/

inductive InLabel | Xp | Xm | Yp | Ym | Zp | Zm
deriving DecidableEq, Repr, Inhabited

def InLabel.toString : InLabel → String
  | .Xp => "X+" | .Xm => "X-" | .Yp => "Y+" | .Ym => "Y-" | .Zp => "Z+" | .Zm => "Z-"

def InLabel.parse? : String → Option InLabel
  | "X+" => some .Xp | "X-" => some .Xm | "Y+" => some .Yp | "Y-" => some .Ym
  | "Z+" => some .Zp | "Z-" => some .Zm | _ => none

/-- `TOMO_INPUTS` of `process_tomography_li.py` and `gate_fidelity.py` -/
def tomoInputsLI : List InLabel := [.Zp, .Zm, .Xp, .Yp]
/-- `TOMO_INPUTS` of `process_tomography_mle.py` -/
def tomoInputsMLE : List InLabel := [.Xp, .Xm, .Yp, .Ym, .Zp, .Zm]

abbrev Ins := List InLabel

def Ins.toString (l : Ins) : String := ",".intercalate (l.map InLabel.toString)

section Matrices
variable [Add K] [Mul K] [Neg K] [Zero K] [One K] [Inv K]

/-- `1/2` -/
def half : K := (1 + 1 : K)⁻¹

/-- `RHO_MAPPING` -/
def rhoM (i : K) : InLabel → M K
  | .Xp => mat2 half half half half
  | .Xm => mat2 half (-half) (-half) half
  | .Yp => mat2 half (-(i * half)) (i * half) half
  | .Ym => mat2 half (i * half) (-(i * half)) half
  | .Zp => mat2 1 0 0 0
  | .Zm => mat2 0 0 0 1

/-- `INPUT_MAPPING[label][0]`: 0 for `State([1,0])`, 1 for `State([0,1])` -/
def inputBit : InLabel → Nat
  | .Xp => 0 | .Xm => 1 | .Yp => 0 | .Ym => 1 | .Zp => 0 | .Zm => 1

/-- unitary of `INPUT_MAPPING[label][1]`: `H`, the circuit `H; S` (matrix `S·H`), `I` -/
def inputU (i h : K) : InLabel → M K
  | .Xp => hM h | .Xm => hM h
  | .Yp => (sM i).mul (hM h) | .Ym => (sM i).mul (hM h)
  | .Zp => M.one 2 | .Zm => M.one 2

def rhoKron (i : K) (ins : Ins) : M K := kronList (ins.map (rhoM i))

def scale (c : K) (A : M K) : M K := M.ofFn A.n fun r k => c * A.get r k
def madd (A B : M K) : M K := M.ofFn A.n fun r k => A.get r k + B.get r k
def conjM [HasConj K] (A : M K) : M K := M.ofFn A.n fun r k => conj (A.get r k)

/-- the channel of the unitary (or scaled unitary) `V`: `ρ ↦ V ρ V†` -/
def channel [HasConj K] (V rho : M K) : M K := (V.mul rho).mul V.dagger

/-! ### reference Choi matrix -/

/-- `choi_from_unitary` (repaired, F9): `np.outer(U.T.flatten(), conj(U.T.flatten()))`, i.e.
`C[(a,c),(b,d)] = V[c,a]·conj V[d,b]` — the convention under which
`E(ρ)[c,d] = Σ_{a,b} ρ[a,b] C[(a,c),(b,d)]`, the one linear inversion and MLE reconstruct -/
def choiFromUnitary [HasConj K] (V : M K) : M K :=
  M.ofFn (V.n * V.n) fun j k =>
    V.get (j % V.n) (j / V.n) * conj (V.get (k % V.n) (k / V.n))

/-- `choi_from_unitary` as pinned (`U.flatten()`, row-stacking) -/
def choiFromUnitaryPinned [HasConj K] (V : M K) : M K :=
  M.ofFn (V.n * V.n) fun j k =>
    V.get (j / V.n) (j % V.n) * conj (V.get (k / V.n) (k % V.n))

/-! ### linear inversion -/

/-- the Frobenius-type pairing `Σ_{j,k} A[j,k]·B[j,k]` (`row @ vec(B)`) -/
def pairing (A B : M K) : K := M.sumN A.n fun j => M.sumN A.n fun k => A.get j k * B.get j k

/-- the matrix whose flattening is the row of `transform_matrix` for `(in_s, meas)`:
`conj(vec(kron(conj ρ, P))) = vec(kron(ρ, conj P))` -/
def liRowMat [HasConj K] (i : K) (ins : Ins) (meas : Meas) : M K :=
  conjM (kron (conjM (rhoKron i ins)) (pauliKron i meas))

/-- `(transform_matrix @ vec(C))[(in_s, meas)]` -/
def liApply [HasConj K] (i : K) (C : M K) (ins : Ins) (meas : Meas) : K :=
  pairing (liRowMat i ins meas) C

/-- dual basis of `(Z+, Z-, X+, Y+)` under `pairing` -/
def dualRho (i : K) : InLabel → M K
  | .Zp => mat2 1 (-(half * (1 + i))) (-(half * (1 + -i))) 0
  | .Zm => mat2 0 (-(half * (1 + i))) (-(half * (1 + -i))) 1
  | .Xp => mat2 0 1 1 0
  | .Yp => mat2 0 i (-i) 0
  | _ => mat2 0 0 0 0

/-- dual basis of the conjugated Paulis: `P/2` -/
def dualPauli (i : K) (p : Pauli) : M K := scale half (pauliM i p)

/-- closed form of `pinv(transform_matrix) @ λ` reshaped to a matrix: the solution of
`liApply C = λ`.  `lams` is the item list of the `lambdas` dict. -/
def liInverse (i : K) (n : Nat) (lams : List ((Ins × Meas) × K)) : M K :=
  let terms := lams.map fun e =>
    (e.2, kron (kronList (e.1.1.map (dualRho i))) (kronList (e.1.2.map (dualPauli i))))
  M.ofFn (2 ^ n * 2 ^ n) fun j k => lsum (terms.map fun t => t.1 * t.2.get j k)

end Matrices

/-! ### running the experiments -/

section Run
variable [Add K] [Mul K] [Neg K] [Zero K] [One K] [Inv K] [DecidableEq K]

/-- `ProcessTomography._run_required_experiments(inputs)` as a function of the order in which
the required settings were enumerated and of the results the callback returned
(input-major, `order`-minor); returns the `full_results` item list -/
def runExperiments (n : Nat) (inputs : List Ins) (order : List Meas) (rs : List (Res K)) :
    Except Err (List ((Ins × Meas) × Res K)) := do
  let per := order.length
  -- `zip(req_measurements, results[per*i : per*(i+1)], strict=True)` raises on a short slice
  let sorted ← (inputs.zipIdx).mapM fun (ins, idx) =>
    let slice := (rs.drop (per * idx)).take per
    if slice.length ≠ per then throw .value else pure (ins, order.zip slice)
  let full ← sorted.mapM fun (ins, d) =>
    (tomoMeasurements n).mapM fun meas =>
      match lookup d (meas.map toZ) with
      | some r => pure ((ins, meas), r)
      | none => throw .other
  pure full.flatten

/-- `LIProcessTomography._calculate_expectation_values` -/
def expectationValues (full : List ((Ins × Meas) × Res K)) : Except Err (List ((Ins × Meas) × K)) :=
  full.mapM fun e => do
    let v ← expectation e.1.2 e.2
    pure (e.1, v)

/-- `LIProcessTomography.process()` -/
def liProcess (i : K) (n : Nat) (order : List Meas) (rs : List (Res K)) : Except Err (M K) := do
  let full ← runExperiments n (combineAll tomoInputsLI n) order rs
  let lams ← expectationValues full
  pure (liInverse i n lams)

/-! ### gate fidelity -/

/-- coefficients of the Pauli matrices in `(Z+, Z-, X+, Y+)`:  the solution of
`column_stack(vec ρ_k) α = vec(P)` (`np.linalg.solve`) -/
def alphaCoeff : Pauli → InLabel → K
  | .I, .Zp => 1 | .I, .Zm => 1
  | .Z, .Zp => 1 | .Z, .Zm => -1
  | .X, .Zp => -1 | .X, .Zm => -1 | .X, .Xp => 1 + 1
  | .Y, .Zp => -1 | .Y, .Zm => -1 | .Y, .Yp => 1 + 1
  | _, _ => 0

def lprod (l : List K) : K := l.foldr (· * ·) 1

/-- n-qubit coefficient: the product over the qubits -/
def alphaN (ps : Meas) (ins : Ins) : K := lprod ((ps.zip ins).map fun pi => alphaCoeff pi.1 pi.2)

/-- `list(PAULI_MAPPING)` order -/
def Pauli.basisOrder : List Pauli := [.I, .X, .Y, .Z]

variable [HasConj K]

/-- the sum of equation 19: `Σ_i Σ_j α_ij · tr(U · U_i† · U† · ρ_j)` and the fidelity.
`rhos` are the tomographically reconstructed output density matrices for `combineAll
tomoInputsLI n`, in that order. -/
def gateFidelityOf (i : K) (n : Nat) (target : M K) (rhos : List (Ins × M K)) : K :=
  let total := lsum ((combineAll Pauli.basisOrder n).map fun ps =>
    let uj := pauliKron i ps
    let m := (target.mul uj.dagger).mul target.dagger
    lsum (rhos.map fun ir => alphaN ps ir.1 * trace (m.mul ir.2)))
  let d : K := twoPow n
  (total + d * d) * (d * d * (d + 1))⁻¹

/-- `GateFidelity.process(target)` (before `np.real`) -/
def gateFidelity (i : K) (n : Nat) (order : List Meas) (rs : List (Res K)) (target : M K) :
    Except Err K := do
  let inputs := combineAll tomoInputsLI n
  let full ← runExperiments n inputs order rs
  let rhos ← inputs.mapM fun ins => do
    let mine := (full.filter fun e => e.1.1 == ins).map fun e => (e.1.2, e.2)
    let rho ← densityMatrix i n mine
    pure (ins, rho)
  -- `target @ conj(uj.T) @ ...` : numpy raises ValueError on a dimension mismatch
  if target.n ≠ 2 ^ n then throw .value
  pure (gateFidelityOf i n target rhos)

/-- the value the property names: `(|tr(U†V)|² + d) / (d(d+1))` -/
def avgGateFidelity (n : Nat) (target V : M K) : K :=
  let t := trace (target.dagger.mul V)
  let d : K := twoPow n
  (t * conj t + d) * (d * (d + 1))⁻¹

/-! ### maximum likelihood: the data pipeline handed to the optimiser -/

/-- `_n_vec_from_data` : `[(1+n)/2, (1-n)/2]` per (input, non-trivial measurement), divided by
`len(data)` -/
def nVec (n : Nat) (data : List ((Ins × Meas) × K)) : Except Err (List K) := do
  let len : K := lsum (data.map fun _ => (1 : K))
  let rows ← (combineAll tomoInputsMLE n).mapM fun ins =>
    (tomoMeasurements n true).mapM fun meas =>
      match (data.find? fun e => e.1 == (ins, meas)) with
      | some e => pure [(1 + e.2) * half * len⁻¹, (1 + -e.2) * half * len⁻¹]
      | none => throw .other /- KeyError -/
  pure rows.flatten.flatten

/-- the matrices whose flattenings are the two rows of `_a_mat` for `(in_s, meas)` -/
def aRowMats (i : K) (n : Nat) (ins : Ins) (meas : Meas) : M K × M K :=
  let id := M.one (2 ^ n)
  let obs := pauliKron i meas
  let c : K := (twoPow (2 * n))⁻¹
  (scale c (kron (rhoKron i ins) (scale half (madd id obs)).transpose),
   scale c (kron (rhoKron i ins) (scale half (madd id (scale (-1) obs))).transpose))

/-- `_p_vec(choi)` before clipping (repaired, F8: `A @ vec(choi)`) -/
def pVec (i : K) (n : Nat) (C : M K) : List K :=
  (combineAll tomoInputsMLE n).flatMap fun ins =>
    (tomoMeasurements n true).flatMap fun meas =>
      let ab := aRowMats i n ins meas
      [pairing ab.1 C, pairing ab.2 C]

/-- `_p_vec(choi)` as pinned: `A @ vec(choi.T)` -/
def pVecPinned (i : K) (n : Nat) (C : M K) : List K := pVec i n C.transpose

/-- `MLEProcessTomography.process()` up to the call of the optimiser: the `nij` dict -/
def mleData (n : Nat) (order : List Meas) (rs : List (Res K)) :
    Except Err (List ((Ins × Meas) × K)) := do
  let full ← runExperiments n (combineAll tomoInputsMLE n) order rs
  let keep := full.filter fun e => e.1.2 != List.replicate n Pauli.I
  expectationValues keep

end Run

end LW.Tomo
