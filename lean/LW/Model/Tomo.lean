/-
  LW.Model.Tomo — state tomography (C15).

  Mirrors lightworks/tomography/{utils,mappings,state_tomography}.py:
    `_combine_all`, `_get_tomo_measurements`, `_get_required_tomo_measurements`,
    `_calculate_expectation_value`, `_calculate_density_matrix`, `StateTomography.process`,
    `StateTomography._create_circuit`, `state_fidelity`, `density_from_state`,
    `PAULI_MAPPING`, `MEASUREMENT_MAPPING`.

  Scalar inputs: `i` (imaginary unit) and `h = 1/√2` are the exact results of the float
  expressions `1j` and `1 / 2**0.5` (DESIGN §3.1); theorems constrain them by `i² = -1`,
  `2h² = 1`.  Outcome counts are scalars of `K` (the code only adds, multiplies and divides them).

  The *specification* side is here too: `born` (outcome probabilities of a density operator after a
  basis change), `bornTable`, `densityOfState`.
  Core Lean only.
-/
import LW.Model.Circuit

namespace LW.Tomo

variable {K : Type} {α β : Type}

/-! ### measurement labels -/

inductive Pauli | X | Y | Z | I
deriving DecidableEq, Repr, Inhabited

/-- `list(MEASUREMENT_MAPPING.keys())` — the dict's insertion order -/
def Pauli.all : List Pauli := [.X, .Y, .Z, .I]

def Pauli.toString : Pauli → String
  | .X => "X" | .Y => "Y" | .Z => "Z" | .I => "I"

def Pauli.parse? : String → Option Pauli
  | "X" => some .X | "Y" => some .Y | "Z" => some .Z | "I" => some .I | _ => none

/-- a measurement string `"X,I,Z"` as the list of its operators -/
abbrev Meas := List Pauli

def Meas.toString (m : Meas) : String := ",".intercalate (m.map Pauli.toString)

/-- `k` rounds of the loop of `_combine_all` on a list: all sequences of length `k + 1`,
the last position varying fastest -/
def combos (vals : List α) : Nat → List (List α)
  | 0 => vals.map fun v => [v]
  | k + 1 => (combos vals k).flatMap fun v1 => vals.map fun v2 => v1 ++ [v2]

/-- `_combine_all(list, n)` (`range(n - 1)` is empty for `n ≤ 1`) -/
def combineAll (vals : List α) (n : Nat) : List (List α) := combos vals (n - 1)

/-- `_get_tomo_measurements(n_qubits, remove_trivial)` -/
def tomoMeasurements (n : Nat) (removeTrivial : Bool := false) : List Meas :=
  let all := combineAll Pauli.all n
  if removeTrivial then all.erase (List.replicate n .I) else all

/-- `c.replace("I", "Z")` -/
def toZ : Pauli → Pauli
  | .I => .Z
  | p => p

/-- the values of the `mapping` dict of `_get_required_tomo_measurements`, duplicates removed
(`set(mapping.values())`; the *order* of the resulting list is not determined by the code) -/
def requiredSet (n : Nat) (removeTrivial : Bool := false) : List Meas :=
  ((tomoMeasurements n removeTrivial).map fun c => c.map toZ).eraseDups

/-- specification: the `3ⁿ` settings over `{X, Y, Z}` -/
def requiredSpec (n : Nat) : List Meas := combineAll [.X, .Y, .Z] n

/-! ### matrices -/

section Matrices
variable [Add K] [Mul K] [Neg K] [Zero K] [One K]

def mat2 (a b c d : K) : M K :=
  M.ofFn 2 fun r k => if r = 0 then (if k = 0 then a else b) else (if k = 0 then c else d)

/-- `PAULI_MAPPING` -/
def pauliM (i : K) : Pauli → M K
  | .I => mat2 1 0 0 1
  | .X => mat2 0 1 1 0
  | .Y => mat2 0 (-i) i 0
  | .Z => mat2 1 0 0 (-1)

/-- `np.kron` -/
def kron (A B : M K) : M K :=
  M.ofFn (A.n * B.n) fun r k => A.get (r / B.n) (k / B.n) * B.get (r % B.n) (k % B.n)

/-- `mat = m[0]; for g in m[1:]: mat = np.kron(mat, g)` -/
def kronList : List (M K) → M K
  | [] => M.one 1
  | m :: ms => ms.foldl kron m

/-- tensor product of the Pauli matrices of a measurement string -/
def pauliKron (i : K) (ps : Meas) : M K := kronList (ps.map (pauliM i))

/-- `qubit.H().U`, `qubit.S().U`, `qubit.Z().U` with `h = 1/√2` -/
def hM (h : K) : M K := mat2 h h h (-h)
def sM (i : K) : M K := mat2 1 0 0 i
def zM : M K := mat2 1 0 0 (-1)

/-- unitary of `MEASUREMENT_MAPPING[g]`: `H` for X, the circuit `S; Z; H` (matrix `H·Z·S`)
for Y, the identity for Z and I -/
def measU (i h : K) : Pauli → M K
  | .X => hM h
  | .Y => (hM h).mul (zM.mul (sM i))
  | .Z => M.one 2
  | .I => M.one 2

/-- the n-qubit basis change of a measurement setting -/
def settingU (i h : K) (s : Meas) : M K := kronList (s.map (measU i h))

variable [HasConj K]

/-- Born rule: probability of the computational outcome `b` when the density operator `rho0` is
measured after the basis change `U`:  `(U ρ₀ U†)[b, b]` -/
def born (U rho0 : M K) (b : Nat) : K :=
  M.sumN U.n fun a => M.sumN U.n fun a' => U.get b a * rho0.get a a' * conj (U.get b a')

/-- `density_from_state`: `np.outer(state, conj(state))` -/
def densityOfState (d : Nat) (psi : Nat → K) : M K := M.ofFn d fun r k => psi r * conj (psi k)

def trace (A : M K) : K := M.sumN A.n fun a => A.get a a

end Matrices

/-! ### dual-rail outcomes -/

/-- the dual-rail Fock state of the `n`-qubit computational basis state `b` (qubit 0 = most
significant bit): `|1,0⟩` for 0, `|0,1⟩` for 1 -/
def dualRail : Nat → Nat → List Nat
  | 0, _ => []
  | n + 1, b => dualRail n (b / 2) ++ (if b % 2 = 0 then [1, 0] else [0, 1])

/-- measured results of one experiment: output state ↦ counts, as the item list of the dict -/
abbrev Res (K : Type) := List (List Nat × K)

/-- `state[2j : 2j+2]` (Python slicing truncates silently) -/
def pairAt (state : List Nat) (j : Nat) : List Nat := (state.drop (2 * j)).take 2

section Mult
variable [Neg K] [One K] [Mul K]

/-- one factor of the eigenvalue multiplier (`±1`): `I` never looks at the state -/
def multOne (g : Pauli) (state : List Nat) (j : Nat) : Except Err K :=
  if g = .I ∨ pairAt state j = [1, 0] then .ok 1
  else if pairAt state j = [0, 1] then .ok (-1)
  else .error .value

/-- the loop `for j, gate in enumerate(measurement.split(","))`, first offending position raises -/
def multGo (state : List Nat) : Nat → Meas → Except Err K
  | _, [] => .ok 1
  | j, g :: gs => do
      let m ← multOne g state j
      let r ← multGo state (j + 1) gs
      pure (m * r)

def multiplier (meas : Meas) (state : List Nat) : Except Err K := multGo state 0 meas

end Mult

section Process
variable [Add K] [Mul K] [Neg K] [Zero K] [One K] [Inv K] [DecidableEq K]

def lsum (l : List K) : K := l.foldr (· + ·) 0

/-- `2ⁿ` in `K` -/
def twoPow : Nat → K
  | 0 => 1
  | n + 1 => twoPow n * (1 + 1)

/-- `_calculate_expectation_value(measurement, results)`.
An invalid dual-rail pair under a non-`I` operator raises `ValueError`; an empty result (or
counts summing to zero) ends in Python's `ZeroDivisionError`, modelled as `.other`. -/
def expectation (meas : Meas) (results : Res K) : Except Err K := do
  let terms ← results.mapM fun sc => do
    let m ← multiplier meas sc.1
    pure (m * sc.2)
  let nCounts := lsum (results.map (·.2))
  if nCounts = 0 then .error .other /- ZeroDivisionError -/ else pure (lsum terms * nCounts⁻¹)

/-- `_calculate_density_matrix(results, n_qubits)`; `results` is the item list of the dict
`measurement ↦ result` in iteration order -/
def densityMatrix (i : K) (n : Nat) (results : List (Meas × Res K)) : Except Err (M K) := do
  let ws ← results.mapM fun mr => do
    let e ← expectation mr.1 mr.2
    pure (e * (twoPow n)⁻¹, pauliKron i mr.1)
  pure (M.ofFn (2 ^ n) fun r k => lsum (ws.map fun wm => wm.1 * wm.2.get r k))

/-- `dict(zip(keys, values, strict=True))[key]` for duplicate-free keys -/
def lookup (d : List (Meas × β)) (key : Meas) : Option β := (d.find? (·.1 == key)).map (·.2)

/-- `StateTomography.process()` as a function of the order in which the implementation's
`list(set(...))` enumerated the required settings (`order`, which the experiment callback sees as
the order of its circuit list) and of the results the callback returned (`rs`, same order).
`zip(..., strict=True)` raises `ValueError` on a length mismatch. -/
def process (i : K) (n : Nat) (order : List Meas) (rs : List (Res K)) : Except Err (M K) := do
  if order.length ≠ rs.length then throw .value
  let d := order.zip rs
  let full ← (tomoMeasurements n).mapM fun c =>
    match lookup d (c.map toZ) with
    | some r => pure (c, r)
    | none => throw .other /- KeyError: cannot happen when `order` holds the required settings -/
  densityMatrix i n full

variable [HasConj K]

/-- noiseless experiment for setting `s` on the density operator `rho0`: every computational
outcome with its Born probability as count -/
def bornTable (i h : K) (n : Nat) (rho0 : M K) (s : Meas) : Res K :=
  (List.range (2 ^ n)).map fun b => (dualRail n b, born (settingU i h s) rho0 b)

/-- `state_fidelity(rho, rho_exp)` with the external `scipy.linalg.sqrtm` as a parameter
(`abs` omitted: the trace is compared with 1 directly); dimension mismatch → `ValueError` -/
def stateFidelity (sqrtm : M K → M K) (rho rhoExp : M K) : Except Err K :=
  let root := sqrtm rho
  if root.n ≠ rhoExp.n then .error .value
  else .ok (trace (sqrtm ((root.mul rhoExp).mul root)))

end Process

/-- `StateTomography.__init__` / `ProcessTomography.__init__`: the checks in the order the code
makes them (the three flags stand for the `isinstance` tests) -/
def init (nIsInt baseIsCircuit expIsFunction : Bool) (nQubits inputModes : Nat) : Except Err Unit :=
  if !nIsInt then .error .type
  else if !baseIsCircuit then .error .type
  else if 2 * nQubits ≠ inputModes then .error .value
  else if !expIsFunction then .error .type
  else .ok ()

/-! ### the circuits handed to the experiment callback -/

section Circuits
variable [Add K] [Mul K] [Neg K] [Zero K] [One K]

/-- a `Unitary(u)` object: a circuit holding one unitary component on mode 0 -/
def unitaryCirc (u : M K) : Circ K := { n := u.n, spec := [.prim (.unitary 0 u)] }

/-- `MEASUREMENT_MAPPING` as circuits: `qubit.H()`, the 2-mode circuit `S; Z; H`, `qubit.I()` -/
def measCirc (i h : K) : Pauli → Circ K
  | .X => unitaryCirc (hM h)
  | .Y => { n := 2, spec := [.prim (.unitary 0 (sM i)), .prim (.unitary 0 zM),
                              .prim (.unitary 0 (hM h))] }
  | .Z => unitaryCirc (M.one 2)
  | .I => unitaryCirc (M.one 2)

def addAll (c : Circ K) : Nat → List (Circ K) → Except Err (Circ K)
  | _, [] => .ok c
  | k, op :: ops => do
      let c' ← c.add op (2 * (k : Int)) false
      addAll c' (k + 1) ops

/-- `StateTomography._create_circuit(measurement_operators)` -/
def createCircuit (nQubits : Nat) (base : Circ K) (ops : List (Circ K)) : Except Err (Circ K) :=
  if ops.length ≠ nQubits then .error .value else addAll base.copy 0 ops

/-- the list of circuits `process()` hands to the experiment callback, in `order` -/
def requestedCircuits (i h : K) (nQubits : Nat) (base : Circ K) (order : List Meas) :
    Except Err (List (Circ K)) :=
  order.mapM fun s => createCircuit nQubits base (s.map (measCirc i h))

end Circuits

/-! ### qubit-level state preparation (specification of "the state the base circuit prepares") -/

section Prep
variable [Add K] [Mul K] [Neg K] [Zero K] [One K]

inductive Gate (K : Type)
  | u1 (q : Nat) (m : M K)        -- single-qubit unitary on qubit `q`
  | cz (q1 q2 : Nat)
  | cnot (ctrl tgt : Nat)
  | swap (q1 q2 : Nat)

def bitOf (n q a : Nat) : Nat := (a / 2 ^ (n - 1 - q)) % 2
def setBit (n q a x : Nat) : Nat := a - bitOf n q a * 2 ^ (n - 1 - q) + x * 2 ^ (n - 1 - q)

def Gate.apply (n : Nat) (psi : Array K) : Gate K → Array K
  | .u1 q m => Array.ofFn (n := 2 ^ n) fun a =>
      m.get (bitOf n q a) 0 * psi.getD (setBit n q a 0) 0 + m.get (bitOf n q a) 1 * psi.getD (setBit n q a 1) 0
  | .cz q1 q2 => Array.ofFn (n := 2 ^ n) fun a =>
      if bitOf n q1 a = 1 ∧ bitOf n q2 a = 1 then -(psi.getD a 0) else psi.getD a 0
  | .cnot c t => Array.ofFn (n := 2 ^ n) fun a =>
      if bitOf n c a = 1 then psi.getD (setBit n t a (1 - bitOf n t a)) 0 else psi.getD a 0
  | .swap q1 q2 => Array.ofFn (n := 2 ^ n) fun a =>
      psi.getD (setBit n q2 (setBit n q1 a (bitOf n q2 a)) (bitOf n q1 a)) 0

/-- state vector prepared from `|0…0⟩` -/
def prepare (n : Nat) (gs : List (Gate K)) : Array K :=
  gs.foldl (Gate.apply n) (Array.ofFn (n := 2 ^ n) fun a => if a.val = 0 then 1 else 0)

end Prep

end LW.Tomo
