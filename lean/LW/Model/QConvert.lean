/-
  LW.Model.QConvert — decision logic of lightworks/qubit/converter/qiskit_convert.py.

  A qiskit circuit is abstracted to its instruction list (gate name, qubit indices); the rotation
  angle does not influence any decision.  The model produces
    * the refusal (exception class) or
    * the *plan*: which library gate (heralded or post-selected variant, target option) is added on
      which user mode, including the SWAPs inserted to make two qubits adjacent, the per-gate
      post-selection flags, the qubits that receive a final post-selection rule, and
    * the bookkeeping of the resulting circuit (modes, heralds) through the `Circ` model of
      `Circuit.add`, run over the trivial scalar `Triv` (structure only, no numbers).

  `postSelectionAnalyzer` follows the REPAIRED rule (F2: a gate may be post-selected iff at most one
  of its qubits is touched by a later multi-qubit gate); the rule of the pinned code
  (`not all(q in has_ps …)`) is kept as `fixed := false` for the regression theorem.
-/
import LW.Model.Gates

namespace LW.QC

open LW.Gates

/-- scalar with no information: runs the `Circ` bookkeeping without numbers -/
structure Triv where
deriving DecidableEq, Repr
instance : Zero Triv := ⟨⟨⟩⟩
instance : One Triv := ⟨⟨⟩⟩
instance : Add Triv := ⟨fun _ _ => ⟨⟩⟩
instance : Mul Triv := ⟨fun _ _ => ⟨⟩⟩
instance : Neg Triv := ⟨fun _ => ⟨⟩⟩
def trivGC : GC Triv := ⟨⟨⟩, ⟨⟩, ⟨⟩, ⟨⟩, ⟨⟩, ⟨⟩, ⟨⟩, ⟨⟩, ⟨⟩, ⟨⟩, ⟨⟩⟩

/-- one instruction of `QuantumCircuit.data`: `operation.name` and the qubit indices
(`operation.num_qubits = qubits.length`) -/
structure Instr where
  name : String
  qubits : List Nat
deriving DecidableEq, Repr

def singleNames : List String := ["h", "x", "y", "z", "s", "sdg", "t", "tdg", "sx"]
def rotationNames : List String := ["rx", "ry", "rz", "p"]
def twoNames : List String := ["cx", "cz", "swap"]
def threeNames : List String := ["ccx", "ccz"]
/-- `ALLOWED_GATES` -/
def allowed : List String := singleNames ++ rotationNames ++ twoNames ++ threeNames

/-! ### convert_two_qubits_to_adjacent -/

/-- the `while new_upper - new_lower != 1` loop (entered with `upper > lower`) -/
def adjLoop : Nat → Nat → Nat → Nat × Nat
  | 0, up, lo => (up, lo)
  | fuel + 1, up, lo =>
    if up - lo = 1 then (up, lo)
    else
      let up' := up - 1
      if up' - lo = 1 then (up', lo) else adjLoop fuel up' (lo + 1)

/-- returns the adjacent pair (order of the two qubits preserved) and the qubit swaps -/
def toAdjacent (q0 q1 : Nat) : Nat × Nat × List (Nat × Nat) :=
  let hi := max q0 q1
  let lo := min q0 q1
  if hi - lo = 1 then (q0, q1, [])
  else
    let (up, low) := adjLoop (hi - lo) hi lo
    let swaps := (if lo ≠ low then [(lo, low)] else []) ++ (if hi ≠ up then [(hi, up)] else [])
    if q0 < q1 then (low, up, swaps) else (up, low, swaps)

/-! ### post_selection_analyzer -/

/-- flags for the instructions of the list and the qubits touched by its multi-qubit gates
(`has_ps`), computed from the end of the circuit backwards -/
def psAnalyze (fixed : Bool) : List Instr → List Bool × List Nat
  | [] => ([], [])
  | g :: rest =>
    let r := psAnalyze fixed rest
    if g.qubits.length ≥ 2 then
      let can :=
        if fixed then decide ((g.qubits.filter fun q => r.2.contains q).length ≤ 1)
        else !(g.qubits.all fun q => r.2.contains q)
      (can :: r.1, r.2 ++ g.qubits)
    else (false :: r.1, r.2)

/-- `list(set(has_ps))` up to order: sorted, duplicate-free -/
def dedupSorted (l : List Nat) : List Nat := (sortNat l).eraseDups

/-! ### the plan -/

inductive Placed
  /-- single-qubit gate (fixed or rotation) of instruction `idx` added on user mode `mode` -/
  | single (name : String) (idx : Nat) (mode : Nat)
  /-- `SWAP(modes[a], modes[b])` added on mode 0 -/
  | swap (a b : Nat)
  /-- `CNOT`/`CZ` (`ps`) or `CNOT_Heralded`/`CZ_Heralded` with the given target option -/
  | two (cx : Bool) (ps : Bool) (target : Nat) (mode : Nat)
  /-- `CCNOT(target)` / `CCZ` -/
  | three (ccx : Bool) (target : Nat) (mode : Nat)
deriving DecidableEq, Repr

/-- `_add_two_qubit_gate` -/
def placeTwo (name : String) (q0 q1 : Nat) (ps : Bool) : Except Err (List Placed) :=
  if name = "swap" then .ok [.swap q0 q1]
  else if name = "cx" ∨ name = "cz" then
    let (a, b, sw) := toAdjacent q0 q1
    let target := b - min a b
    let swaps := sw.map fun p => Placed.swap p.1 p.2
    .ok (swaps ++ [.two (name = "cx") ps (if name = "cx" then target else 0) (2 * min a b)] ++ swaps)
  else .error .value

/-- `_add_three_qubit_gate` -/
def placeThree (name : String) (q0 q1 q2 : Nat) (ps : Bool) : Except Err (List Placed) :=
  if name = "ccx" ∨ name = "ccz" then
    if !ps then .error .value
    else
      let mx := max q0 (max q1 q2)
      let mn := min q0 (min q1 q2)
      if mx - mn ≠ 2 then .error .value
      else .ok [.three (name = "ccx") (if name = "ccx" then q2 - mn else 0) (2 * mn)]
  else .error .value

/-- the body of the `for i, inst in enumerate(q_circuit.data)` loop for one instruction -/
def placeInstr (idx : Nat) (g : Instr) (ps : Bool) : Except Err (List Placed) :=
  if ¬ allowed.contains g.name then .error .value
  else match g.qubits with
    | [q] =>
      if singleNames.contains g.name ∨ rotationNames.contains g.name then .ok [.single g.name idx (2 * q)]
      else .error .other        -- KeyError in ROTATION_GATES_MAP (no standard gate reaches this)
    | [q0, q1] => placeTwo g.name q0 q1 ps
    | [q0, q1, q2] => placeThree g.name q0 q1 q2 ps
    | _ => .error .value

def placeAll : Nat → List Instr → List Bool → Except Err (List Placed)
  | _, [], _ => .ok []
  | idx, g :: rest, flags => do
    let here ← placeInstr idx g (flags.headD false)
    let later ← placeAll (idx + 1) rest flags.tail
    return here ++ later

/-- the library gate a placement stands for, as a circuit over the trivial scalar -/
def placedCirc (nq : Nat) : Placed → Except Err (Circ Triv × Int)
  | .single _ _ mode => .ok (sqCirc trivGC .I, mode)
  | .swap a b => do
      let c ← SWAP (K := Triv) [2 * a, 2 * a + 1] [2 * b, 2 * b + 1]
      let _ := nq
      return (c, 0)
  | .two cx ps target mode => do
      let c ← match cx, ps with
        | true, true => CNOT trivGC target
        | true, false => CNOTH trivGC target
        | false, true => CZ trivGC
        | false, false => CZH trivGC
      return (c, mode)
  | .three ccx target mode => do
      let c ← if ccx then CCNOT trivGC target else CCZ trivGC
      return (c, mode)

structure ConvOut where
  plan : List Placed
  flags : List Bool
  psQubits : Option (List Nat)     -- `none` = no PostSelection object returned
  circ : Circ Triv

/-- `QiskitConverter(allow_post_selection).convert(qc)`; `fixed` selects the repaired analyser -/
def convert (aps : Bool) (fixed : Bool) (nq : Nat) (instrs : List Instr) : Except Err ConvOut := do
  let an := psAnalyze fixed instrs
  let flags := if aps then an.1 else instrs.map fun _ => false
  let plan ← placeAll 0 instrs flags
  let circ ← plan.foldlM (fun (c : Circ Triv) p => do
      let (g, mode) ← placedCirc nq p
      c.add g mode false) (Circ.new (2 * nq))
  let qs := dedupSorted an.2
  let psq := if aps ∧ ¬ qs.isEmpty then some qs else none
  return { plan := plan, flags := flags, psQubits := psq, circ := circ }

/-! ### qubit relabelling by the inserted swaps (specification side) -/

def applySwap (p : Nat × Nat) (q : Nat) : Nat := if q = p.1 then p.2 else if q = p.2 then p.1 else q
/-- where qubit `q` sits after the swaps have been applied in order -/
def applySwaps (sw : List (Nat × Nat)) (q : Nat) : Nat := sw.foldl (fun q p => applySwap p q) q

/-! ### abstract photon-number semantics (per-qubit photon counts)

A configuration gives the number of photons in each qubit's pair of modes.  What an instruction can
do to it once converted, given what C13 establishes about the library:
  * single-qubit gates (2-mode unitaries) keep every qubit's count; a `swap` instruction exchanges
    the counts of its two qubits (the SWAPs inserted around a non-adjacent `cx`/`cz` are undone
    after the gate, so at the level of qiskit instructions they are invisible);
  * a post-selected gate may redistribute the photons among its own qubits arbitrarily (its vacuum
    heralds force the total to be conserved);
  * a heralded gate maps the all-ones configuration on its qubits to itself (C13: no accepted
    leakage) and is otherwise only known to conserve the total. -/

abbrev Config := Nat → Nat

/-- `c'` differs from `c` only on the qubits `qs`, and the total on `qs` is conserved -/
def redistributes (qs : List Nat) (c c' : Config) : Prop :=
  (∀ q, q ∉ qs → c' q = c q) ∧ (qs.map c).sum = (qs.map c').sum

/-- one qiskit instruction as a relation on configurations; `ps` = converted to the post-selected
variant -/
def stepRel (g : Instr) (ps : Bool) (c c' : Config) : Prop :=
  if g.qubits.length = 1 then c' = c
  else if g.name = "swap" then
    ∃ a b, g.qubits = [a, b] ∧ c' a = c b ∧ c' b = c a ∧ ∀ q, q ≠ a → q ≠ b → c' q = c q
  else
    redistributes g.qubits c c' ∧
      (ps = false → (∀ q ∈ g.qubits, c q = 1) → ∀ q ∈ g.qubits, c' q = 1)

/-- a run of the instruction list through configurations; the last argument lists the
configuration after each instruction -/
inductive Run : List Instr → List Bool → Config → List Config → Prop
  | nil (c : Config) : Run [] [] c []
  | cons (g : Instr) (f : Bool) (gs : List Instr) (fs : List Bool) (c c' : Config) (tr : List Config) :
      stepRel g f c c' → Run gs fs c' tr → Run (g :: gs) (f :: fs) c (c' :: tr)

/-- one photon in each of the first `nq` qubits -/
def AllOne (nq : Nat) (c : Config) : Prop := ∀ q, q < nq → c q = 1

/-- the configuration at the end of a run -/
def finalOf (c : Config) (tr : List Config) : Config := tr.getLastD c

end LW.QC
