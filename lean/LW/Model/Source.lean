/-
  LW.Model.Source — the imperfect single-photon source (C06).

  Mirrors  lightworks/emulator/components/source.py
             (Source._single_photon_distribution, _single_mode_distribution, _full_distribution,
              _remap_distribution, group_empty_modes, _build_statistics_basic, _build_statistics)
           lightworks/emulator/simulation/probability_distribution.py (annotated_state_pdist_calc)
           the `source` part of Sampler.probability_distribution.

  Exact parameters (DESIGN §3.1): the code computes `p_i = indistinguishability ** 0.5` and
  `p1 = purity_to_prob(purity)`, `p2 = 1 - p1`.  The model takes the RESULTS of those calls:
    `nu` = brightness, `p2` = two-photon weight (`p2 = 0` ⇔ purity = 1; for purity < 1 it is the root
    in (0,1) of `x² + b x + 1 = 0`, `b = 2(1 - 1/(1 - purity))`, i.e. `1 - purity = 2x/(1+x)²`),
    `pi` = √indistinguishability, `thr` = probability_threshold.
  Generic in the probability type `Q` (driver: `Rat`); annotated states are `SV.AState` (C18).

  Core Lean only.
-/
import LW.Model.Dist
import LW.Model.StateVal

namespace LW.Src

open LW.SV (AState sortInt)

/-- insertion-ordered dictionary `key → probability` (Python `dict`) -/
abbrev KD (α Q : Type) := List (α × Q)

namespace KD
variable {α Q : Type} [BEq α]

/-- `d[k] += p` (insert when absent) -/
def addTo [Add Q] (d : KD α Q) (k : α) (p : Q) : KD α Q :=
  if d.any (·.1 == k) then d.map fun x => if x.1 == k then (k, x.2 + p) else x else d ++ [(k, p)]

/-- `d[k] = p` (the position of an existing key is kept) -/
def setTo (d : KD α Q) (k : α) (p : Q) : KD α Q :=
  if d.any (·.1 == k) then d.map fun x => if x.1 == k then (k, p) else x else d ++ [(k, p)]

def get? (d : KD α Q) (k : α) : Option Q := (d.find? (·.1 == k)).map (·.2)

/-- `sum(d.values())` -/
def total [Add Q] [Zero Q] (d : KD α Q) : Q := d.foldl (fun acc x => acc + x.2) 0

/-- `for k, p in l: if k not in d: d[k] = p else: d[k] += p` starting from `{}` -/
def ofPairs [Add Q] (l : List (α × Q)) : KD α Q := l.foldl (fun d x => d.addTo x.1 x.2) []

end KD

/-- the source parameters as the code uses them (see the header) -/
structure Params (Q : Type) where
  nu : Q
  p2 : Q
  pi : Q
  thr : Q

section Table
variable {Q : Type} [Add Q] [Mul Q] [Sub Q] [Zero Q] [One Q]

def p1 (P : Params Q) : Q := 1 - P.p2
def pd (P : Params Q) : Q := 1 - P.pi

/-- nothing emitted -/
def c0 (P : Params Q) : Q := 1 - P.nu * (p1 P + P.p2 * P.nu + (1 + 1) * (1 - P.nu) * P.p2)
/-- the intended photon, indistinguishable -/
def c1 (P : Params Q) : Q := P.pi * P.nu * (p1 P + (1 - P.nu) * P.p2)
/-- the intended photon, distinguishable -/
def c1d (P : Params Q) : Q := pd P * P.nu * (p1 P + (1 - P.nu) * P.p2)
/-- only the (distinguishable) noise photon of a two-photon emission survives -/
def c1dp (P : Params Q) : Q := P.nu * (1 - P.nu) * P.p2
/-- indistinguishable photon + noise photon -/
def c12d (P : Params Q) : Q := P.nu * P.nu * P.pi * P.p2
/-- distinguishable photon + noise photon -/
def c1d2d (P : Params Q) : Q := P.nu * P.nu * pd P * P.p2

/-- the six emission outcomes of one photon with their labels (`dpc = ctr`, `mpc = ctr + 1`),
before the `p > 0` filter -/
def outcomeTable (P : Params Q) (ctr : Int) : List (List Int × Q) :=
  [([], c0 P), ([0], c1 P), ([ctr], c1d P), ([ctr + 1], c1dp P), ([0, ctr + 1], c12d P),
   ([ctr, ctr + 1], c1d2d P)]

variable [LT Q] [DecidableLT Q]

/-- `Source._single_photon_distribution` with `self._counter = ctr` (the caller advances the counter
by 2) -/
def singlePhoton (P : Params Q) (ctr : Int) : List (List Int × Q) :=
  (outcomeTable P ctr).filter fun x => decide (0 < x.2)

/-- `mode_dist` of `_single_mode_distribution` after `k` photons, the first one drawn at counter
`ctr` -/
def modeDist (P : Params Q) (ctr : Int) : Nat → List (List Int × Q)
  | 0 => []
  | k + 1 =>
    let md := modeDist P ctr k
    let cd := singlePhoton P (ctr + 2 * (k : Int))
    if md.isEmpty then cd
    else md.flatMap fun d1 => cd.map fun d2 => (d1.1 ++ d2.1, d1.2 * d2.2)

/-- `Source._single_mode_distribution(n)` at counter `ctr`; returns the dictionary and the new
counter -/
def singleMode (P : Params Q) (n : Nat) (ctr : Int) : KD AState Q × Int :=
  if n = 0 then ([(AState.new [[]], 1)], ctr)
  else
    (KD.ofPairs ((modeDist P ctr n).map fun d => (AState.new [sortInt d.1], d.2)),
      ctr + 2 * (n : Int))

end Table

/-- `group_empty_modes`: runs of ≥ 2 empty modes (a run reaching the last mode included), keyed by
their first mode, and the other modes of those runs.  The `while` loop counts the zeros from `i`
up to the first occupied mode or the end of the state. -/
def groupEmptyModes (s : FState) : List (Nat × List Nat) × List Nat :=
  (List.range s.length).foldl (fun (acc : List (Nat × List Nat) × List Nat) i =>
    if acc.2.contains i || i == s.length - 1 then acc
    else if s.getD i 0 == 0 then
      if s.getD (i + 1) 0 > 0 then acc
      else
        let n := ((s.drop i).takeWhile (· == 0)).length
        (acc.1 ++ [(i, (List.range n).map (· + i))],
         acc.2 ++ (List.range (n - 1)).map (· + (i + 1)))
    else acc) ([], [])

/-- `list(dict.fromkeys(l))` -/
def dedup {α : Type} [BEq α] (l : List α) : List α :=
  l.foldl (fun acc x => if acc.contains x then acc else acc ++ [x]) []

/-- all labels of an annotated state in order of first appearance -/
def labelsOf (a : AState) : List Int := dedup a.s.flatten

/-- one state of `_remap_distribution`: labels renamed to their rank of first appearance -/
def remapState (a : AState) : AState :=
  let labs := labelsOf a
  AState.new (a.s.map fun row => row.map fun m => (labs.idxOf m : Int))

section Stats
variable {Q : Type} [Add Q] [Mul Q] [Sub Q] [Div Q] [Zero Q] [One Q] [LT Q] [DecidableLT Q]

/-- `Source._full_distribution` (the counter starts at 1, see `_build_statistics_full`).
The dictionary comprehension over `input_dist` is a `map` (its keys are distinct and `+ e` keeps
them distinct); the double loop assigns `new_dist[s1 + s2] = p1 * p2`. -/
def fullDistribution (P : Params Q) (s : FState) : KD AState Q :=
  let ge := groupEmptyModes s
  ((List.range s.length).foldl (fun (acc : KD AState Q × Int) i =>
    if ge.2.contains i then acc
    else match ge.1.find? (·.1 == i) with
      | some g =>
        let e := AState.new (List.replicate g.2.length [])
        (if acc.1.isEmpty then [(e, 1)] else acc.1.map fun x => (x.1.add e, x.2), acc.2)
      | none =>
        let sm := singleMode P (s.getD i 0) acc.2
        (if acc.1.isEmpty then sm.1
         else acc.1.foldl (fun nd x =>
            sm.1.foldl (fun nd y => KD.setTo nd (x.1.add y.1) (x.2 * y.2)) nd) [],
         sm.2)) ([], 1)).1

/-- `Source._remap_distribution` -/
def remapDistribution (d : KD AState Q) : KD AState Q :=
  KD.ofPairs (d.map fun x => (remapState x.1, x.2))

/-- `Source._build_statistics_full` -/
def buildStatisticsFull (P : Params Q) (s : FState) : KD AState Q :=
  remapDistribution (fullDistribution P s)

def unitVec (n mode : Nat) : FState := (List.range n).map fun j => if mode = j then 1 else 0

/-- `Source._build_statistics_basic` (brightness only) -/
def buildStatisticsBasic (P : Params Q) (s : FState) : KD FState Q :=
  let n := s.length
  let stats : List (Q × FState) := (partitionIdx s).foldl (fun stats mode =>
      let subS := (P.nu, unitVec n mode) ::
        (if P.nu < 1 then [(1 - P.nu, List.replicate n 0)] else [])
      if stats.isEmpty then subS
      else stats.flatMap fun a => subS.map fun b => (a.1 * b.1, List.zipWith (· + ·) a.2 b.2)) []
  let d : KD FState Q := KD.ofPairs (stats.map fun x => (x.2, x.1))
  if d.isEmpty then [(s, 1)] else d

/-- the thresholding block of `_build_statistics` (`probability_threshold` is validated to lie in
[0,1], so its truthiness is `0 < thr`) -/
def applyThreshold {α : Type} (thr : Q) (d : KD α Q) : KD α Q :=
  if 0 < thr then
    let t := d.filter fun x => !decide (x.2 < thr)
    let total := t.foldl (fun acc x => acc + x.2) 0
    t.map fun x => (x.1, x.2 / total)
  else d

/-- what `_build_statistics` returns: a dictionary over `State` (basic path) or over
`AnnotatedState` (full path) -/
inductive Stats (Q : Type)
  | basic (d : KD FState Q)
  | full (d : KD AState Q)

def Stats.size : Stats Q → Nat
  | .basic d => d.length
  | .full d => d.length

def Stats.total : Stats Q → Q
  | .basic d => KD.total d
  | .full d => KD.total d

variable [DecidableEq Q]

/-- `Source._build_statistics`.  `purity == 1 and indistinguishability == 1` is `p2 = 0 ∧ pi = 1`.
A threshold that removes every input is rejected with ValueError (repaired code; the pinned code
returned an empty, un-normalised dictionary on which the Sampler failed inside `multimethod`). -/
def buildStatistics (P : Params Q) (s : FState) : Except Err (Stats Q) :=
  if P.p2 = 0 ∧ P.pi = 1 then
    let d := applyThreshold P.thr (buildStatisticsBasic P s)
    if d.isEmpty then .error .value else .ok (.basic d)
  else
    let d := applyThreshold P.thr (buildStatisticsFull P s)
    if d.isEmpty then .error .value else .ok (.full d)

/-- `Source.check_number` -/
def checkNumber (P : Params Q) (s : FState) : Except Err Nat :=
  (buildStatistics P s).map Stats.size

end Stats

/-! ### `annotated_state_pdist_calc` -/

/-- photons carrying label `lab`, per mode -/
def groupState (nReal : Nat) (a : AState) (lab : Int) : FState :=
  (List.range nReal).map fun i => (a.s.getD i []).count lab

/-- `input_combinations[state]`: one Fock state per label, in order of first appearance; the
vacuum for a state without photons -/
def groupsOf (nReal : Nat) (a : AState) : List FState :=
  let labs := labelsOf a
  if labs.isEmpty then [List.replicate nReal 0] else labs.map (groupState nReal a)

/-- `State.merge` on states of equal length -/
def mergeF (a b : FState) : FState := List.zipWith (· + ·) a b

section Pdist
variable {K Q : Type} [Add K] [Mul K] [Zero K] [One K]
variable [Add Q] [Mul Q] [Sub Q] [Div Q] [Zero Q] [One Q] [NatCast Q] [LT Q] [DecidableLT Q]

/-- the inner double loop: distribution of the merged output of two independent groups -/
def conv (d1 d2 : PDist Q) : PDist Q :=
  d1.foldl (fun nd x => d2.foldl (fun nd y => nd.addTo (mergeF x.1 y.1) (x.2 * y.2)) nd) []

/-- distribution of the merged output of independent groups with the given distributions
(`if not pdist: pdist = dict(unique_results[d]) else: …`) -/
def convAll (ds : List (PDist Q)) : PDist Q :=
  ds.foldl (fun pd d => if pd.isEmpty then d else conv pd d) []

/-- `annotated_state_pdist_calc` -/
def annotatedPdist (b : BackendKind) (nsq : K → Q) (eps : Q) (U : M K) (nReal : Nat)
    (inputs : KD AState Q) : PDist Q :=
  let combos := inputs.map fun x => (groupsOf nReal x.1, x.2)
  let uniq := dedup (combos.flatMap (·.1))
  let results := uniq.map fun s => (s, fullDist b nsq eps U nReal s)
  let look (s : FState) : PDist Q := ((results.find? (·.1 == s)).map (·.2)).getD []
  combos.foldl (fun (stats : PDist Q) (c : List FState × Q) =>
    (convAll (c.1.map look)).foldl (fun (stats : PDist Q) (o : FState × Q) =>
      stats.addTo o.1 (c.2 * o.2)) stats) []

variable [DecidableEq Q]

/-- the `source` part of `Sampler.probability_distribution`: `full` is the input state with the
herald photons already inserted -/
def samplerDistSrc (b : BackendKind) (nsq : K → Q) (eps : Q) (U : M K) (nReal : Nat)
    (P : Params Q) (full : FState) : Except Err (PDist Q) :=
  match buildStatistics P full with
  | .error e => .error e
  | .ok st =>
    let pd := match st with
      | .basic d => pdistCalc b nsq eps U nReal d
      | .full d => annotatedPdist b nsq eps U nReal d
    .ok (if pd.isEmpty then [(List.replicate nReal 0, 1)] else pd)

end Pdist


/-! ### `Source.__init__` validation -/

/-- a constructor argument as the user may supply it -/
inductive PyVal
  | num (r : Rat)
  | bool (b : Bool)
  | nan
  | other            -- str, None, list, … (not a Number; comparisons with a float raise TypeError)
deriving Repr, DecidableEq

/-- `quantity_check` -/
def quantityCheck : PyVal → Except Err Rat
  | .num r => if 0 ≤ r ∧ r ≤ 1 then .ok r else .error .value
  | .nan => .error .value
  | _ => .error .type

/-- the `purity` setter: range test `0.5 < value <= 1` first (a bool compares as 0/1, anything
non-numeric raises TypeError in the comparison), then `quantity_check` -/
def purityCheck : PyVal → Except Err Rat
  | .num r => if (1 : Rat) / 2 < r ∧ r ≤ 1 then quantityCheck (.num r) else .error .value
  | .bool true => .error .type
  | .bool false => .error .value
  | .nan => .error .value
  | .other => .error .type

/-- `Source(purity, brightness, indistinguishability, probability_threshold)`: the setters run in
this order, the first failure is raised -/
def validateSource (purity brightness indist thr : PyVal) : Except Err (Rat × Rat × Rat × Rat) := do
  let a ← purityCheck purity
  let b ← quantityCheck brightness
  let c ← quantityCheck indist
  let d ← quantityCheck thr
  return (a, b, c, d)

end LW.Src
