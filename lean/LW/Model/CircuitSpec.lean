/-
  LW.Model.CircuitSpec — the *specification* side of C01: the ordered product of the documented
  per-component transformations on the circuit's own modes, with a loss element acting as the
  amplitude factor `a = √(1-loss)` on its mode and a barrier as the identity.
-/
import LW.Model.Circuit

namespace LW

variable {K : Type} [Add K] [Mul K] [Neg K] [Zero K] [One K]

/-- documented `n × n` transformation of a leaf component -/
def Prim.specMat (i : K) (n : Nat) : Prim K → M K
  | .loss m a _ => embed1 n m a
  | p => p.mat i n

def flattenSpec (spec : List (Comp K)) : List (Prim K) := spec.flatMap Comp.toPrims

/-- product in insertion order (later components multiply from the left) -/
def orderedProd (i : K) (n : Nat) (ps : List (Prim K)) : M K :=
  ps.foldl (fun U p => (p.specMat i n).mul U) (M.one n)

def Circ.Uspec (i : K) (c : Circ K) : M K := orderedProd i c.n (flattenSpec c.spec)

end LW
