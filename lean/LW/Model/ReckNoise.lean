/-
  LW.Model.ReckNoise — the error model of the interferometers (C14): distributions as functions of
  a random tape, seed derivation, and the numerical parameters `Reck.map` programs.

  Mirrors lightworks/interferometers/error_model.py (`ErrorModel._set_random_seed`, `get_*`),
  dists/{constant,gaussian,top_hat}.py (`value`, `set_random_seed`, constructor validation) and
  the parameter arithmetic of reck.py (`(v + offset) % (2*pi)`, order of the draws).

  Randomness as a tape (DESIGN §3.3): the state of a distribution's private generator is the
  stream of raw variates it will produce next — uniforms in [0,1) (`rng.random()`) for TopHat,
  `rng.normal(center, deviation)` for Gaussian.  All numbers are rationals (every float is one).
-/
import LW.Model.Circuit

namespace LW
namespace Reck

inductive Dist
  | constant (v : Rat)
  | gaussian (center dev : Rat) (lo hi : Option Rat)   -- `none` = ∓∞
  | topHat (lo hi : Rat)
deriving Repr, DecidableEq

/-- `Gaussian(center, deviation, min_value, max_value)`: `ValueError` when `max < min` -/
def mkGaussian (center dev : Rat) (lo hi : Option Rat) : Except Err Dist :=
  match lo, hi with
  | some l, some h => if h < l then .error .value else .ok (.gaussian center dev lo hi)
  | _, _ => .ok (.gaussian center dev lo hi)

/-- `TopHat(min_value, max_value)`: `ValueError` when `max < min` -/
def mkTopHat (lo hi : Rat) : Except Err Dist :=
  if hi < lo then .error .value else .ok (.topHat lo hi)

/-- does the distribution have a `set_random_seed` method -/
def Dist.hasSeed : Dist → Bool
  | .constant _ => false
  | _ => true

abbrev Tape := List Rat

/-- negation of the resampling condition `val < min or val > max` -/
def inBounds (lo hi : Option Rat) (v : Rat) : Bool :=
  !(match lo with | some l => decide (v < l) | none => false) &&
  !(match hi with | some h => decide (v > h) | none => false)

/-- `Gaussian.value`: redraw until inside the bounds (`none`: the finite tape ran out) -/
def firstInBounds (lo hi : Option Rat) : Tape → Option (Rat × Tape)
  | [] => none
  | v :: t => if inBounds lo hi v then some (v, t) else firstInBounds lo hi t

/-- `Distribution.value()` as a function of the generator state -/
def Dist.value : Dist → Tape → Option (Rat × Tape)
  | .constant v, t => some (v, t)
  | .topHat _ _, [] => none
  | .topHat lo hi, u :: t => some (lo + (hi - lo) * u, t)
  | .gaussian _ _ lo hi, t => firstInBounds lo hi t

/-- the declared range of a distribution -/
def Dist.within : Dist → Rat → Prop
  | .constant v, x => x = v
  | .topHat lo hi, x => lo ≤ x ∧ x ≤ hi
  | .gaussian _ _ lo hi, x => inBounds lo hi x = true

/-- an `ErrorModel` with the generator state of each of its three distributions -/
structure EMS where
  bs : Dist
  loss : Dist
  off : Dist
  tBs : Tape
  tLoss : Tape
  tOff : Tape
deriving Repr

/-- `ErrorModel()` -/
def EMS.default : EMS := ⟨.constant (1 / 2), .constant 0, .constant 0, [], [], []⟩

/-- `_set_random_seed(seed)` for an integer seed.  `ints` is the stream
`default_rng(seed).integers(2**31-1)`, `gen k d` the stream of raw variates `default_rng(k)`
produces for distribution `d`.  A distribution without `set_random_seed` (Constant) is skipped
and consumes no integer. -/
def setRandomSeed (gen : Nat → Dist → Tape) (ints : List Nat) (e : EMS) : EMS :=
  let i1 := if e.bs.hasSeed then ints.tail else ints
  let i2 := if e.loss.hasSeed then i1.tail else i1
  { e with
    tBs := if e.bs.hasSeed then gen (ints.headD 0) e.bs else e.tBs
    tLoss := if e.loss.hasSeed then gen (i1.headD 0) e.loss else e.tLoss
    tOff := if e.off.hasSeed then gen (i2.headD 0) e.off else e.tOff }

/-- Python's `x % y` on reals for `y > 0` -/
def pmod (x y : Rat) : Rat := x - y * ((x / y).floor : Int)

/-- the angles `reck_decomposition` returns: `(theta, phi)` per cell in `phase_map` order, and
the residual phases -/
structure Angles where
  cells : List (Rat × Rat)
  ends : List Rat
deriving Repr

/-- parameters of one unit cell in component order: `ps(phi) bs(r1) ps(theta) bs(r2, loss)` -/
structure CellParams where
  phi : Rat
  r1 : Rat
  theta : Rat
  r2 : Rat
  loss : Rat
deriving Repr, DecidableEq

structure Programmed where
  cells : List CellParams
  ends : List Rat
deriving Repr, DecidableEq

/-- the comprehension over `phase_map.items()`: for every cell first the `bs_` entry (theta),
then the `ps_` entry (phi), one offset draw each -/
def offsetCells (twoPi : Rat) (d : Dist) : List (Rat × Rat) → Tape → Option (List (Rat × Rat) × Tape)
  | [], t => some ([], t)
  | (th, ph) :: rest, t => do
    let (o1, t) ← d.value t
    let (o2, t) ← d.value t
    let (r, t) ← offsetCells twoPi d rest t
    some ((pmod (th + o1) twoPi, pmod (ph + o2) twoPi) :: r, t)

def offsetEnds (twoPi : Rat) (d : Dist) : List Rat → Tape → Option (List Rat × Tape)
  | [], t => some ([], t)
  | p :: rest, t => do
    let (o, t) ← d.value t
    let (r, t) ← offsetEnds twoPi d rest t
    some (pmod (p + o) twoPi :: r, t)

/-- the construction loop: per cell two reflectivity draws and one loss draw -/
def drawCells (dBs dLoss : Dist) : List (Rat × Rat) → Tape → Tape →
    Option (List CellParams × Tape × Tape)
  | [], tb, tl => some ([], tb, tl)
  | (th, ph) :: rest, tb, tl => do
    let (r1, tb) ← dBs.value tb
    let (r2, tb) ← dBs.value tb
    let (l, tl) ← dLoss.value tl
    let (r, tb, tl) ← drawCells dBs dLoss rest tb tl
    some (⟨ph, r1, th, r2, l⟩ :: r, tb, tl)

/-- every numerical parameter of the mapped circuit, and the error model afterwards -/
def program (twoPi : Rat) (e : EMS) (A : Angles) : Option (Programmed × EMS) := do
  let (cells, tOff) ← offsetCells twoPi e.off A.cells e.tOff
  let (ends, tOff) ← offsetEnds twoPi e.off A.ends tOff
  let (cps, tBs, tLoss) ← drawCells e.bs e.loss cells e.tBs e.tLoss
  some (⟨cps, ends⟩, { e with tBs := tBs, tLoss := tLoss, tOff := tOff })

/-- `Reck.map(circuit, seed)` on the parameter level, for an integer seed -/
def mapParams (gen : Nat → Dist → Tape) (seedInts : Nat → List Nat) (twoPi : Rat)
    (e : EMS) (seed : Nat) (A : Angles) : Option (Programmed × EMS) :=
  program twoPi (setRandomSeed gen (seedInts seed) e) A

end Reck
end LW
