/-
  LW.Model.Rewrite — circuit rewrites (circuit_utils.py): swap compression and replacement of
  non-adjacent beam splitters.  (`unpackSpec` lives in LW.Model.Circuit.)
-/
import LW.Model.Circuit

namespace LW

variable {K : Type}

/-- `combine_mode_swap_dicts` -/
def combineSwapDicts (s1 s2 : Dict) : Dict :=
  -- first loop: every key of s1, composed with s2 where s1's value is a key of s2
  let part1 : Dict := s1.map fun p => (p.1, if s2.contains p.2 then s2.getD p.2 p.2 else p.2)
  let used : List Nat := (s1.filter fun p => s2.contains p.2).map (·.2)
  -- second loop: keys of s2 not used (assignment semantics: may overwrite an s1 key)
  let all : Dict := (s2.filter fun p => !used.contains p.1).foldl (fun d p => d.set p.1 p.2) part1
  all.filter fun p => p.1 != p.2

/-- modes a component blocks for swap motion -/
def Comp.blocked : Comp K → List Nat
  | .prim (.ps m _) => [m]
  | .prim (.loss m _ _) => [m]
  | .prim (.bs m1 m2 ..) => [m1, m2]
  | .prim (.unitary m u) => (List.range u.n).map (· + m)
  | .prim (.barrier _) => []
  | .prim (.swaps _) => []
  | .group _ m1 m2 _ _ => (List.range (m2 + 1 - m1)).map (· + m1)

/-- inner scan of `compress_mode_swaps` for the swap at index `i` with dictionary `σ`:
walks the later entries `(index, comp)`, returns the combined dictionary and the updated skip list -/
def compressScan : List (Nat × Comp K) → Dict → List Nat → List Nat → Dict × List Nat
  | [], σ, _, skip => (σ, skip)
  | (k, c) :: rest, σ, blocked, skip =>
    if skip.contains k then compressScan rest σ blocked skip
    else match c with
      | .prim (.swaps τ) =>
          if τ.keys.any blocked.contains then compressScan rest σ (blocked ++ τ.keys) skip
          else compressScan rest (combineSwapDicts σ τ) blocked (skip ++ [k])
      | c => compressScan rest σ (blocked ++ c.blocked) skip

def compressGo : List (Nat × Comp K) → List Nat → List (Comp K)
  | [], _ => []
  | (i, c) :: rest, skip =>
    if skip.contains i then compressGo rest skip
    else match c with
      | .prim (.swaps σ) =>
          let (σ', skip') := compressScan rest σ [] skip
          .prim (.swaps σ') :: compressGo rest skip'
      | c => c :: compressGo rest skip

/-- `compress_mode_swaps` (repaired: swaps already absorbed are ignored by later scans) -/
def compressSwaps (spec : List (Comp K)) : List (Comp K) :=
  compressGo ((List.range spec.length).zip spec) []

/-- swap dictionary bringing `lo` → `mid` and `hi` → `mid+1`, shifting the modes in between -/
def nonAdjSwaps (lo hi : Nat) : Dict :=
  let mid := (lo + hi - 1) / 2
  ((List.range (mid + 1 - lo)).map fun k => let i := lo + k; (i, if i = lo then mid else i - 1)) ++
  ((List.range (hi - mid)).map fun k => let i := mid + 1 + k; (i, if i = hi then mid + 1 else i + 1))

def Prim.convertNonAdj : Prim K → List (Prim K)
  | .bs m1 m2 c s cv =>
      if (m1 + 1 = m2) ∨ (m2 + 1 = m1) then [.bs m1 m2 c s cv]
      else
        let lo := min m1 m2
        let hi := max m1 m2
        let mid := (lo + hi - 1) / 2
        let σ := nonAdjSwaps lo hi
        let (a1, a2) := if m1 > m2 then (mid + 1, mid) else (mid, mid + 1)
        [.swaps σ, .bs a1 a2 c s cv, .swaps (Dict.ofPairs (σ.map fun p => (p.2, p.1)))]
  | p => [p]

/-- `convert_non_adj_beamsplitters` -/
def convertNonAdj (spec : List (Comp K)) : List (Comp K) :=
  spec.flatMap fun
    | .prim p => p.convertNonAdj.map .prim
    | .group cs m1 m2 hin hout => [.group (cs.flatMap Prim.convertNonAdj) m1 m2 hin hout]

namespace Circ
def compress (c : Circ K) : Circ K := { c with spec := compressSwaps c.spec }
def removeNonAdj (c : Circ K) : Circ K := { c with spec := convertNonAdj c.spec }
end Circ

end LW
