/-
  LW.Model.PCircuit — circuits whose component fields may be `Parameter` objects (C10).

  The existing circuit model (`Circ K`, its construction API and `heapStep`) is generic in the
  scalar type, so a parametrised circuit is simply a `Circ (Sym α K)` where a symbolic scalar

      Sym α K  =  lit k  |  view role (const v | param id)

  is either a known number or "the result of the float call `role` on the value held by that
  field" (DESIGN §3.1: √r, √(1-r), e^{iφ}).  Nothing of the bookkeeping (mode mapping, ancilla
  insertion, groups, copies) is re-implemented: a `Parameter` travels through `add`, `copy`,
  `__add__`, `unpack_groups` inside the fields of the components exactly as the Python object
  reference does.  Reading `U` resolves every field against the parameter store *at that moment*
  (`Sym.eval`), maps the circuit to a plain `Circ K` and runs the existing `compile`.

  The float functions themselves are parameters of the model (`Views`): trusted externals whose
  contract (rt x = √x, rt1 x = √(1-x), expi x = e^{ix}, unit x ↔ 0 ≤ x ≤ 1) is exercised by the
  correspondence check.

  Core Lean only.
-/
import LW.Model.Param
import LW.Model.Heap

namespace LW

/-- which float call the component applies to the field value -/
inductive Role | rt | rt1 | expi
deriving DecidableEq, Repr, Inhabited

/-- a component field: a constant Python value or a live `Parameter` -/
inductive PF (α : Type)
  | const (v : Val α)
  | param (id : Nat)
deriving DecidableEq, Repr, Inhabited

/-- symbolic scalar -/
inductive Sym (α K : Type)
  | lit (k : K)
  | view (r : Role) (src : PF α)
deriving DecidableEq, Repr

instance {α K : Type} [Zero K] : Zero (Sym α K) := ⟨.lit 0⟩
instance {α K : Type} [One K] : One (Sym α K) := ⟨.lit 1⟩
instance {α K : Type} [Zero K] : Inhabited (Sym α K) := ⟨.lit 0⟩

/-- the float functions the components apply to a numeric field value -/
structure Views (α K : Type) where
  /-- `0 <= x <= 1` -/
  unit : α → Bool
  /-- `x ** 0.5` = cos(arccos √x) -/
  rt : α → K
  /-- `(1 - x) ** 0.5` = sin(arccos √x) -/
  rt1 : α → K
  /-- `exp(1j * x)` -/
  expi : α → K

variable {α K K' : Type}

def PF.val (σ : Store α) : PF α → Val α
  | .const v => v
  | .param id => σ.val id

namespace Sym

/-- is the field usable by its component right now?  (`Loss.validate`, `BeamSplitter.validate`
on the current value, and the `TypeError` of arithmetic on a non-number) -/
def valid (ν : Views α K) (σ : Store α) : Sym α K → Bool
  | .lit _ => true
  | .view r src =>
    match src.val σ with
    | .other _ => false
    | .num x => match r with
      | .expi => true
      | _ => ν.unit x

/-- current numerical value of the field (0 where `valid` is false) -/
def eval [Zero K] (ν : Views α K) (σ : Store α) : Sym α K → K
  | .lit k => k
  | .view r src =>
    match src.val σ with
    | .other _ => 0
    | .num x => match r with
      | .rt => ν.rt x
      | .rt1 => ν.rt1 x
      | .expi => ν.expi x

/-- parameters referenced by the field -/
def ids : Sym α K → List Nat
  | .view _ (.param id) => [id]
  | _ => []

/-- `setattr(spec, name, value.get())` -/
def freeze (σ : Store α) : Sym α K → Sym α K
  | .view r (.param id) => .view r (.const (σ.val id))
  | s => s

end Sym

/-! ### functorial action of a scalar map on circuits -/

def M.map (f : K → K') (A : M K) : M K' := ⟨A.n, A.a.map fun row => row.map f⟩

def Prim.map (f : K → K') : Prim K → Prim K'
  | .bs m1 m2 c s cv => .bs m1 m2 (f c) (f s) cv
  | .ps m p => .ps m (f p)
  | .loss m a b => .loss m (f a) (f b)
  | .barrier ms => .barrier ms
  | .swaps σ => .swaps σ
  | .unitary m u => .unitary m (u.map f)

def Comp.map (f : K → K') : Comp K → Comp K'
  | .prim p => .prim (p.map f)
  | .group cs m1 m2 hin hout => .group (cs.map (Prim.map f)) m1 m2 hin hout

def Circ.map (f : K → K') (c : Circ K) : Circ K' :=
  { n := c.n, spec := c.spec.map (Comp.map f), inHer := c.inHer, outHer := c.outHer,
    extIn := c.extIn, extOut := c.extOut, internal := c.internal }

def CircOp.map (f : K → K') : CircOp K → CircOp K'
  | .new id n => .new id n
  | .unitary id u => .unitary id (u.map f)
  | .bs id m1 m2 cs cv l rv lv => .bs id m1 m2 (f cs.1, f cs.2) cv (l.map fun ab => (f ab.1, f ab.2)) rv lv
  | .ps id m p l lv => .ps id m (f p) (l.map fun ab => (f ab.1, f ab.2)) lv
  | .loss id m ab lv => .loss id m (f ab.1, f ab.2) lv
  | .barrier id ms => .barrier id ms
  | .swaps id sw => .swaps id sw
  | .herald id n i o => .herald id n i o
  | .add id sub m g => .add id sub m g
  | .plus dst a b => .plus dst a b
  | .copy dst src => .copy dst src
  | .unpack id => .unpack id
  | .compress id => .compress id
  | .nonadj id => .nonadj id

/-- the dataclass fields of a component that can hold a `Parameter` -/
def Prim.syms : Prim K → List K
  | .bs _ _ c s _ => [c, s]
  | .ps _ p => [p]
  | .loss _ a b => [a, b]
  | _ => []

/-- `unpack_circuit_spec` as a flat list of leaf components -/
def primsOf (spec : List (Comp K)) : List (Prim K) := spec.flatMap Comp.toPrims

/-- every symbolic field of a circuit, in spec order -/
def Circ.syms (c : Circ K) : List K := (primsOf c.spec).flatMap Prim.syms

abbrev PCirc (α K : Type) := Circ (Sym α K)

namespace PCirc

/-- `if p not in all_params: all_params.append(p)` -/
def addNew (acc : List Nat) (x : Nat) : List Nat := if acc.contains x then acc else acc ++ [x]

/-- `Circuit.get_all_params` -/
def getAllParams (c : PCirc α K) : List Nat := (c.syms.flatMap Sym.ids).foldl addNew []

/-- can every component be compiled with the current values? -/
def fieldsValid (ν : Views α K) (σ : Store α) (c : PCirc α K) : Bool :=
  c.syms.all (Sym.valid ν σ)

/-- the plain circuit the parametrised one stands for *now* -/
def resolve [Zero K] (ν : Views α K) (σ : Store α) (c : PCirc α K) : Circ K :=
  c.map (Sym.eval ν σ)

/-- `Circuit.U` : late binding, any failure inside `_build` becomes `CircuitCompilationError` -/
def readU [Add K] [Mul K] [Neg K] [Zero K] [One K] (ν : Views α K) (i : K) (σ : Store α)
    (c : PCirc α K) : Except Err (M K) :=
  if c.fieldsValid ν σ then .ok ((c.resolve ν σ).U i) else .error .compilation

/-- `Circuit.copy(freeze_parameters=True)` -/
def freeze (σ : Store α) (c : PCirc α K) : PCirc α K := c.map (Sym.freeze σ)

end PCirc

/-! ### construction calls with `Parameter` arguments -/

inductive ReflArg (α K : Type)
  | lit (c s : K) (valid : Bool)       -- a float r, given as (√r, √(1-r)); `valid` ↔ 0 ≤ r ≤ 1
  | param (id : Nat)

inductive PhiArg (α K : Type)
  | lit (p : K)                        -- a float φ, given as e^{iφ}
  | param (id : Nat)

inductive LossArg (α K : Type)
  | zero                               -- the default `loss=0`
  | lit (a b : K) (valid : Bool)       -- a float ℓ > 0, given as (√(1-ℓ), √ℓ)
  | param (id : Nat)

/-- `check_loss` on the current value of a parameter: `None` = passes -/
def checkLoss (ν : Views α K) (v : Val α) : Option Err :=
  match v with
  | .other _ => some .type
  | .num x => if ν.unit x then none else some .value

def ReflArg.fields : ReflArg α K → (Sym α K × Sym α K) × Bool
  | .lit c s valid => ((.lit c, .lit s), valid)
  -- a Parameter is not range-checked when the component is created
  | .param id => ((.view .rt (.param id), .view .rt1 (.param id)), true)

def PhiArg.field : PhiArg α K → Sym α K
  | .lit p => .lit p
  | .param id => .view .expi (.param id)

/-- the `(√(1-ℓ), √ℓ)` fields of the `Loss` elements to append (`none`: no element) and the
outcome of `check_loss` -/
def LossArg.fields (ν : Views α K) (σ : Store α) : LossArg α K → Option (Sym α K × Sym α K) × Option Err
  | .zero => (none, none)
  | .lit a b valid => (some (.lit a, .lit b), if valid then none else some .value)
  -- `isinstance(loss, Parameter) or loss > 0`: a Parameter always yields a Loss element
  | .param id => (some (.view .rt1 (.param id), .view .rt (.param id)), checkLoss ν (σ.val id))

/-- run a construction call whose `lossValid` flag is decided by `check_loss`; `check_loss` is the
first step of the call that can raise `ValueError`, so its exception class replaces that one -/
def withLossCheck {β : Type} (chk : Option Err) (f : Bool → Except Err β) : Except Err β :=
  match chk with
  | none => f true
  | some e =>
    match f false with
    | .error .value => .error e
    | r => r

namespace PCirc
variable [Zero K] [One K]

def bsP (ν : Views α K) (σ : Store α) (c : PCirc α K) (m1 m2 : Int) (r : ReflArg α K) (cv : Conv)
    (l : LossArg α K) : Except Err (PCirc α K) :=
  let (cs, rv) := r.fields
  let (lab, chk) := l.fields ν σ
  withLossCheck chk fun lv => Circ.bs c m1 m2 cs cv lab rv lv

def psP (ν : Views α K) (σ : Store α) (c : PCirc α K) (m : Int) (phi : PhiArg α K)
    (l : LossArg α K) : Except Err (PCirc α K) :=
  let (lab, chk) := l.fields ν σ
  withLossCheck chk fun lv => Circ.ps c m phi.field lab lv

/-- `Circuit.loss(mode, loss)` always appends a `Loss` element -/
def lossP (ν : Views α K) (σ : Store α) (c : PCirc α K) (m : Int) (l : LossArg α K) :
    Except Err (PCirc α K) :=
  let (lab, chk) := l.fields ν σ
  withLossCheck chk fun lv => Circ.loss c m (lab.getD (.lit 1, .lit 0)) lv

end PCirc

/-! ### the world of live objects and its history -/

structure World (α K : Type) where
  store : Store α := []
  dicts : List (String × PDict) := []
  circs : Heap (Sym α K) := []

inductive Fail
  | circ (e : Err)
  | par (e : PErr)
deriving DecidableEq, Repr

def Fail.toString : Fail → String
  | .circ e => e.toString
  | .par e => e.toString

inductive POp (α K : Type)
  | pNew (id : Nat) (v : Val α) (bounds : Option (List (Option (Val α))))
  | pSet (id : Nat) (v : Val α)
  | pMin (id : Nat) (b : Option (Val α))
  | pMax (id : Nat) (b : Option (Val α))
  | dNew (d : String) (items : List (String × Nat))
  | dSet (d key : String) (arg : DArg α)
  | dRemove (d key : String)
  /-- a construction / bookkeeping call without `Parameter` arguments (existing API model) -/
  | circ (op : CircOp (Sym α K))
  | bs (cid : String) (m1 m2 : Int) (r : ReflArg α K) (cv : Conv) (l : LossArg α K)
  | ps (cid : String) (m : Int) (phi : PhiArg α K) (l : LossArg α K)
  | loss (cid : String) (m : Int) (l : LossArg α K)
  | freeze (dst src : String)

namespace World

def getDict (w : World α K) (d : String) : Option PDict := (w.dicts.find? (·.1 == d)).map (·.2)
def setDict (w : World α K) (d : String) (pd : PDict) : World α K :=
  { w with dicts :=
      if w.dicts.any (·.1 == d) then w.dicts.map fun x => if x.1 == d then (d, pd) else x
      else w.dicts ++ [(d, pd)] }

variable [LT α] [DecidableLT α] [Zero K] [One K]

/-- write back the result of a parameter update -/
def updParam (w : World α K) (id : Nat) (r : Except PErr (Param α)) : World α K × Option Fail :=
  match r with
  | .ok p => ({ w with store := w.store.set id p }, none)
  | .error e => (w, some (.par e))

def updCirc (w : World α K) (cid : String) (r : Except Err (PCirc α K)) : World α K × Option Fail :=
  match r with
  | .ok c => ({ w with circs := Heap.set w.circs cid c }, none)
  | .error e => (w, some (.circ e))

/-- one call; `none` = the request names an unknown object (malformed, never sent) -/
def step (ν : Views α K) (w : World α K) : POp α K → Option (World α K × Option Fail)
  | .pNew id v bounds =>
      match w.store.get? id with
      | some _ => none
      | none => some (w.updParam id (Param.new v bounds))
  | .pSet id v => (w.store.get? id).map fun p => w.updParam id (p.set v)
  | .pMin id b => (w.store.get? id).map fun p => w.updParam id (p.setMin b)
  | .pMax id b => (w.store.get? id).map fun p => w.updParam id (p.setMax b)
  | .dNew d items =>
      if items.all fun kv => (w.store.get? kv.2).isSome then
        -- `ParameterDict(**kwargs)`: keyword names are distinct
        some (w.setDict d items, none)
      else none
  | .dSet d key arg => do
      let pd ← w.getDict d
      match ← pd.setItem w.store key arg with
      | .ok (.dict pd') => pure (w.setDict d pd', none)
      | .ok (.param id p) => pure ({ w with store := w.store.set id p }, none)
      | .error e => pure (w, some (.par e))
  | .dRemove d key => do
      let pd ← w.getDict d
      match pd.get? key with
      | none => pure (w, some (.par .key))
      | some _ => pure (w.setDict d (pd.remove key), none)
  | .circ op =>
      match heapStep w.circs op with
      | none => none
      | some (h', r) => some ({ w with circs := h' }, r.map Fail.circ)
  | .bs cid m1 m2 r cv l =>
      (Heap.get? w.circs cid).map fun c => w.updCirc cid (PCirc.bsP ν w.store c m1 m2 r cv l)
  | .ps cid m phi l =>
      (Heap.get? w.circs cid).map fun c => w.updCirc cid (PCirc.psP ν w.store c m phi l)
  | .loss cid m l =>
      (Heap.get? w.circs cid).map fun c => w.updCirc cid (PCirc.lossP ν w.store c m l)
  | .freeze dst src =>
      (Heap.get? w.circs src).map fun c => w.updCirc dst (.ok (PCirc.freeze w.store c))

/-- a whole history; outcomes collected in order -/
def run (ν : Views α K) : World α K → List (POp α K) → Option (World α K × List (Option Fail))
  | w, [] => some (w, [])
  | w, op :: ops => do
      let (w', r) ← step ν w op
      let (w'', rs) ← run ν w' ops
      pure (w'', r :: rs)

/-- `Circuit.U` of a live circuit -/
def readU [Add K] [Mul K] [Neg K] (ν : Views α K) (i : K) (w : World α K) (cid : String) :
    Option (Except Err (M K)) :=
  (Heap.get? w.circs cid).map fun c => PCirc.readU ν i w.store c

/-- `Circuit.get_all_params` of a live circuit -/
def allParams (w : World α K) (cid : String) : Option (List Nat) :=
  (Heap.get? w.circs cid).map PCirc.getAllParams

end World

end LW
