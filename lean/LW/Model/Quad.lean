/-
  LW.Model.Quad — formal quadratic extensions `K[√d]` and the towers used by the qubit gate
  library (DESIGN §3.2).  Core Lean only.

  `Quad K d` is the pair `a + b·√d`.  The ring operations need only the bare classes on `K`, so
  the same definition is
    * executed over `Rat` towers by the driver (exact, with inverses, decidable equality), and
    * evaluated by the kernel over `Int` towers (`decide +kernel`) in LW/Proofs/C13Tables.lean.
-/
import LW.Model.Scalar

namespace LW

/-- cheap syntactic zero test: `isZero x = true` must imply that `x` denotes 0 (it may answer
`false` on a zero).  It lets the tower arithmetic skip products with zero factors, which is what
makes the gate tables tractable for the kernel (the constants are sparse in the tower basis). -/
class ZTest (K : Type) where
  isZero : K → Bool

instance : ZTest Rat := ⟨fun x => x.num == 0⟩
instance : ZTest Int := ⟨fun x => x == 0⟩

structure Quad (K : Type) (d : K) where
  a : K
  b : K
deriving DecidableEq, Repr

namespace Quad
variable {K : Type} {d : K}

instance [ZTest K] : ZTest (Quad K d) := ⟨fun x => ZTest.isZero x.a && ZTest.isZero x.b⟩

instance [Zero K] : Zero (Quad K d) := ⟨⟨0, 0⟩⟩
instance [Zero K] [One K] : One (Quad K d) := ⟨⟨1, 0⟩⟩
-- the operations are named, non-inlined functions: inlining the instance lambdas through a
-- four-level tower makes the code generator blow up
@[noinline] protected def add [Add K] (x y : Quad K d) : Quad K d := ⟨x.a + y.a, x.b + y.b⟩
@[noinline] protected def neg [Neg K] (x : Quad K d) : Quad K d := ⟨-x.a, -x.b⟩
/-- product with zero-skipping: the four cases are the same formula
`(a + b√d)(a' + b'√d) = aa' + d·bb' + (ab' + ba')√d` with the terms known to vanish left out -/
@[noinline] protected def mul [Add K] [Mul K] [Zero K] [ZTest K] (x y : Quad K d) : Quad K d :=
  if ZTest.isZero x.b && ZTest.isZero y.b then ⟨x.a * y.a, 0⟩
  else if ZTest.isZero x.b then ⟨x.a * y.a, x.a * y.b⟩
  else if ZTest.isZero y.b then ⟨x.a * y.a, x.b * y.a⟩
  else ⟨x.a * y.a + d * (x.b * y.b), x.a * y.b + x.b * y.a⟩
instance [Add K] : Add (Quad K d) := ⟨Quad.add⟩
instance [Neg K] : Neg (Quad K d) := ⟨Quad.neg⟩
instance [Add K] [Mul K] [Zero K] [ZTest K] : Mul (Quad K d) := ⟨Quad.mul⟩
/-- inverse through the conjugate: `(a + b√d)⁻¹ = (a - b√d) / (a² - d b²)` -/
instance [Add K] [Mul K] [Neg K] [Inv K] [Zero K] [ZTest K] : Inv (Quad K d) :=
  ⟨fun x => let nrm := (x.a * x.a + -(d * (x.b * x.b)))⁻¹; ⟨x.a * nrm, -(x.b * nrm)⟩⟩

/-- the adjoined square root of `d` -/
def root [Zero K] [One K] : Quad K d := ⟨0, 1⟩
/-- the embedding `K → K[√d]` -/
def lift [Zero K] (x : K) : Quad K d := ⟨x, 0⟩

@[simp] theorem add_a [Add K] (x y : Quad K d) : (x + y).a = x.a + y.a := rfl
@[simp] theorem add_b [Add K] (x y : Quad K d) : (x + y).b = x.b + y.b := rfl
@[simp] theorem neg_a [Neg K] (x : Quad K d) : (-x).a = -x.a := rfl
@[simp] theorem neg_b [Neg K] (x : Quad K d) : (-x).b = -x.b := rfl
@[simp] theorem zero_a [Zero K] : (0 : Quad K d).a = 0 := rfl
@[simp] theorem zero_b [Zero K] : (0 : Quad K d).b = 0 := rfl
@[simp] theorem one_a [Zero K] [One K] : (1 : Quad K d).a = 1 := rfl
@[simp] theorem one_b [Zero K] [One K] : (1 : Quad K d).b = 0 := rfl

end Quad

/-- coefficients over the base ring in a fixed order (outermost generator = most significant
index bit): used by the driver to print tower elements and by the harness to evaluate them -/
class Coeffs (K : Type) (B : outParam Type) where
  coeffs : K → List B

instance : Coeffs Rat Rat := ⟨fun x => [x]⟩
instance : Coeffs Int Int := ⟨fun x => [x]⟩
instance {K B : Type} {d : K} [Coeffs K B] : Coeffs (Quad K d) B :=
  ⟨fun x => Coeffs.coeffs x.a ++ Coeffs.coeffs x.b⟩

end LW

namespace LW

/-- semantic equality test on representations that need not be canonical -/
class Eqv (K : Type) where
  eqv : K → K → Bool

instance : Eqv Rat := ⟨fun x y => x == y⟩
instance : Eqv Int := ⟨fun x y => x == y⟩
instance {K : Type} {d : K} [Eqv K] : Eqv (Quad K d) := ⟨fun x y => Eqv.eqv x.a y.a && Eqv.eqv x.b y.b⟩

/-- `n / 6^e`, not normalised: the ring `ℤ[1/6]`, whose arithmetic is `Int`/`Nat` arithmetic only
(no gcd), so that it reduces in the kernel.  All denominators of the gate library's constants
are of the form `2^a·3^b`. -/
structure S6 where
  n : Int
  e : Nat
deriving Repr

namespace S6
def pow6 (k : Nat) : Int := ((6 ^ k : Nat) : Int)
instance : Zero S6 := ⟨⟨0, 0⟩⟩
instance : One S6 := ⟨⟨1, 0⟩⟩
instance : Neg S6 := ⟨fun x => ⟨-x.n, x.e⟩⟩
instance : ZTest S6 := ⟨fun x => x.n == 0⟩
instance : Mul S6 := ⟨fun x y => if x.n == 0 || y.n == 0 then ⟨0, 0⟩ else ⟨x.n * y.n, x.e + y.e⟩⟩
instance : Add S6 :=
  ⟨fun x y =>
    if x.n == 0 then y else if y.n == 0 then x
    else ⟨x.n * pow6 (max x.e y.e - x.e) + y.n * pow6 (max x.e y.e - y.e), max x.e y.e⟩⟩
instance : Eqv S6 := ⟨fun x y => x.n * pow6 y.e == y.n * pow6 x.e⟩
def ofInt (n : Int) : S6 := ⟨n, 0⟩
/-- 1/2 = 3/6 and 1/3 = 2/6 -/
def half : S6 := ⟨3, 1⟩
def third : S6 := ⟨2, 1⟩
def toRat (x : S6) : Rat := (x.n : Rat) / ((6 ^ x.e : Nat) : Rat)
end S6

instance : Coeffs S6 Rat := ⟨fun x => [x.toRat]⟩

end LW
