/-
  LW.Model.Mat — materialised square matrices of run-time dimension.

  All matrix operations are written `M.ofFn n (fun i j => … A.get …)`; execution materialises
  arrays at each step, reasoning goes through the single lemma `M.get_ofFn` to plain functions
  `Nat → Nat → K` (LW/Proofs/MatAlg.lean).
-/
import LW.Model.Scalar

namespace LW

structure M (K : Type) where
  n : Nat
  a : Array (Array K)
deriving Repr

variable {K : Type}

namespace M

def get [Zero K] (A : M K) (i j : Nat) : K := (A.a.getD i #[]).getD j 0

def ofFn (n : Nat) (f : Nat → Nat → K) : M K :=
  ⟨n, Array.ofFn (n := n) fun i => Array.ofFn (n := n) fun j => f i.val j.val⟩

/-- `∑_{k<n} f k`, structurally recursive so that it reduces in the kernel -/
def sumN [Add K] [Zero K] : Nat → (Nat → K) → K
  | 0, _ => 0
  | n + 1, f => sumN n f + f n

variable [Add K] [Mul K] [Zero K] [One K]

def one (n : Nat) : M K := ofFn n fun i j => if i = j then 1 else 0

/-- matrix product at dimension `A.n` (callers keep dimensions equal) -/
def mul (A B : M K) : M K := ofFn A.n fun i j => sumN A.n fun k => A.get i k * B.get k j

/-- append `k` identity modes (numpy `pad` + `[-1,-1] = 1`) -/
def pad (A : M K) (k : Nat) : M K :=
  ofFn (A.n + k) fun i j => if i < A.n ∧ j < A.n then A.get i j else if i = j then 1 else 0

/-- leading `k × k` block -/
def lead (A : M K) (k : Nat) : M K := ofFn k fun i j => A.get i j

def dagger [HasConj K] (A : M K) : M K := ofFn A.n fun i j => conj (A.get j i)

def transpose (A : M K) : M K := ofFn A.n fun i j => A.get j i

/-- entries as a row-major list -/
def toList (A : M K) : List K :=
  (List.range A.n).flatMap fun i => (List.range A.n).map fun j => A.get i j

def beq [BEq K] (A B : M K) : Bool := A.n == B.n && A.toList == B.toList

end M

end LW
