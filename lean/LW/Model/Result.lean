/-
  LW.Model.Result — model of the result containers of C17.

  Mirrors  lightworks/emulator/results/simulation_result.py  (SimulationResult)
           lightworks/emulator/results/sampling_result.py    (SamplingResult)

  Python dictionaries keyed by `State` are insertion-ordered association lists; two keys are the
  same key when the States are equal (`__eq__`/`__hash__` go by contents, C18).  The value type `V`
  is generic (`Add`, `Zero`): the driver runs it on Gaussian rationals, the proofs on any additive
  commutative monoid.  KeyError / IndexError / ResultCreationError are `Err.other` (which one it is
  follows from the operation that raised it).
-/
import LW.Model.StateVal

namespace LW.Res

open LW.SV

abbrev St := SV.State

/-- Python dict with `State` keys -/
abbrev PD (β : Type) := List (St × β)

namespace PD
variable {β : Type}

/-- `d[k]` / `k in d` -/
def get? (d : PD β) (k : St) : Option β := List.lookup k d

/-- `d[k] = v`: overwrite in place when the key is present, else append -/
def set : PD β → St → β → PD β
  | [], k, v => [(k, v)]
  | (k', v') :: d, k, v => if k' = k then (k', v) :: d else (k', v') :: set d k v

def keys (d : PD β) : List St := d.map (·.1)
def vals (d : PD β) : List β := d.map (·.2)

/-- `dict(pairs)` -/
def ofPairs (ps : List (St × β)) : PD β := ps.foldl (fun d p => d.set p.1 p.2) []

end PD

/-! ### per-mode mappings -/

/-- threshold image of a state: `1 if s >= 1 else 0` per mode, then `1 - s` when inverted -/
def thr (inv : Bool) (s : St) : St :=
  ⟨s.s.map fun x => let b : Int := if 1 ≤ x then 1 else 0; if inv then 1 - b else b⟩

/-- parity image of a state: `s % 2` per mode (Python `%`: result in {0,1}), `1 - s % 2` inverted -/
def par (inv : Bool) (s : St) : St :=
  ⟨s.s.map fun x => if inv then 1 - x % 2 else x % 2⟩

inductive MapKind | threshold | parity
deriving DecidableEq, Repr

def MapKind.fn : MapKind → Bool → St → St
  | .threshold, inv => thr inv
  | .parity, inv => par inv

/-- the inner loop of both mappings: replace each output by its image, adding the value to the
entry already there -/
def accum {V : Type} [Add V] (f : St → St) (row : PD V) : PD V :=
  row.foldl (fun m p =>
    match m.get? (f p.1) with
    | some w => m.set (f p.1) (w + p.2)
    | none => m.set (f p.1) p.2) []

/-- first-occurrence de-duplication -/
def dedup : List St → List St
  | [] => []
  | x :: xs => x :: (dedup xs).filter (· ≠ x)

/-! ### SimulationResult -/

inductive RType | probability | amplitude
deriving DecidableEq, Repr

/-- a 2-d numpy array of shape `(r, c)` (rows of length `c`) -/
structure Arr (V : Type) where
  r : Nat
  c : Nat
  a : List (List V)
deriving Repr

def Arr.get {V : Type} [Zero V] (A : Arr V) (i j : Nat) : V := (A.a.getD i []).getD j 0

structure SimResult (V : Type) where
  rtype : RType
  inputs : List St
  outputs : List St
  array : Arr V
  dict : PD (PD V)

section Sim
variable {V : Type}

/-- `input_results[ostate] = array[i, j]` over the outputs -/
def buildRow (outs : List St) (row : List V) : PD V := PD.ofPairs (outs.zip row)

/-- `dict_results[istate] = input_results` over the inputs -/
def buildDict (ins outs : List St) (A : Arr V) : PD (PD V) :=
  PD.ofPairs (ins.zip (A.a.map (buildRow outs)))

/-- `SimulationResult(results, result_type, inputs, outputs)`; `rtype = none` is any string other
than the two valid ones; the three refusals are ResultCreationError -/
def SimResult.new (rtype : Option RType) (A : Arr V) (ins outs : List St) : Except Err (SimResult V) :=
  match rtype with
  | none => .error .other
  | some t =>
    if ins.length ≠ A.r then .error .other
    else if outs.length ≠ A.c then .error .other
    else .ok { rtype := t, inputs := ins, outputs := outs, array := A, dict := buildDict ins outs A }

/-- an element of a tuple subscript -/
inductive TElem | st (s : St) | none | bad
deriving Repr

/-- a subscript: a State, a tuple, anything else -/
inductive Item | st (s : St) | tup (l : List TElem) | bad
deriving Repr

inductive Out (V : Type) | row (d : PD V) | val (v : V)

/-- `SimulationResult.__getitem__` -/
def SimResult.getItem (r : SimResult V) : Item → Except Err (Out V)
  | .st s =>
    match r.dict.get? s with
    | none => .error .other  -- KeyError
    | some d => .ok (.row d)
  | .tup l =>
    if l.length > 2 then .error .value
    else match l with
      | [] => .error .other  -- `item[0]` IndexError
      | i :: rest =>
        let o := match rest with
          | [o] => o
          | _ => TElem.none
        match i, o with
        | .st is, .st os =>
          match r.dict.get? is with
          | none => .error .other  -- KeyError
          | some d =>
            match d.get? os with
            | none => .error .other  -- KeyError
            | some v => .ok (.val v)
        | .st is, .none =>
          match r.dict.get? is with
          | none => .error .other
          | some d => .ok (.row d)
        | _, _ => .error .type
  | .bad => .error .type

variable [Add V] [Zero V]

/-- the outer loop: `mapped_result[in_state] = {…}` over `self.items()` -/
def mapDict (f : St → St) (d : PD (PD V)) : PD (PD V) :=
  d.foldl (fun m p => m.set p.1 (accum f p.2)) []

/-- the outputs collected by `_recombine_mapped_result` (as a list without repetition; Python
holds them in a `set`, whose iteration order is not specified) -/
def imagesOf (m : PD (PD V)) : List St := dedup (m.flatMap fun p => p.2.keys)

/-- `_recombine_mapped_result`; `uo` is the order in which Python iterates `unique_outputs`
(an input of the model, like a random tape) -/
def SimResult.recombine (r : SimResult V) (m : PD (PD V)) (uo : List St) : Except Err (SimResult V) := do
  let rows ← r.inputs.mapM fun i =>
    match m.get? i with
    | none => Except.error Err.other  -- KeyError
    | some d => Except.ok (uo.map fun o => (d.get? o).getD 0)
  SimResult.new (some r.rtype) ⟨r.inputs.length, uo.length, rows⟩ r.inputs uo

/-- `apply_threshold_mapping` / `apply_parity_mapping` with the per-state function `f` -/
def SimResult.applyMapping (r : SimResult V) (f : St → St) (order : List St → List St) :
    Except Err (SimResult V) :=
  if r.rtype = .amplitude then .error .value
  else
    let m := mapDict f r.dict
    r.recombine m (order (imagesOf m))

end Sim

/-! ### SamplingResult -/

structure SampResult (V : Type) where
  input : St
  outputs : List St
  dict : PD V

section Samp
variable {V : Type}

/-- `SamplingResult(results, input)`; `input = none` is a non-State → ResultCreationError -/
def SampResult.new (results : List (St × V)) (input : Option St) : Except Err (SampResult V) :=
  match input with
  | none => .error .other
  | some i =>
    let d := PD.ofPairs results
    .ok { input := i, outputs := d.keys, dict := d }

/-- `__getitem__`; `none` is a non-State subscript -/
def SampResult.getItem (r : SampResult V) : Option St → Except Err V
  | none => .error .type
  | some s =>
    match r.dict.get? s with
    | none => .error .other  -- KeyError
    | some v => .ok v

def SampResult.applyMapping [Add V] (r : SampResult V) (f : St → St) : Except Err (SampResult V) :=
  SampResult.new (accum f r.dict) (some r.input)

end Samp

end LW.Res
