/-
  LW.Model.PostSel — the `PostSelection` object as a state machine (C05, C07).

  Mirrors lightworks/sdk/utils/post_selection.py line by line: `check_int` / `check_int_or_tuple`
  (integral floats are converted, other floats are refused), `PostSelection.add` (negative values
  refused, then the one-rule-per-mode check unless `multi_rules`, then the rule is appended and its
  modes recorded), the public attribute `multi_rules`, the listings `rules` / `modes`, and
  `validate` with Python's evaluation order (`all(...)` stops at the first rule that fails; a rule
  sums `state[m]` over ALL its modes first, so an out-of-range mode raises IndexError only if no
  earlier rule has already failed).  Core Lean only.
-/
import LW.Model.Analysis

namespace LW.PostSel

/-- a value handed to `add`: a Python int, a float with an integral value, or any other float -/
inductive PVal
  | int (i : Int)
  | intFloat (i : Int)     -- e.g. `2.0`: accepted and converted
  | frac                   -- e.g. `0.5`: "should be a tuple of integers or an integer"
deriving Repr, DecidableEq

/-- an argument of `add`: a single value or a sequence -/
inductive PArg
  | one (v : PVal)
  | many (vs : List PVal)
deriving Repr

inductive Err | value | index
deriving Repr, DecidableEq

/-- `check_int` -/
def checkInt : PVal → Except Err Int
  | .int i => .ok i
  | .intFloat i => .ok i
  | .frac => .error .value

/-- `check_int_or_tuple` -/
def checkIntOrTuple : PArg → Except Err (List Int)
  | .one v => do let i ← checkInt v; pure [i]
  | .many vs => vs.mapM checkInt

structure PS where
  multi : Bool
  rules : List Rule          -- insertion order
  modesWith : List Nat       -- `__modes_with_rules` (a set): kept duplicate-free
deriving Repr

def PS.new (multi : Bool := false) : PS := { multi := multi, rules := [], modesWith := [] }

def insertSet (m : Nat) (l : List Nat) : List Nat := if l.contains m then l else l ++ [m]

/-- `PostSelection.add` -/
def PS.add (p : PS) (modes nph : PArg) : Except Err PS := do
  let ms ← checkIntOrTuple modes
  let ns ← checkIntOrTuple nph
  if ms.any (· < 0) then throw .value
  if ns.any (· < 0) then throw .value
  let ms := ms.map Int.toNat
  let ns := ns.map Int.toNat
  if !p.multi && ms.any (fun m => p.modesWith.contains m) then throw .value
  pure { p with rules := p.rules ++ [{ modes := ms, counts := ns }],
                modesWith := ms.foldl (fun acc m => insertSet m acc) p.modesWith }

/-- `ps.multi_rules = b` -/
def PS.setMulti (p : PS) (b : Bool) : PS := { p with multi := b }

/-- the property `modes`: sorted -/
def PS.modes (p : PS) : List Nat := p.modesWith.mergeSort (· ≤ ·)

/-- `Rule.validate` with the IndexError of `state[m]` -/
def ruleValidate (r : Rule) (s : FState) : Except Err Bool :=
  if r.modes.any (· ≥ s.length) then .error .index
  else .ok (r.counts.contains ((r.modes.map fun m => s.getD m 0).foldl (· + ·) 0))

/-- `all(rule.validate(state) for rule in rules)` -/
def validateRules : List Rule → FState → Except Err Bool
  | [], _ => .ok true
  | r :: rs, s => do
      let ok ← ruleValidate r s
      if ok then validateRules rs s else pure false

def PS.validate (p : PS) (s : FState) : Except Err Bool := validateRules p.rules s

/-- operations of a history -/
inductive Op
  | add (modes nph : PArg)
  | setMulti (b : Bool)
deriving Repr

def PS.step (p : PS) : Op → PS
  | .add m n => match p.add m n with
      | .ok q => q
      | .error _ => p          -- a refused call changes nothing
  | .setMulti b => p.setMulti b

def PS.run (p : PS) (ops : List Op) : PS := ops.foldl PS.step p

end LW.PostSel
