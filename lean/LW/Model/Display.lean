/-
  LW.Model.Display — `lightworks.Display(circuit, display_loss, mode_labels, display_type,
  show_parameter_values)` (C19): option validation and the *position arithmetic* of the two drawing
  back-ends.

  Mirrors lightworks/sdk/visualisation/display.py, draw_circuit_svg.py (`DrawCircuitSVG.__init__`,
  `draw`, `_add_*`) and draw_circuit_mpl.py (`DrawCircuitMPL.draw`, `_add_*`).

  What is modelled: the two per-mode location arrays `x_locations` / `y_locations`, every index
  with which a component reads or writes them, every slice over which `max()` is taken, the mode
  label bookkeeping, the order in which the checks happen, and the quantities of the returned
  object that are determined by them (svg: `Drawing.width/height`; mpl: `xlim`, `ylim`, `yticks`,
  `yticklabels`).  Python's failure modes are explicit:
      `IndexError`  (list index out of range)        ↦ `Err.other`
      `ValueError`  (`max()` of an empty sequence)   ↦ `Err.value`
      `DisplayError`                                  ↦ `Err.display`
  All mode indices of a model circuit are naturals, so Python's negative-index wrap-around never
  applies.  What is NOT modelled (trusted, DESIGN §8): the drawing primitives of drawsvg and
  matplotlib and the text that is placed on the drawing (parameter labels / values, names).

  Positions are exact rationals (svg: px, mpl: axis units; `dy_smaller = 0.6 = 3/5`).
  The barrier of the svg back-end follows the repaired code (early return on an empty mode list,
  finding F12); the code as pinned is kept as `addBarrierSvgPinned`.
-/
import LW.Model.Circuit
import LW.Model.Heap

namespace LW

namespace Disp

inductive Backend | svg | mpl
deriving DecidableEq, Repr, Inhabited

/-! ### checked list access (Python list semantics on natural indices) -/

/-- `l[i]` — `IndexError` when `i ≥ len(l)` -/
def getE (l : List Rat) (i : Nat) : Except Err Rat :=
  match l[i]? with
  | some v => .ok v
  | none => .error .other

/-- `l[i] = v` — `IndexError` when `i ≥ len(l)` -/
def setE (l : List Rat) (i : Nat) (v : Rat) : Except Err (List Rat) :=
  if i < l.length then .ok (l.set i v) else .error .other

def rmax (a b : Rat) : Rat := if a < b then b else a

def maxL : List Rat → Rat
  | [] => 0
  | x :: xs => xs.foldl rmax x

/-- `max(l)` — `ValueError` on an empty sequence -/
def maxE (l : List Rat) : Except Err Rat :=
  if l.isEmpty then .error .value else .ok (maxL l)

def nmaxL : List Nat → Nat
  | [] => 0
  | x :: xs => xs.foldl Nat.max x

def nminL : List Nat → Nat
  | [] => 0
  | x :: xs => xs.foldl Nat.min x

/-- `max(...)` over naturals — `ValueError` on an empty sequence -/
def nmaxE (l : List Nat) : Except Err Nat :=
  if l.isEmpty then .error .value else .ok (nmaxL l)

/-- `l[lo:hiEx]` for `0 ≤ lo` — a slice never raises, it is clipped -/
def slice (l : List Rat) (lo hiEx : Nat) : List Rat := (l.drop lo).take (hiEx - lo)

/-- `range(lo, hi + 1)` -/
def span (lo hi : Nat) : List Nat := List.range' lo (hi + 1 - lo)

/-- read `l[i]` for every `i` of a list of indices, in order -/
def readAll (l : List Rat) : List Nat → Except Err Unit
  | [] => .ok ()
  | i :: is => do
      let _ ← getE l i
      readAll l is

/-- `for i in is: l[i] = v` -/
def writeAll (l : List Rat) (v : Rat) : List Nat → Except Err (List Rat)
  | [] => .ok l
  | i :: is => do
      let l' ← setE l i v
      writeAll l' v is

/-! ### geometry constants of the two back-ends -/

/-- total advance of a phase shifter / loss element: `con_length + size + con_length` -/
def Backend.psW : Backend → Rat
  | .svg => 150 | .mpl => 3/2
/-- beam splitter: `con_length + size_x + con_length` -/
def Backend.bsW : Backend → Rat
  | .svg => 150 | .mpl => 3/2
/-- unitary block / group box without heralds: `con_length + size_x + con_length` -/
def Backend.boxW : Backend → Rat
  | .svg => 200 | .mpl => 2
/-- `extra_length` of a group with heralds, and the extension for external heralds -/
def Backend.extra : Backend → Rat
  | .svg => 50 | .mpl => 1/2
/-- mode swaps: `con_length + size_x + con_length`, `size_x` grows with the span in svg only -/
def Backend.swapW (b : Backend) (lo hi : Nat) : Rat :=
  match b with
  | .svg => 25 + (50 + 20 * ((hi - lo : Nat) : Rat)) + 25
  | .mpl => 3/2

/-! ### components (`_add_*`)

`ys` = `y_locations` (never written after initialisation), `xs` = `x_locations`,
`herald` = `circuit._internal_modes`.  A read that the code performs only for non-herald modes is
modelled with the same filter. -/

/-- common tail of `_add_bs`, `_add_unitary`, `_add_mode_swaps`, `_add_grouped_circuit`:
`xloc = max(x_locations[lo:hi+1])`, connectors / waveguides on the non-herald modes of the span,
`x_locations[i] = xloc + w` for every mode of the span -/
def addSpan (ys : List Rat) (herald : List Nat) (xs : List Rat) (lo hi : Nat) (w : Rat) :
    Except Err (List Rat) := do
  let xloc ← maxE (slice xs lo (hi + 1))
  readAll ys ((span lo hi).filter fun i => !herald.contains i)
  writeAll xs (xloc + w) (span lo hi)

/-- `_add_ps` (and `_add_loss` when loss display is on) -/
def addPs (b : Backend) (ys xs : List Rat) (m : Nat) : Except Err (List Rat) := do
  let xloc ← getE xs m
  let _ ← getE ys m
  setE xs m (xloc + b.psW)

/-- `_add_bs` -/
def addBs (b : Backend) (ys : List Rat) (herald : List Nat) (xs : List Rat) (m1 m2 : Nat) :
    Except Err (List Rat) := do
  -- `if mode1 > mode2: mode1, mode2 = mode2, mode1`
  let lo := min m1 m2
  let hi := max m1 m2
  let _ ← getE ys hi   -- size_y
  let _ ← getE ys lo   -- size_y, yloc
  addSpan ys herald xs lo hi b.bsW

/-- `_add_unitary`: `mode1, mode2 = spec.mode, spec.mode + spec.unitary.shape[0] - 1`.
A 0×0 block (`mode2 = mode1 - 1`, an empty slice) is reported as the `ValueError` that `max()`
raises on it; it is outside `DispOk`. -/
def addUnitary (b : Backend) (ys : List Rat) (herald : List Nat) (xs : List Rat) (m k : Nat) :
    Except Err (List Rat) :=
  if k = 0 then .error .value else do
  let lo := m
  let hi := m + k - 1
  let _ ← getE ys hi
  let _ ← getE ys lo
  addSpan ys herald xs lo hi b.boxW

/-- `_add_barrier`, svg, as pinned: `max(self.x_locations[m] for m in spec.modes)` -/
def addBarrierSvgPinned (ys xs : List Rat) (ms : List Nat) : Except Err (List Rat) := do
  let locs ← ms.mapM (getE xs)
  let maxLoc ← maxE locs
  readAll ys ms
  writeAll xs maxLoc ms

/-- `_add_barrier`, svg, repaired (F12): `if not spec.modes: return` first -/
def addBarrierSvg (ys xs : List Rat) (ms : List Nat) : Except Err (List Rat) :=
  if ms.isEmpty then .ok xs else addBarrierSvgPinned ys xs ms

/-- `_add_barrier`, mpl: `max_loc = 0; for m in modes: max_loc = max(max_loc, x[m])` -/
def addBarrierMpl (ys xs : List Rat) (ms : List Nat) : Except Err (List Rat) := do
  let locs ← ms.mapM (getE xs)
  let maxLoc := locs.foldl rmax 0
  readAll ys ms
  writeAll xs maxLoc ms

/-- the swap dictionary completed with the fixed modes of its span
(`for m in range(min_mode, max_mode + 1): if m not in swaps: swaps[m] = m`) -/
def fillSwaps (σ : Dict) (lo hi : Nat) : Dict :=
  σ ++ (((span lo hi).filter fun m => !σ.contains m).map fun m => (m, m))

/-- `_add_mode_swaps` -/
def addSwaps (b : Backend) (ys : List Rat) (herald : List Nat) (xs : List Rat) (σ : Dict) :
    Except Err (List Rat) :=
  if σ.isEmpty then .ok xs else do
  let lo := nminL σ.keys
  let hi := nmaxL σ.keys
  let full := fillSwaps σ lo hi
  let xloc ← maxE (slice xs lo (hi + 1))
  -- ylocs: `(y[i], y[j])` for every item whose key is not a herald mode
  readAll ys ((full.filter fun p => !herald.contains p.1).flatMap fun p => [p.1, p.2])
  readAll ys ((span lo hi).filter fun i => !herald.contains i)
  writeAll xs (xloc + b.swapW lo hi) (span lo hi)

/-- `_add_heralds`: `y_locations[mode]` for every input and every output herald -/
def addHeralds (ys : List Rat) (hin hout : List Nat) : Except Err Unit :=
  readAll ys (hin ++ hout)

/-- `_add_grouped_circuit` -/
def addGroup (b : Backend) (ys : List Rat) (herald : List Nat) (xs : List Rat) (m1 m2 : Nat)
    (hin hout : Dict) : Except Err (List Rat) := do
  let lo := min m1 m2
  let hi := max m1 m2
  let extra : Rat := if !hin.isEmpty || !hout.isEmpty then b.extra else 0
  let _ ← getE ys hi
  let _ ← getE ys lo
  let xs' ← addSpan ys herald xs lo hi (b.boxW + 2 * extra)
  -- heralds of the group, shifted by `mode1`
  addHeralds ys (hin.keys.map (· + lo)) (hout.keys.map (· + lo))
  return xs'

variable {K : Type}

/-- `_add(spec)` — dispatch on the component class -/
def addComp (b : Backend) (displayLoss : Bool) (ys : List Rat) (herald : List Nat)
    (xs : List Rat) : Comp K → Except Err (List Rat)
  | .prim (.ps m _) => addPs b ys xs m
  | .prim (.loss m _ _) => if displayLoss then addPs b ys xs m else .ok xs
  | .prim (.bs m1 m2 _ _ _) => addBs b ys herald xs m1 m2
  | .prim (.unitary m u) => addUnitary b ys herald xs m u.n
  | .prim (.barrier ms) =>
      match b with
      | .svg => addBarrierSvg ys xs ms
      | .mpl => addBarrierMpl ys xs ms
  | .prim (.swaps σ) => addSwaps b ys herald xs σ
  | .group _ m1 m2 hin hout => addGroup b ys herald xs m1 m2 hin hout

/-- the same dispatch with the svg barrier as pinned (regression document for F12) -/
def addCompPinned (b : Backend) (displayLoss : Bool) (ys : List Rat) (herald : List Nat)
    (xs : List Rat) : Comp K → Except Err (List Rat)
  | .prim (.barrier ms) =>
      match b with
      | .svg => addBarrierSvgPinned ys xs ms
      | .mpl => addBarrierMpl ys xs ms
  | c => addComp b displayLoss ys herald xs c

/-! ### whole drawing -/

/-- `y_locations`: start at `y`, step `dys` next to a herald mode and `dy` otherwise -/
def ysGo (dy dys : Rat) (herald : List Nat) : Nat → Nat → Rat → List Rat
  | 0, _, _ => []
  | k + 1, i, y =>
      y :: ysGo dy dys herald k (i + 1)
        (if herald.contains (i + 1) || herald.contains i then y + dys else y + dy)

def ysOf (y0 dy dys : Rat) (herald : List Nat) (n : Nat) : List Rat := ysGo dy dys herald n 0 y0

/-- `full_mode_labels`: `"-"` on herald modes, the next user label otherwise
(`mode_labels[count]` — `IndexError` if the labels run out) -/
def fullLabels (herald : List Nat) (labels : List String) : Nat → Nat → Nat → Except Err (List String)
  | 0, _, _ => .ok []
  | k + 1, i, cnt =>
      if herald.contains i then do
        let rest ← fullLabels herald labels k (i + 1) cnt
        return "-" :: rest
      else
        match labels[cnt]? with
        | none => .error .other
        | some s => do
            let rest ← fullLabels herald labels k (i + 1) (cnt + 1)
            return s :: rest

structure Opts where
  dtype : String := "svg"
  displayLoss : Bool := false
  labels : Option (List String) := none
  /-- only changes the text placed on the drawing, which is not modelled -/
  showValues : Bool := false
deriving Repr

/-- the part of the returned object that the position arithmetic determines -/
structure Out where
  /-- svg: `Drawing.width`; mpl: upper `xlim` -/
  width : Rat
  /-- svg: `Drawing.height`; mpl: the `ylim` bound `max(y_locations) + 1` -/
  height : Rat
  /-- `y_locations` (mpl: `yticks`) -/
  ys : List Rat
  /-- full mode labels (mpl: `yticklabels`) -/
  labels : List String
deriving Repr

/-- the mode-label block shared by both back-ends: length check, default labels, herald dashes -/
def modeLabels (n : Nat) (herald : List Nat) (labels : Option (List String)) :
    Except Err (List String) := do
  let expLen := n - herald.length
  let user ← match labels with
    | some l => if l.length ≠ expLen then throw Err.display else pure l
    | none => pure ((List.range expLen).map fun i => toString i)
  fullLabels herald user n 0 0

/-- extra input waveguides of the user modes when the circuit has external input heralds -/
def bumpUser (herald : List Nat) (xs : List Rat) (d : Rat) : List Rat :=
  xs.mapIdx fun i x => if herald.contains i then x else x + d

/-- final extension of every user mode to the common end position -/
def extendUser (herald : List Nat) (xs : List Rat) (maxloc : Rat) : List Rat :=
  xs.mapIdx fun i x => if x < maxloc ∧ !herald.contains i then maxloc else x

/-- `if circuit._external_heralds["input"]:` an extra input waveguide on every user mode -/
def inputStubs (b : Backend) (herald : List Nat) (ys xs : List Rat) (extIn : Dict) :
    Except Err (List Rat) :=
  if extIn.isEmpty then .ok xs else do
    readAll ys ((List.range xs.length).filter fun i => !herald.contains i)
    pure (bumpUser herald xs b.extra)

/-- steps common to both back-ends once `x_locations` is initialised: external-herald input
waveguides, the component loop, extension to the common end, herald markers.  The `enumerate`
loops run over `x_locations` itself; their reads of `y_locations` are listed explicitly. -/
def drawBody (b : Backend) (c : Circ K) (displayLoss : Bool) (ys : List Rat) (x0 : Rat)
    (step : Backend → Bool → List Rat → List Nat → List Rat → Comp K → Except Err (List Rat)) :
    Except Err (List Rat) := do
  let herald := c.internal
  let xs := List.replicate c.n x0
  let xs ← inputStubs b herald ys xs c.extIn
  let xs ← c.spec.foldlM (step b displayLoss ys herald) xs
  let maxloc ← maxE xs
  let maxloc := if c.extOut.isEmpty then maxloc else maxloc + b.extra
  readAll ys ((List.range xs.length).filter fun i => !herald.contains i)
  let xs := extendUser herald xs maxloc
  addHeralds ys c.extIn.keys c.extOut.keys
  return xs

/-- `DrawCircuitSVG(circuit, …).draw()` -/
def drawSvgWith (step : Backend → Bool → List Rat → List Nat → List Rat → Comp K → Except Err (List Rat))
    (c : Circ K) (o : Opts) : Except Err Out := do
  let ys := ysOf 125 125 75 c.internal c.n
  -- labels are processed first: a wrong length is rejected before anything is placed
  let labels ← modeLabels c.n c.internal o.labels
  let maxLen ← nmaxE (labels.map String.length)
  let init : Rat := 100 + (if maxLen > 4 then ((maxLen - 4 : Nat) : Rat) * (35 / 2) else 0)
  readAll ys (List.range labels.length)          -- label positions
  let xs ← drawBody .svg c o.displayLoss ys (init + 50) step
  let xs := xs.map (· + 50)                       -- `for i in range(n_modes): x[i] += 50`
  let w ← maxE xs
  let h ← maxE ys
  readAll ys (List.range c.n)                     -- frame ticks
  return { width := w + 100, height := h + 125, ys := ys, labels := labels }

/-- `DrawCircuitMPL(circuit, …).draw()` -/
def drawMplWith (step : Backend → Bool → List Rat → List Nat → List Rat → Comp K → Except Err (List Rat))
    (c : Circ K) (o : Opts) : Except Err Out := do
  let ys := ysOf 0 1 (3 / 5) c.internal c.n
  let xs ← drawBody .mpl c o.displayLoss ys (1 / 2) step
  let w ← maxE xs
  let h ← maxE ys
  -- the label length is checked only now, after the whole circuit has been placed
  let labels ← modeLabels c.n c.internal o.labels
  return { width := w + 1 / 2, height := h + 1, ys := ys, labels := labels }

def drawSvg (c : Circ K) (o : Opts) : Except Err Out := drawSvgWith addComp c o
def drawMpl (c : Circ K) (o : Opts) : Except Err Out := drawMplWith addComp c o

/-- `lightworks.Display(circuit, display_loss, mode_labels, display_type, show_parameter_values)` -/
def display (c : Circ K) (o : Opts) : Except Err Out :=
  if o.dtype = "mpl" then drawMpl c o
  else if o.dtype = "svg" then drawSvg c o
  else .error .display

/-- `Display` on the code as pinned (svg barrier without the early return) -/
def displayPinned (c : Circ K) (o : Opts) : Except Err Out :=
  if o.dtype = "mpl" then drawMplWith addCompPinned c o
  else if o.dtype = "svg" then drawSvgWith addCompPinned c o
  else .error .display

/-- `Display` as an operation on the pool of live objects: it returns a drawing or raises, and
the pool it hands back is the pool it was given (the back-ends read `_get_circuit_spec()`, a deep
copy, and copies of the herald dictionaries) -/
def displayStep (h : Heap K) (id : String) (o : Opts) : Option (Heap K × Except Err Out) :=
  (h.get? id).map fun c => (h, display c o)

/-! ### the invariant under which drawing is safe -/

/-- what the back-ends need of one spec entry of a circuit with `n` modes -/
def CompOk (n : Nat) : Comp K → Prop
  | .prim (.ps m _) => m < n
  | .prim (.loss m _ _) => m < n
  | .prim (.bs m1 m2 _ _ _) => m1 < n ∧ m2 < n ∧ m1 ≠ m2
  | .prim (.unitary m u) => 0 < u.n ∧ m + u.n ≤ n
  | .prim (.barrier ms) => ∀ m ∈ ms, m < n
  | .prim (.swaps σ) => ∀ m ∈ σ.keys ++ σ.vals, m < n
  | .group _ m1 m2 hin hout =>
      m1 < n ∧ m2 < n ∧ ∀ k ∈ hin.keys ++ hout.keys, k + min m1 m2 < n

instance instDecidableCompOk (n : Nat) : (c : Comp K) → Decidable (CompOk n c)
  | .prim (.ps m _) => inferInstanceAs (Decidable (m < n))
  | .prim (.loss m _ _) => inferInstanceAs (Decidable (m < n))
  | .prim (.bs m1 m2 _ _ _) => inferInstanceAs (Decidable (m1 < n ∧ m2 < n ∧ m1 ≠ m2))
  | .prim (.unitary m u) => inferInstanceAs (Decidable (0 < u.n ∧ m + u.n ≤ n))
  | .prim (.barrier ms) => inferInstanceAs (Decidable (∀ m ∈ ms, m < n))
  | .prim (.swaps σ) => inferInstanceAs (Decidable (∀ m ∈ σ.keys ++ σ.vals, m < n))
  | .group _ m1 m2 hin hout =>
      inferInstanceAs (Decidable (m1 < n ∧ m2 < n ∧ ∀ k ∈ hin.keys ++ hout.keys, k + min m1 m2 < n))

/-- the bookkeeping facts about a circuit object that `Display` relies on -/
structure WF (c : Circ K) : Prop where
  pos : 0 < c.n
  intNodup : c.internal.Nodup
  intLt : ∀ a ∈ c.internal, a < c.n
  extInLt : ∀ k ∈ c.extIn.keys, k < c.n
  extOutLt : ∀ k ∈ c.extOut.keys, k < c.n
  compOk : ∀ comp ∈ c.spec, CompOk c.n comp

instance (c : Circ K) : Decidable (WF c) :=
  decidable_of_iff
    (0 < c.n ∧ c.internal.Nodup ∧ (∀ a ∈ c.internal, a < c.n) ∧ (∀ k ∈ c.extIn.keys, k < c.n) ∧
      (∀ k ∈ c.extOut.keys, k < c.n) ∧ ∀ comp ∈ c.spec, CompOk c.n comp)
    ⟨fun ⟨a, b, c, d, e, f⟩ => ⟨a, b, c, d, e, f⟩, fun ⟨a, b, c, d, e, f⟩ => ⟨a, b, c, d, e, f⟩⟩

/-- the options that `Display` rejects -/
def BadOpts (c : Circ K) (o : Opts) : Prop :=
  (o.dtype ≠ "svg" ∧ o.dtype ≠ "mpl") ∨
    ∃ l, o.labels = some l ∧ l.length ≠ c.n - c.internal.length

end Disp

end LW
