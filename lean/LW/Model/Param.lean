/-
  LW.Model.Param — `Parameter` and `ParameterDict` (lightworks/sdk/circuit/parameters.py).

  A parameter value is either numeric (an element of an ordered domain `α`; the code's int/float
  that is not NaN) or non-numeric (`str`, `None`; tagged so that distinct values stay distinct).
  The setters mirror the code line by line; a rejected update returns the exception class and no
  new state.  NaN and complex numbers are numeric for the code but lie outside every linear order:
  they are outside the model's domain and are probed on the implementation directly (finding F15).

  Core Lean only.
-/


namespace LW

/-- exception classes of the Parameter / ParameterDict API (a separate enum: the API is disjoint
from the circuit API whose classes are `LW.Err`) -/
inductive PErr
  | paramValue | paramBounds | paramDict | pyValue | pyType | key
deriving DecidableEq, Repr, Inhabited

def PErr.toString : PErr → String
  | .paramValue => "ParameterValueError" | .paramBounds => "ParameterBoundsError"
  | .paramDict => "ParameterDictError" | .pyValue => "ValueError" | .pyType => "TypeError"
  | .key => "KeyError"
instance : ToString PErr := ⟨PErr.toString⟩

/-- a Python value held by a parameter: `num` = `isnumeric(value)`, `other t` = anything else -/
inductive Val (α : Type)
  | num (x : α)
  | other (t : Nat)
deriving DecidableEq, Repr, Inhabited

structure Param (α : Type) where
  value : Val α
  min : Option α := none
  max : Option α := none
deriving DecidableEq, Repr

namespace Param

variable {α : Type}

/-- `has_bounds()` -/
def hasBounds (p : Param α) : Bool := p.min.isSome || p.max.isSome

variable [LT α] [DecidableLT α]

/-- `Parameter.set(value)` -/
def set (p : Param α) (v : Val α) : Except PErr (Param α) :=
  match v with
  | .other _ =>
      -- non-numeric value is refused as soon as one bound is present
      if p.hasBounds then .error .paramValue else .ok { p with value := v }
  | .num x =>
      -- `if self.min_bound is not None: if value < self.min_bound: raise`
      if (match p.min with | some m => decide (x < m) | none => false) then .error .paramValue
      -- `if self.max_bound is not None: if value > self.max_bound: raise`
      else if (match p.max with | some mx => decide (mx < x) | none => false) then .error .paramValue
      else .ok { p with value := v }

/-- `min_bound` setter; the argument is `None` or any Python value -/
def setMin (p : Param α) : Option (Val α) → Except PErr (Param α)
  | none => .ok { p with min := none }
  | some b =>
    match p.value, b with
    | .other _, _ => .error .paramBounds          -- bounds on a non-numeric parameter
    | .num _, .other _ => .error .paramBounds     -- bound is not numeric
    | .num x, .num m => if x < m then .error .paramBounds else .ok { p with min := some m }

/-- `max_bound` setter -/
def setMax (p : Param α) : Option (Val α) → Except PErr (Param α)
  | none => .ok { p with max := none }
  | some b =>
    match p.value, b with
    | .other _, _ => .error .paramBounds
    | .num _, .other _ => .error .paramBounds
    | .num x, .num mx => if mx < x then .error .paramBounds else .ok { p with max := some mx }

/-- `Parameter(value, bounds)`; `bounds` is `None` or a list of any length -/
def new (v : Val α) : Option (List (Option (Val α))) → Except PErr (Param α)
  | none => .ok { value := v }
  | some [b0, b1] =>
    match v with
    | .other _ => .error .paramBounds
    | .num _ => do
        let p ← ({ value := v } : Param α).setMin b0
        p.setMax b1
  | some _ => .error .pyValue

end Param

/-- live `Parameter` objects by identity -/
abbrev Store (α : Type) := List (Nat × Param α)

namespace Store
variable {α : Type}
def get? (s : Store α) (id : Nat) : Option (Param α) := (s.find? (·.1 == id)).map (·.2)
def set (s : Store α) (id : Nat) (p : Param α) : Store α :=
  if s.any (·.1 == id) then s.map fun x => if x.1 == id then (id, p) else x else s ++ [(id, p)]
/-- current value of a parameter (a dangling id never arises: the driver rejects it) -/
def val (s : Store α) (id : Nat) : Val α :=
  match s.get? id with
  | some p => p.value
  | none => .other 0
end Store

/-- `ParameterDict`: insertion-ordered keys → parameter identities -/
abbrev PDict := List (String × Nat)

namespace PDict
def get? (d : PDict) (k : String) : Option Nat := (d.find? (·.1 == k)).map (·.2)
def remove (d : PDict) (k : String) : PDict := d.filter (·.1 != k)
end PDict

/-- what is assigned in `pd[key] = …` -/
inductive DArg (α : Type)
  | val (v : Val α)      -- a plain value
  | par (id : Nat)       -- a `Parameter` object

/-- result of `pd[key] = arg`: the dictionary or one parameter is written -/
inductive DWrite (α : Type)
  | dict (d : PDict)
  | param (id : Nat) (p : Param α)

/-- `ParameterDict.__setitem__` -/
def PDict.setItem {α : Type} [LT α] [DecidableLT α] (d : PDict) (σ : Store α) (k : String) :
    DArg α → Option (Except PErr (DWrite α))
  | .par id =>
      match d.get? k with
      | some _ => some (.error .paramDict)     -- cannot overwrite an existing Parameter
      | none => some (.ok (.dict (d ++ [(k, id)])))
  | .val v =>
      match d.get? k with
      | none => some (.error .paramDict)       -- new keys need Parameter objects
      | some id =>
        match σ.get? id with
        | none => none
        | some p =>
          match p.set v with
          | .ok p' => some (.ok (.param id p'))
          | .error e => some (.error e)

end LW
