/-
  LW.Model.Fock — Fock states, permanents, transition amplitudes and the simulator (C03).

  Mirrors lightworks/emulator/backend/permanent.py, emulator/utils/state_utils.py (fock_basis),
  sdk/utils/heralding_utils.py and emulator/simulation/simulator.py.

  An amplitude is `perm(U[x|y]) / √(∏ s! ∏ t!)`; the model never takes the square root: it returns
  the permanent (`ampNum`) and the rational `normSq = ∏ s! ∏ t!` separately, so probabilities
  `|ampNum|² / normSq` are exact.
-/
import LW.Model.Circuit

namespace LW

abbrev FState := List Nat

def fact : Nat → Nat
  | 0 => 1
  | n + 1 => (n + 1) * fact n

/-- `∏ s_i!` -/
def factProd (s : FState) : Nat := (s.map fact).foldl (· * ·) 1

/-- `fock_basis(N, n)`: all occupations of `N` modes with `n` photons, in the order of `_sums` -/
def fockBasis : Nat → Nat → List FState
  | 0, _ => []
  | 1, n => [[n]]
  | N + 2, n =>
    (List.range (n + 1)).flatMap fun v => (fockBasis (N + 1) (n - v)).map fun p => p ++ [v]

/-- `x += [i] * state[i]` : mode indices repeated by occupation -/
def partitionIdx (s : FState) : List Nat :=
  ((List.range s.length).zip s).flatMap fun (i, k) => List.replicate k i

/-- `add_heralds_to_state` -/
def addHeralds (s : FState) (her : Dict) : FState :=
  if her.isEmpty then s
  else
    let n := s.length + her.length
    let step (acc : FState × Nat) (i : Nat) : FState × Nat :=
      match her.get? i with
      | some h => (acc.1 ++ [h], acc.2)
      | none => (acc.1 ++ [s.getD acc.2 0], acc.2 + 1)
    ((List.range n).foldl step ([], 0)).1

/-- `remove_heralds_from_state`: drop the herald modes (any order, duplicates ignored) -/
def removeHeralds (s : FState) (modes : List Nat) : FState :=
  ((List.range s.length).zip s).filterMap fun (i, k) => if modes.contains i then none else some k

section
variable {K : Type} [Add K] [Mul K] [Zero K] [One K]

/-- permanent of the matrix `U[rows | cols]` (rows and columns may repeat), by expansion along
the first row; structurally recursive on the row list -/
def permRC (U : M K) : List Nat → List Nat → K
  | [], _ => 1
  | r :: rs, cols =>
    M.sumN cols.length fun j => U.get r (cols.getD j 0) * permRC U rs (cols.eraseIdx j)

/-- numerator of the transition amplitude `⟨out| Φ(U) |in⟩` -/
def ampNum (U : M K) (inS outS : FState) : K :=
  permRC U (partitionIdx outS) (partitionIdx inS)

end

def ampNormSq (inS outS : FState) : Nat := factProd inS * factProd outS

/-- an occupation entry as the user may supply it -/
inductive Occ
  | int (i : Int)
  | bad            -- not an integer (float, bool, …) → TypeError
deriving Repr, DecidableEq

/-- `State._validate` + length check of `_process_inputs`: per state, first the length, then the
entries in order (type before sign) -/
def validateState (inputModes : Nat) (s : List Occ) : Except Err FState := do
  if s.length ≠ inputModes then throw .modeMismatch
  s.mapM fun
    | .bad => .error .type
    | .int i => if i < 0 then .error .value else .ok i.toNat

def photons (s : FState) : Nat := s.foldl (· + ·) 0

structure SimResult (K : Type) where
  inputs : List FState
  outputs : List FState
  /-- `amps[i][j] = (ampNum, normSq)` -/
  amps : List (List (K × Nat))

section
variable {K : Type} [Add K] [Mul K] [Neg K] [Zero K] [One K]

/-- `Simulator.simulate(inputs, outputs)` on a circuit -/
def simulate (i : K) (c : Circ K) (inputs : List (List Occ)) (outputs : Option (List (List Occ))) :
    Except Err (SimResult K) := do
  let im := c.inputModes
  let ins ← inputs.mapM (validateState im)
  let outs ← match outputs with
    | none => do
        let ns := ins.map photons
        match ns with
        | [] => throw .value          -- min() of an empty sequence
        | n0 :: _ =>
          if ns.any (· ≠ n0) then throw .photonNumber
          pure (fockBasis im n0)
    | some os => do
        let os' ← os.mapM (validateState im)
        let ns := (ins ++ os').map photons
        match ns with
        | [] => throw .value
        | n0 :: _ =>
          if ns.any (· ≠ n0) then throw .photonNumber
          pure os'
  let U := c.Ufull i
  let lossModes := U.n - c.n
  let amps := ins.map fun s =>
    let fs := addHeralds s c.inHer ++ List.replicate lossModes 0
    outs.map fun t =>
      let ft := addHeralds t c.outHer ++ List.replicate lossModes 0
      (ampNum U fs ft, ampNormSq fs ft)
  return ⟨ins, outs, amps⟩

end

end LW
