/-
  LW.Model.Scalar — scalars of the executable model.

  Every numerical model function is generic in a scalar type `K` through the bare
  classes `Add/Mul/Neg/Zero/One` (+ `HasConj`), so that the same definition
    * runs on `GQ` (Gaussian rationals over core `Rat`, exact, decidable equality), and
    * is reasoned about over any commutative (star) ring in LW/Proofs (Mathlib supplies the
      bare instances from `CommRing`).
  Core Lean only: no Mathlib import here.
-/

namespace LW

/-- complex conjugation on the scalar type -/
class HasConj (K : Type) where
  conj : K → K

export HasConj (conj)

/-- Gaussian rationals `re + i·im`. -/
structure GQ where
  re : Rat
  im : Rat
deriving DecidableEq, Repr, Inhabited

namespace GQ

instance : Zero GQ := ⟨⟨0, 0⟩⟩
instance : One GQ := ⟨⟨1, 0⟩⟩
instance : Add GQ := ⟨fun a b => ⟨a.re + b.re, a.im + b.im⟩⟩
instance : Neg GQ := ⟨fun a => ⟨-a.re, -a.im⟩⟩
instance : Sub GQ := ⟨fun a b => ⟨a.re - b.re, a.im - b.im⟩⟩
instance : Mul GQ := ⟨fun a b => ⟨a.re * b.re - a.im * b.im, a.re * b.im + a.im * b.re⟩⟩
instance : HasConj GQ := ⟨fun a => ⟨a.re, -a.im⟩⟩
instance : OfNat GQ n := ⟨⟨(n : Rat), 0⟩⟩

def ofRat (r : Rat) : GQ := ⟨r, 0⟩
def I : GQ := ⟨0, 1⟩
def normSq (a : GQ) : Rat := a.re * a.re + a.im * a.im
def inv (a : GQ) : GQ := let d := a.normSq; ⟨a.re / d, -a.im / d⟩
instance : Inv GQ := ⟨inv⟩
instance : Div GQ := ⟨fun a b => a * b.inv⟩
def smul (r : Rat) (a : GQ) : GQ := ⟨r * a.re, r * a.im⟩

def ratToString (r : Rat) : String :=
  if r.den == 1 then toString r.num else s!"{r.num}/{r.den}"

/-- canonical print form `p/q,r/s` (the imaginary part is always printed) -/
def toStr (a : GQ) : String := s!"{ratToString a.re},{ratToString a.im}"

instance : ToString GQ := ⟨toStr⟩

end GQ

/-- parse `p`, `-p`, `p/q` -/
def parseRat? (s : String) : Option Rat :=
  match s.splitOn "/" with
  | [p] => (fun (n : Int) => (n : Rat)) <$> p.toInt?
  | [p, q] => do
      let n ← p.toInt?
      let d ← q.toNat?
      if d == 0 then none else some (mkRat n d)
  | _ => none

/-- parse `re,im` or `re` -/
def parseGQ? (s : String) : Option GQ :=
  match s.splitOn "," with
  | [a] => (fun r => ⟨r, 0⟩) <$> parseRat? a
  | [a, b] => do
      let x ← parseRat? a
      let y ← parseRat? b
      some ⟨x, y⟩
  | _ => none

end LW
