/-
  LW.Model.Sampling — the detector model and the sampling pipelines as functions of the random
  tape (C07).

  Mirrors emulator/components/detector.py (Detector._get_output) and the sampling loops of
  emulator/simulation/sampler.py (sample_N_inputs, sample_N_outputs, sample) and quick_sampler.py.
  Randomness is a tape of uniform variates in [0,1): the harness reproduces the variates the real
  code draws (numpy Generator.random for `choice`, stdlib random() for the detector) from the same
  seed and feeds them to the model, which replays inverse-CDF selection and the detector stages
  deterministically.  Everything is exact (`Rat`); floats enter as the exact dyadic rationals they are.
-/
import LW.Model.Analysis

namespace LW

/-- detector settings -/
structure Det where
  eta : Rat
  pDark : Rat
  pnr : Bool
deriving Repr

/-- consume one variate -/
def Tape := List Rat

/-- `Detector._get_output` as a function of the tape; returns the detected state and the rest of
the tape.  Stage order: per-photon thinning (in mode order), then one dark-count trial per mode,
then thresholding.  A perfect detector draws nothing. -/
def detectorSample (d : Det) (s : FState) (tape : List Rat) : FState × List Rat :=
  if d.eta = 1 ∧ d.pDark = 0 ∧ d.pnr then (s, tape)
  else
    -- efficiency
    let (out1, tape1) :=
      if d.eta < 1 then
        s.foldl (fun (acc : FState × List Rat) n =>
          let (kept, tp) := (List.range n).foldl (fun (st : Nat × List Rat) _ =>
            match st.2 with
            | u :: rest => (if u > d.eta then st.1 - 1 else st.1, rest)
            | [] => st) (n, acc.2)
          (acc.1 ++ [kept], tp)) ([], tape)
      else (s, tape)
    -- dark counts
    let (out2, tape2) :=
      if d.pDark > 0 then
        out1.foldl (fun (acc : FState × List Rat) n =>
          match acc.2 with
          | u :: rest => (acc.1 ++ [if u < d.pDark then n + 1 else n], rest)
          | [] => (acc.1 ++ [n], [])) ([], tape1)
      else (out1, tape1)
    let out3 := if d.pnr then out2 else out2.map fun c => if c ≥ 1 then 1 else 0
    (out3, tape2)

/-! ### exact detector kernel -/

def binom : Nat → Nat → Nat
  | _, 0 => 1
  | 0, _ + 1 => 0
  | n + 1, k + 1 => binom n k + binom n (k + 1)

/-- distribution of the detected count of one mode holding `n` photons -/
def modeKernel (d : Det) (n : Nat) : List (Nat × Rat) :=
  -- thinning
  let thin : List (Nat × Rat) := (List.range (n + 1)).map fun k =>
    (k, (binom n k : Rat) * d.eta ^ k * (1 - d.eta) ^ (n - k))
  -- dark count
  let dark : List (Nat × Rat) := thin.flatMap fun (k, p) => [(k, p * (1 - d.pDark)), (k + 1, p * d.pDark)]
  -- threshold
  let thr : List (Nat × Rat) := if d.pnr then dark else dark.map fun (k, p) => (if k ≥ 1 then 1 else 0, p)
  -- merge equal counts
  thr.foldl (fun acc (k, p) =>
    if acc.any (·.1 == k) then acc.map fun x => if x.1 == k then (k, x.2 + p) else x
    else acc ++ [(k, p)]) []

/-- distribution of the detected state: independent product over modes -/
def detectorKernel (d : Det) : FState → List (FState × Rat)
  | [] => [([], 1)]
  | n :: rest =>
    (modeKernel d n).flatMap fun (k, p) =>
      (detectorKernel d rest).map fun (t, q) => (k :: t, p * q)

/-! ### sampling pipelines -/

/-- `Generator.choice(p=…)`: index of the first cumulative weight (normalised) exceeding `u`,
`searchsorted(cdf, u, side='right')` -/
def inverseCdf (ps : List Rat) (u : Rat) : Nat :=
  let tot := ps.foldl (· + ·) 0
  let rec go (l : List Rat) (acc : Rat) (i : Nat) : Nat :=
    match l with
    | [] => i
    | p :: rest => if u < (acc + p) / tot then i else go rest (acc + p) (i + 1)
  -- numpy clips to the last index
  min (go ps 0 0) (ps.length - 1)

def heraldsOk (outHer : Dict) (s : FState) : Bool := outHer.all fun (m, n) => s.getD m 0 == n

/-- accepted, herald-free version of a detected state, if any (`sample_N_inputs` loop body) -/
def acceptState (outHer : Dict) (rules : List Rule) (minDet : Nat) (s : FState) : Option FState :=
  if heraldsOk outHer s then
    let hs := removeHeralds s outHer.keys
    if psValidate rules hs && decide (photons hs ≥ minDet) then some hs else none
  else none

/-- `Sampler.sample_N_inputs`: `us` are the N variates of `choice`, `tape` the detector's -/
def sampleNInputs (dist : List (FState × Rat)) (d : Det) (outHer : Dict) (rules : List Rule)
    (minDet : Nat) (us : List Rat) (tape : List Rat) : List FState :=
  let ps := dist.map (·.2)
  (us.foldl (fun (acc : List FState × List Rat) u =>
    let s := (dist.getD (inverseCdf ps u) ([], 0)).1
    let (ds, tp) := detectorSample d s acc.2
    match acceptState outHer rules minDet ds with
    | some hs => (acc.1 ++ [hs], tp)
    | none => (acc.1, tp)) ([], tape)).1

/-- the conditional distribution `sample_N_outputs` draws from (threshold detection, heralds,
herald removal, min_detection, post-selection), before renormalisation; insertion ordered -/
def outputsDist (dist : List (FState × Rat)) (pnr : Bool) (outHer : Dict) (rules : List Rule)
    (minDet : Nat) : List (FState × Rat) :=
  dist.foldl (fun acc (s, p) =>
    let s' := if pnr then s else s.map fun c => min c 1
    match acceptState outHer rules minDet s' with
    | some hs =>
        if acc.any (·.1 == hs) then acc.map fun x => if x.1 == hs then (hs, x.2 + p) else x
        else acc ++ [(hs, p)]
    | none => acc) []

/-- `Sampler.sample_N_outputs` / `QuickSampler.sample_N_outputs`: exactly one sample per variate -/
def sampleNOutputs (cond : List (FState × Rat)) (us : List Rat) : List FState :=
  let ps := cond.map (·.2)
  us.map fun u => (cond.getD (inverseCdf ps u) ([], 0)).1

/-- `Sampler.sample` / `QuickSampler.sample`: first state whose cumulative weight exceeds `u` -/
def sampleOne (dist : List (FState × Rat)) (u : Rat) : FState :=
  let tot := (dist.map (·.2)).foldl (· + ·) 0
  let rec go (l : List (FState × Rat)) (acc : Rat) (last : FState) : FState :=
    match l with
    | [] => last
    | (s, p) :: rest => if u < (acc + p) / tot then s else go rest (acc + p) s
  go dist 0 []

end LW
