/-
  LW.Model.MLEProj — the projection steps and the outer loop of the maximum-likelihood process
  tomography (C16): `MLETomographyAlgorithm._tp_proj`, `_cp_proj`, `_cptp_proj` (Dykstra's
  alternating projections) and the update rule of `pgdb`
  (lightworks/tomography/process_tomography_mle.py).

  Externals are parameters with explicit contracts:
    * `np.linalg.eigh(A)`  — returns `(vals, vecs)`; the model's `cpProjFrom` takes them as
                             arguments; the theorems assume what `eigh` documents: `vecs` unitary,
                             `vals` real, `A = vecs · diag(vals) · vecs†`;
    * `int(n ** 0.5)`      — the model takes the dimension `d` with `A.n = d * d`;
    * the cost / gradient / line search of `pgdb` — arbitrary functions and an arbitrary list of
      step sizes `alpha` (the code uses `0.5^j`, `j ≥ 1`); the theorems hold for every choice.
  Core Lean only.
-/
import LW.Model.ProcTomo

namespace LW.Tomo

variable {K : Type}

section
variable [Add K] [Mul K] [Neg K] [Zero K] [One K] [Inv K] [Sub K]

def msub (A B : M K) : M K := M.ofFn A.n fun r k => A.get r k - B.get r k

/-- `np.einsum(choi.reshape(d,d,d,d), [0,1,2,1])`: `pt[a,c] = Σ_b choi[a·d+b, c·d+b]` -/
def partialTrace (d : Nat) (A : M K) : M K :=
  M.ofFn d fun a c => M.sumN d fun b => A.get (a * d + b) (c * d + b)

/-- the element `d` of the scalar type -/
def natK : Nat → K
  | 0 => 0
  | n + 1 => natK n + 1

/-- `_tp_proj`: `choi - kron((ptrace(choi) - I)/d, I_d)` -/
def tpProj (d : Nat) (A : M K) : M K :=
  let variation := msub (partialTrace d A) (M.one d)
  msub A (kron (scale (natK d : K)⁻¹ variation) (M.one d))

/-- diagonal matrix of a list -/
def diagOf (vals : List K) : M K :=
  M.ofFn vals.length fun r k => if r = k then vals.getD r 0 else 0

/-- `_cp_proj` after `vals, vecs = np.linalg.eigh(choi)`: `vecs @ diag(max(v,0)) @ vecs†`;
`clip` is `v ↦ max(v, 0)` on the (real) eigenvalues embedded in the scalar type -/
def cpProjFrom [HasConj K] (clip : K → K) (vals : List K) (vecs : M K) : M K :=
  (vecs.mul (diagOf (vals.map clip))).mul vecs.dagger

/-- state of the Dykstra iteration in `_cptp_proj` (matrices instead of their `_vec`s) -/
structure Dykstra (K : Type) where
  x : M K
  p : M K
  q : M K
  y : M K

/-- one pass of the loop body of `_cptp_proj` (before the stopping test) -/
def Dykstra.step (tp cp : M K → M K) (s : Dykstra K) : Dykstra K :=
  let yk := tp (madd s.x s.p)
  let pk := msub (madd s.x s.p) yk
  let xk := cp (madd yk s.q)
  let qk := msub (madd yk s.q) xk
  { x := xk, p := pk, q := qk, y := yk }

/-- `f` applied `k` times -/
def iter {α : Type} (f : α → α) : Nat → α → α
  | 0, a => a
  | k + 1, a => iter f k (f a)

/-- `_cptp_proj` run for `iters + 1` passes (the loop body always runs at least once and the value
returned is `x_k` of the last pass executed, whether it ended by `break` or by exhaustion) -/
def cptpProj (tp cp : M K → M K) (n : Nat) (iters : Nat) (A : M K) : M K :=
  let z : M K := M.ofFn n fun _ _ => 0
  let s0 : Dykstra K := { x := A, p := z, q := z, y := z }
  (iter (Dykstra.step tp cp) (iters + 1) s0).x

/-- one update of `pgdb`: `mod = proj(choi - (1/mu)·grad(choi)) - choi; choi += alpha·mod` -/
def pgdbStep (proj grad : M K → M K) (muInv alpha : K) (choi : M K) : M K :=
  let md := msub (proj (msub choi (scale muInv (grad choi)))) choi
  madd choi (scale alpha md)

/-- the iterates of `pgdb` for a given sequence of accepted step sizes -/
def pgdbRun (proj grad : M K → M K) (muInv : K) : List K → M K → M K
  | [], choi => choi
  | a :: as, choi => pgdbRun proj grad muInv as (pgdbStep proj grad muInv a choi)

/-- `choi = np.identity(dim**2)/dim` -/
def pgdbInit (d : Nat) : M K := scale (natK d : K)⁻¹ (M.one (d * d))

end

end LW.Tomo
