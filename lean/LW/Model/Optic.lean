/-
  LW.Model.Optic — the *specification* side of C02: what a circuit means to its user.

  An `Optic` forgets where ancilla modes physically sit.  It has `p` user ports (the modes the
  construction API can address: `0 … p-1`), `a` private ancilla indices, `l` loss indices, one
  matrix `W` on the index space `[ports | ancillas | loss]`, and the chronological list of heralds
  (input index, output index, photon number).  Internal ancillas are heralds whose indices lie in
  the ancilla block; heralds declared with `herald()` sit on ports.

  * a primitive on user modes multiplies `W` from the left on the port indices;
  * `herald` records a pair of ports;
  * `add(S, m)` closes `S` (every herald of `S`, internal or declared, becomes a private ancilla
    pairing its input index with its output index) and wires the remaining ports of `S`, in order,
    to ports `m, m+1, …` of the parent: `W' = Embed(S̃) · Embed(P)`.

  `Optic.closed` is the canonical observable form `[free ports | heralds in order | loss]` compared
  with the implementation's `U_full` (rows selected by output heralds, columns by input heralds).
-/
import LW.Model.Circuit

namespace LW

variable {K : Type}

structure Her where
  i : Nat
  o : Nat
  n : Nat
deriving Repr, DecidableEq

structure Optic (K : Type) where
  p : Nat
  a : Nat
  l : Nat
  W : M K
  her : List Her
deriving Repr

/-- canonical closed form: matrix on `[free ports | heralds | loss]` + herald photon numbers -/
structure Closed (K : Type) where
  q : Nat
  hn : List Nat
  l : Nat
  W : M K
deriving Repr

namespace Optic

section
variable [Add K] [Mul K] [Neg K] [Zero K] [One K]

def new (n : Nat) : Optic K := ⟨n, 0, 0, M.one n, []⟩

def ofUnitary (u : M K) : Optic K := ⟨u.n, 0, 0, u, []⟩

def dim (x : Optic K) : Nat := x.p + x.a + x.l

/-- ports carrying a declared (external) input / output herald -/
def extIn (x : Optic K) : List Nat := (x.her.filter (·.i < x.p)).map (·.i)
def extOut (x : Optic K) : List Nat := (x.her.filter (·.o < x.p)).map (·.o)

def freeIn (x : Optic K) : List Nat := (List.range x.p).filter fun m => !x.extIn.contains m
def freeOut (x : Optic K) : List Nat := (List.range x.p).filter fun m => !x.extOut.contains m

/-- a primitive acting on user modes (= port indices); `i` is the imaginary unit -/
def prim (i : K) (x : Optic K) (c : Prim K) : Optic K :=
  match c with
  | .loss .. => { x with l := x.l + 1, W := compilePrim i x.W c }
  | _ => { x with W := compilePrim i x.W c }

/-- canonical closed form -/
def closed (x : Optic K) : Closed K :=
  let fi := x.freeIn
  let fo := x.freeOut
  let q := fi.length
  let h := x.her.length
  let D := q + h + x.l
  let col (y : Nat) : Nat :=
    if y < q then fi.getD y 0
    else if y < q + h then (x.her.getD (y - q) ⟨0, 0, 0⟩).i
    else x.p + x.a + (y - q - h)
  let row (y : Nat) : Nat :=
    if y < q then fo.getD y 0
    else if y < q + h then (x.her.getD (y - q) ⟨0, 0, 0⟩).o
    else x.p + x.a + (y - q - h)
  ⟨q, x.her.map (·.n), x.l, M.ofFn D fun r c => x.W.get (row r) (col c)⟩

/-- place a matrix `A` inside dimension `D` through a partial inverse index map -/
def embedVia (D : Nat) (A : M K) (inv : Nat → Option Nat) : M K :=
  M.ofFn D fun r c =>
    match inv r, inv c with
    | some x, some y => A.get x y
    | _, _ => if r = c then 1 else 0

/-- wire the closed sub-optic `s` onto ports `m …` of `x` -/
def compose (x : Optic K) (s : Closed K) (m : Nat) : Optic K :=
  let aS := s.hn.length
  let D := x.p + x.a + aS + x.l + s.l
  -- result index → index of the parent
  let invP (r : Nat) : Option Nat :=
    if r < x.p + x.a then some r
    else if r < x.p + x.a + aS then none
    else if r < x.p + x.a + aS + x.l then some (r - aS)
    else none
  -- result index → index of the closed sub-optic
  let invS (r : Nat) : Option Nat :=
    if m ≤ r ∧ r < m + s.q then some (r - m)
    else if x.p + x.a ≤ r ∧ r < x.p + x.a + aS then some (s.q + (r - (x.p + x.a)))
    else if x.p + x.a + aS + x.l ≤ r then some (s.q + aS + (r - (x.p + x.a + aS + x.l)))
    else none
  let W := (embedVia D s.W invS).mul (embedVia D x.W invP)
  let newHer : List Her := (List.range aS).map fun k =>
    ⟨x.p + x.a + k, x.p + x.a + k, s.hn.getD k 0⟩
  -- existing heralds keep their indices (all < p + a)
  ⟨x.p, x.a + aS, x.l + s.l, W, x.her ++ newHer⟩

/-- `add(S, m)` on the specification level -/
def add (x s : Optic K) (m : Int) : Except Err (Optic K) :=
  let sc := s.closed
  if 0 ≤ m ∧ m < (x.p : Int) ∧ m + (sc.q : Int) ≤ (x.p : Int) then .ok (x.compose sc m.toNat)
  else .error .modeRange

/-- `a + b` -/
def plus (x y : Optic K) : Except Err (Optic K) :=
  if x.p + x.a ≠ y.p + y.a then .error .modeRange
  else if !x.her.isEmpty || !y.her.isEmpty then .error .notImplemented
  else .ok (x.compose y.closed 0)

/-- `herald(n, i, o)` on ports -/
def herald (x : Optic K) (n : Nat) (i o : Int) : Except Err (Optic K) :=
  if ¬(0 ≤ i ∧ i < (x.p : Int)) ∨ ¬(0 ≤ o ∧ o < (x.p : Int)) then .error .modeRange
  else if x.extIn.contains i.toNat then .error .value
  else if x.extOut.contains o.toNat then .error .value
  else .ok { x with her := x.her ++ [⟨i.toNat, o.toNat, n⟩] }

/-- a primitive construction call: validated on user modes exactly as the API does (on a circuit
with `p` modes and no ancillas), then applied to the port indices -/
def applyCall (i : K) (x : Optic K) (f : Circ K → Except Err (Circ K)) : Except Err (Optic K) := do
  let c ← f { n := x.p }
  return (c.spec.flatMap Comp.toPrims).foldl (prim i) x

end

end Optic

end LW
