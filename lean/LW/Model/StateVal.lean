/-
  LW.Model.StateVal — model of the state value types and the small utilities of C18.

  Mirrors  lightworks/sdk/state/state.py            (State)
           lightworks/sdk/state/state_utils.py       (state_to_string)
           lightworks/emulator/state/annotated_state.py (AnnotatedState)
           lightworks/emulator/utils/state_utils.py  (annotated_state_to_string)
           lightworks/sdk/utils/heralding_utils.py   (add_heralds_to_state, remove_heralds_from_state)
           lightworks/sdk/utils/conversion.py        (db_loss_to_decimal, decimal_to_db_loss)
           lightworks/sdk/utils/random_utils.py      (process_random_seed, random_permutation)

  Core Lean only.  Python exceptions are `LW.Err`; classes that have no constructor there
  (IndexError, AnnotatedStateError) are `.other` — the op that raised it determines which one it is
  (the harness maps it back per op).
-/
import LW.Model.Circuit

namespace LW.SV

/-! ### Python list indexing and slicing -/

/-- position addressed by a Python integer index on a sequence of length `n`
(negative counts from the end); `none` = IndexError -/
def pyIndex (n : Nat) (i : Int) : Option Nat :=
  if 0 ≤ i then (if i < (n : Int) then some i.toNat else none)
  else if 0 ≤ i + (n : Int) then some (i + (n : Int)).toNat else none

/-- `l[i]` -/
def getItem {α : Type} (l : List α) (i : Int) : Except Err α :=
  match pyIndex l.length i with
  | some k => match l[k]? with
    | some x => .ok x
    | none => .error .other
  | none => .error .other  -- IndexError

/-- a Python `slice(start, stop, step)`; `none` = omitted -/
structure Slice where
  start : Option Int
  stop : Option Int
  step : Option Int
deriving Repr, DecidableEq

/-- CPython `PySlice_AdjustIndices` for one bound -/
def adjust (len step : Int) (x : Option Int) (dflt : Int) : Int :=
  match x with
  | none => dflt
  | some v =>
    let v := if v < 0 then v + len else v
    if v < 0 then (if step < 0 then -1 else 0)
    else if len ≤ v then (if step < 0 then len - 1 else len)
    else v

/-- the three numbers of `slice.indices(len)` and the number of selected positions -/
def sliceParams (len : Nat) (sl : Slice) : Except Err (Int × Int × Int × Nat) :=
  let step := sl.step.getD 1
  if step = 0 then .error .value  -- "slice step cannot be zero"
  else
    let n : Int := len
    let start := adjust n step sl.start (if step < 0 then n - 1 else 0)
    let stop := adjust n step sl.stop (if step < 0 then -1 else n)
    let cnt : Int :=
      if step < 0 then (if stop < start then (start - stop - 1) / (-step) + 1 else 0)
      else (if start < stop then (stop - start - 1) / step + 1 else 0)
    .ok (start, stop, step, cnt.toNat)

/-- the positions selected by a slice, in order -/
def sliceIdx (len : Nat) (sl : Slice) : Except Err (List Int) := do
  let (start, _, step, cnt) ← sliceParams len sl
  return (List.range cnt).map fun (k : Nat) => start + (k : Int) * step

/-- `l[start:stop:step]` -/
def sliceList {α : Type} [Inhabited α] (l : List α) (sl : Slice) : Except Err (List α) := do
  let idx ← sliceIdx l.length sl
  return idx.map fun i => l.getD i.toNat default

/-! ### printing integers -/

/-- `str(x)` of a Python int, as characters -/
def intChars (x : Int) : List Char :=
  if x < 0 then '-' :: Nat.toDigits 10 x.natAbs else Nat.toDigits 10 x.natAbs

/-! ### State -/

/-- `lightworks.State`: the private list `__s`; contents are not validated by the constructor,
so any integers (negative ones included) are admitted -/
structure State where
  s : List Int
deriving DecidableEq, Repr

namespace State

def nPhotons (a : State) : Int := a.s.sum
def nModes (a : State) : Nat := a.s.length
/-- `__len__` -/
def len (a : State) : Nat := a.nModes
/-- the `s` property: a copy of the contents -/
def getS (a : State) : List Int := a.s
/-- `__iter__`: `yield from self.s` -/
def iter (a : State) : List Int := a.getS

def merge (a b : State) : Except Err State :=
  if a.nModes ≠ b.nModes then .error .value
  else .ok ⟨List.zipWith (· + ·) a.s b.getS⟩

/-- `__add__` -/
def add (a b : State) : State := ⟨a.s ++ b.s⟩

/-- `__eq__` between two States -/
def eq (a b : State) : Bool := a.s == b.getS

/-- `state_to_string` as characters: `"|" + "".join(str(s) + ",") `, last character dropped, `">"` -/
def strChars (a : State) : List Char :=
  ('|' :: a.s.flatMap fun x => intChars x ++ [',']).dropLast ++ ['>']
def str (a : State) : String := String.ofList a.strChars

/-- `__hash__` = Python's string hash of `__str__`; `h` stands for that hash function -/
def hash {H : Type} (h : String → H) (a : State) : H := h a.str

def getItem (a : State) (i : Int) : Except Err Int := SV.getItem a.s i
def slice (a : State) (sl : Slice) : Except Err State := do
  return ⟨← sliceList a.s sl⟩

/-- attribute/item assignment through the API: always refused -/
def setS (_ : State) : Except Err State := .error .state
def setNModes (_ : State) : Except Err State := .error .state
def setItem (_ : State) : Except Err State := .error .state

/-- `_validate` on integer contents -/
def validate (a : State) : Except Err Unit :=
  if a.s.any (· < 0) then .error .value else .ok ()

end State

/-! ### AnnotatedState -/

/-- insertion into a sorted list (`sorted`) -/
def insInt (x : Int) : List Int → List Int
  | [] => [x]
  | y :: ys => if x ≤ y then x :: y :: ys else y :: insInt x ys
def sortInt (l : List Int) : List Int := l.foldr insInt []

/-- `AnnotatedState`: the private list `__s` of per-mode label lists (sorted by the constructor) -/
structure AState where
  s : List (List Int)
deriving DecidableEq, Repr

namespace AState

/-- the constructor on a list of label lists -/
def new (rows : List (List Int)) : AState := ⟨rows.map sortInt⟩

/-- the constructor on arbitrary elements: `none` stands for an element that is not a list -/
def newChecked (rows : List (Option (List Int))) : Except Err AState :=
  if rows.any Option.isNone then .error .type else .ok (new (rows.filterMap id))

def nPhotons (a : AState) : Nat := (a.s.map List.length).sum
def nModes (a : AState) : Nat := a.s.length
def len (a : AState) : Nat := a.nModes
/-- the `s` property: `[list(i) for i in self.__s]` -/
def getS (a : AState) : List (List Int) := a.s
def iter (a : AState) : List (List Int) := a.getS

def merge (a b : AState) : Except Err AState :=
  if a.nModes ≠ b.nModes then .error .value
  else .ok (new (List.zipWith (· ++ ·) a.s b.getS))

def add (a b : AState) : AState := new (a.s ++ b.s)
def eq (a b : AState) : Bool := a.s == b.s

/-- `annotated_state_to_string` as characters -/
def strChars (a : AState) : List Char :=
  ('|' :: a.s.flatMap fun row =>
    if row.length > 0 then
      (Nat.toDigits 10 row.length ++ [':', '('] ++
        (row.flatMap fun l => intChars l ++ [','])).dropLast ++ [')', ',']
    else ['0', ',']).dropLast ++ ['>']
def str (a : AState) : String := String.ofList a.strChars
def hash {H : Type} (h : String → H) (a : AState) : H := h a.str

/-- `__getitem__` with an int (the repaired code returns a copy of the row; see `Alias` below for
the aliasing behaviour of the pinned code, finding F14) -/
def getItem (a : AState) (i : Int) : Except Err (List Int) := SV.getItem a.s i
def slice (a : AState) (sl : Slice) : Except Err AState := do
  return new (← sliceList a.s sl)

/-- AnnotatedStateError (no constructor in `Err`) -/
def setS (_ : AState) : Except Err AState := .error .other
def setNModes (_ : AState) : Except Err AState := .error .other
def setItem (_ : AState) : Except Err AState := .error .other

end AState

/-! ### Aliasing: what client code can do with the values the API hands out

A value object holds its rows in private storage.  Every API read hands the client a *handle*: a
fresh list, or — `AnnotatedState.__getitem__(int)` of the pinned code — a reference to an internal
row.  Client code may then mutate whatever it was handed (`append`).  Integers are immutable in
Python, so `State.__getitem__(int)` hands out nothing mutable; a `State` is the one-row case with
`getRow` unavailable. -/

inductive Handle
  | fresh (v : List Int)
  | internalRow (k : Nat)
deriving DecidableEq, Repr

inductive ClientOp
  | readS                      -- `.s` / iteration: one fresh list per row
  | getRow (i : Int)           -- `obj[i]` on an AnnotatedState
  | setS | setNModes | setItem -- refused assignments
  | slice (sl : Slice)         -- builds a new object from a fresh list
  | append (h : Nat) (x : Int) -- `handle[h].append(x)` in client code
deriving Repr

structure World where
  rows : List (List Int)
  handles : List Handle
deriving DecidableEq, Repr

/-- one client action; `aliasing = true` is the pinned `__getitem__` (returns `self.__s[i]`),
`false` the repaired one (returns `list(self.__s[i])`) -/
def clientStep (aliasing : Bool) (w : World) : ClientOp → World
  | .readS => { w with handles := w.handles ++ w.rows.map Handle.fresh }
  | .getRow i =>
    match pyIndex w.rows.length i with
    | none => w
    | some k =>
      if aliasing then { w with handles := w.handles ++ [Handle.internalRow k] }
      else { w with handles := w.handles ++ [Handle.fresh (w.rows.getD k [])] }
  | .setS | .setNModes | .setItem => w
  | .slice _ => w
  | .append h x =>
    match w.handles[h]? with
    | none => w
    | some (.fresh v) => { w with handles := w.handles.set h (.fresh (v ++ [x])) }
    | some (.internalRow k) => { w with rows := w.rows.modify k (· ++ [x]) }

def clientRun (aliasing : Bool) (w : World) (ops : List ClientOp) : World :=
  ops.foldl (clientStep aliasing) w

/-! ### heralds -/

/-- a herald dictionary `{mode: photons}` in insertion order (keys are unique in a Python dict) -/
abbrev HDict := List (Int × Int)

def HDict.get? (h : HDict) (k : Int) : Option Int := (h.find? (·.1 == k)).map (·.2)

/-- the loop of `add_heralds_to_state` from position `i` for `k` more positions, `st` = the part
of the state not yet consumed; `state[count]` out of range is an IndexError -/
def addGo (h : HDict) : Nat → Nat → List Int → Except Err (List Int)
  | _, 0, _ => .ok []
  | i, k + 1, st =>
    match h.get? (i : Int) with
    | some v => do return v :: (← addGo h (i + 1) k st)
    | none =>
      match st with
      | [] => .error .other  -- IndexError
      | x :: st' => do return x :: (← addGo h (i + 1) k st')

def addHeralds (s : List Int) (h : HDict) : Except Err (List Int) :=
  if h.isEmpty then .ok s else addGo h 0 (s.length + h.length) s

/-- `list.pop(m)` -/
def popAt (l : List Int) (m : Int) : Except Err (List Int) :=
  match pyIndex l.length m with
  | some k => .ok (l.eraseIdx k)
  | none => .error .other  -- IndexError

/-- `sorted(herald_modes, reverse=True)` -/
def sortDesc (l : List Int) : List Int := (sortInt l).reverse

def removeHeralds (s : List Int) (modes : List Int) : Except Err (List Int) :=
  (sortDesc modes).foldlM popAt s

/-! ### dB ↔ decimal loss

`10 ** x` and `log10` are float library calls; the model takes them as a parameter `E` and the
theorems use only their inverse laws (instantiated with the real functions in LW/Proofs). -/

structure ExpLog (K : Type) where
  pow10 : K → K
  log10 : K → K

section DB
variable {K : Type} [Neg K] [Sub K] [Mul K] [Div K] [LT K] [LE K] [OfNat K 0] [OfNat K 1] [OfNat K 10]
  [DecidableLT K] [DecidableLE K]

def absK (x : K) : K := if x < 0 then -x else x

def dbToDec (E : ExpLog K) (loss : K) : K :=
  let loss := -(absK loss)
  1 - E.pow10 (loss / 10)

def decToDb (E : ExpLog K) (loss : K) : Except Err K :=
  if loss < 0 ∨ 1 ≤ loss then .error .value
  else .ok (absK (10 * E.log10 (1 - loss)))
end DB

/-! ### random seeds and permutations -/

/-- what can be passed as `seed` -/
inductive Seed
  | none
  | int (i : Int)
  | bool (b : Bool)
  | real (q : Rat)     -- a finite float / numpy number of value `q`
  | other              -- `int(seed)` raises, or `int(seed) == seed` is False (strings, nan, inf, …)
deriving Repr, DecidableEq

/-- `process_random_seed`; for a finite non-int number `int(seed) == seed` holds exactly when the
value is integral -/
def processSeed : Seed → Except Err (Option Int)
  | .none => .ok none
  | .int i => .ok (some i)
  | .bool _ => .error .type
  | .real q => if q.den = 1 then .ok (some q.num) else .error .type
  | .other => .error .type

/-- `rng.permutation(np.identity(N))`: row `i` of the result is row `σ[i]` of the identity; `σ` is
the order drawn by numpy's generator (an input of the model: the random tape) -/
def permRows {K : Type} [Zero K] [One K] (N : Nat) (σ : List Nat) : M K :=
  M.ofFn N fun i j => if σ.getD i N = j then 1 else 0

def randomPermutation {K : Type} [Zero K] [One K] (N : Nat) (seed : Seed) (tape : Option Int → List Nat) :
    Except Err (M K) := do
  let sd ← processSeed seed
  return permRows N (tape sd)

end LW.SV
