/-
  LW.Model.Reck — the Reck (triangular) decomposition and `Reck.map` (C14).

  Mirrors lightworks/interferometers/decomposition.py (`reck_decomposition`, `bs_matrix`,
  `check_null`) and lightworks/interferometers/reck.py (`Reck.map`).

  Exact reals instead of floats (DESIGN §3.1).  Every float call of the code is a field of the
  interface `Num K`; the model is generic in it:
    * `abs(u_ij) < 1e-20`                                  ↦  `small u_ij`
    * `theta = 2*arctan(|u_ij1|/|u_ij|)`, `phi = angle(u_ij) - angle(u_ij1)`
                                                           ↦  `trig u_ij u_ij1 : Cell K`
      = (cos θ/2, sin θ/2, e^{iθ/2}, e^{iφ}); the theorems constrain it algebraically
      (`CellOk`, `Nulls`), the driver computes it exactly when it is rational,
    * `np.angle(z)` of a residual diagonal entry, read back through `exp(1j·)` by the phase
      shifter                                              ↦  `ang z = e^{i·angle z}`
    * `check_unitary`, `check_null` (tolerances 1e-10)      ↦  `isUnitary`, `isNull`
  A programmed phase `(v + offset) % 2π` is represented by the circle point `e^{iv}·e^{i·offset}`;
  the numerical wrap itself is modelled on rationals in LW.Model.ReckNoise (`pmod`).
-/
import LW.Model.Circuit

namespace LW
namespace Reck

variable {K : Type}

/-- the settings of one unit cell as the results of the trigonometric calls:
`c = cos(θ/2)`, `s = sin(θ/2)`, `w = e^{iθ/2}`, `p = e^{iφ}` -/
structure Cell (K : Type) where
  c : K
  s : K
  w : K
  p : K
deriving Repr

/-- the float operations of `reck_decomposition` / `Reck.map` as exact functions -/
structure Num (K : Type) where
  small : K → Bool
  trig : K → K → Cell K
  ang : K → K
  isUnitary : M K → Bool
  isNull : M K → Bool

/-- coordinate of a unit cell: the `a_b` of the keys `bs_{a}_{b}` / `ps_{a}_{b}` -/
abbrev Key := Nat × Nat

section
variable [Add K] [Mul K] [Neg K] [Zero K] [One K]

/-- `bs_matrix(mode1, mode2, theta, phi, n_modes)`; `i` is the imaginary unit,
`gp = 1j * exp(1j*theta/2)` -/
def bsMatrix (i : K) (n m1 m2 : Nat) (x : Cell K) : M K :=
  let gp := i * x.w
  embed2 n m1 m2 (-(x.p * x.s * gp)) (x.c * gp) (x.p * x.c * gp) (x.s * gp)

/-- `np.flip(U, axis=(0, 1))` -/
def flip (U : M K) : M K := M.ofFn U.n fun a b => U.get (U.n - 1 - a) (U.n - 1 - b)

/-- the loop `for i in range(n-1): for j in range(n-1-i)` as the list of `(i, j)` -/
def stepsRow (n a : Nat) : List (Nat × Nat) := (List.range (n - 1 - a)).map fun j => (a, j)
def steps (n : Nat) : List (Nat × Nat) := (List.range (n - 1)).flatMap (stepsRow n)

/-- `theta, phi` chosen at step `(a, j)`: `(π, 0)` when the entry is already (numerically) zero -/
def stepCell (N : Num K) (i : K) (U : M K) (a j : Nat) : Cell K :=
  let loc := U.n - 1 - a
  if N.small (U.get loc j) then ⟨0, 1, i, 1⟩ else N.trig (U.get loc j) (U.get loc (j + 1))

section
variable [HasConj K]

/-- `unitary = unitary @ np.conj(tr_ij.T)` -/
def nullStep (i : K) (U : M K) (j : Nat) (x : Cell K) : M K :=
  U.mul (bsMatrix i U.n j (j + 1) x).dagger

/-- loop state: the matrix being nulled and `phase_map` (insertion order; the two entries
`bs_…`, `ps_…` of one cell are kept together under their common coordinate) -/
structure St (K : Type) where
  U : M K
  pm : List (Key × Cell K)

def decompStep (N : Num K) (i : K) (st : St K) (aj : Nat × Nat) : St K :=
  let x := stepCell N i st.U aj.1 aj.2
  ⟨nullStep i st.U aj.2 x, st.pm ++ [((aj.2 + 2 * aj.1, aj.2), x)]⟩

def decompLoop (N : Num K) (i : K) (U : M K) : St K :=
  (steps U.n).foldl (decompStep N i) ⟨U, []⟩

/-- `reck_decomposition(unitary)`: `(phase_map, end_phases)`;
`ValueError` when not unitary, `DecompositionUnsuccessful` (`.other`) when `check_null` fails -/
def reckDecomposition (N : Num K) (i : K) (U : M K) : Except Err (List (Key × Cell K) × List K) :=
  if !N.isUnitary U then .error .value
  else
    let st := decompLoop N i U
    if !N.isNull st.U then .error .other
    else .ok (st.pm, (List.range U.n).map fun k => N.ang (st.U.get k k))

end

/-- what `Reck.map` reads from the circuit it is given: `n_modes`, `U`, `heralds` -/
structure Src (K : Type) where
  n : Nat
  U : M K
  inHer : Dict
  outHer : Dict

def Src.ofCirc (i : K) (c : Circ K) : Src K := ⟨c.n, c.U i, c.inHer, c.outHer⟩

/-- the values the error model returns during one `map`, per unit cell `(a, j)`:
beam-splitter reflectivities as `(√r, √(1-r))`, the loss of the second beam splitter as
`(√(1-ℓ), √ℓ)` (`none` ⇔ `ℓ = 0`, the code's `loss > 0` test), phase offsets as `e^{i·offset}`;
the `…Ok` flags say that the drawn value lies in `[0, 1]` (otherwise the component raises) -/
structure EM (K : Type) where
  bs1 : Nat → Nat → K × K
  bs2 : Nat → Nat → K × K
  loss : Nat → Nat → Option (K × K)
  offTheta : Nat → Nat → K
  offPhi : Nat → Nat → K
  offEnd : Nat → K
  refl1Ok : Nat → Nat → Bool := fun _ _ => true
  refl2Ok : Nat → Nat → Bool := fun _ _ => true
  lossOk : Nat → Nat → Bool := fun _ _ => true

/-- the default `ErrorModel()`: reflectivity 0.5 (`h = √½`), no loss, no offset -/
def EM.ideal (h : K) : EM K :=
  { bs1 := fun _ _ => (h, h), bs2 := fun _ _ => (h, h), loss := fun _ _ => none,
    offTheta := fun _ _ => 1, offPhi := fun _ _ => 1, offEnd := fun _ => 1 }

/-- `phase_map["…" + coord]` (`KeyError` ↦ `.other`) -/
def lookup (pm : List (Key × Cell K)) (k : Key) : Except Err (Cell K) :=
  match pm.find? (fun e => e.1 == k) with
  | some e => .ok e.2
  | none => .error .other

/-- body of the construction loop of `Reck.map` for cell `(a, j)` on a circuit of `n` modes -/
def mapCell (em : EM K) (n : Nat) (pm : List (Key × Cell K)) (c : Circ K) (aj : Nat × Nat) :
    Except Err (Circ K) := do
  let a := aj.1
  let j := aj.2
  let x ← lookup pm (j + 2 * a, j)
  let mode : Int := (n : Int) - (j : Int) - 2
  let c ← c.barrier (some [mode, mode + 1])
  let c ← c.ps (mode + 1) (x.p * em.offPhi a j) none
  let c ← c.bs mode (mode + 1) (em.bs1 a j) .rx none (em.refl1Ok a j) true
  let c ← c.ps mode (x.w * x.w * em.offTheta a j) none
  c.bs mode (mode + 1) (em.bs2 a j) .rx (em.loss a j) (em.refl2Ok a j) (em.lossOk a j)

/-- `mapped_circuit.ps(n_modes - i - 1, end_phases[i])` -/
def mapEnd (em : EM K) (n : Nat) (ends : List K) (c : Circ K) (k : Nat) : Except Err (Circ K) :=
  match ends[k]? with
  | none => .error .other
  | some e => c.ps ((n : Int) - (k : Int) - 1) (e * em.offEnd k) none

/-- the herald loop: `zip(heralds["input"], heralds["output"], strict=True)`;
`RuntimeError` (`.other`) on mismatching photon numbers -/
def mapHerald (c : Circ K) (io : (Nat × Nat) × (Nat × Nat)) : Except Err (Circ K) :=
  if io.1.2 != io.2.2 then .error .other
  else c.herald io.1.2 (io.1.1 : Int) (io.2.1 : Int)

variable [HasConj K]

/-- `Reck(error_model).map(circuit)` -/
def map (N : Num K) (em : EM K) (i : K) (src : Src K) : Except Err (Circ K) := do
  let unitary := flip src.U
  let (pm, ends) ← reckDecomposition N i unitary
  let n := src.n
  let c : Circ K := Circ.new n
  let c ← (steps n).foldlM (mapCell em n pm) c
  let c ← c.barrier none
  let c ← (List.range n).foldlM (mapEnd em n ends) c
  if src.inHer.length != src.outHer.length then throw .value
  (src.inHer.zip src.outHer).foldlM mapHerald c

/-! ### specification side: the circuit `map` is meant to build, written down directly -/

/-- components of the unit cell `(a, j)` with settings `x` -/
def cellSpec (em : EM K) (n : Nat) (x : Cell K) (a j : Nat) : List (Comp K) :=
  let mode := n - j - 2
  [.prim (.barrier [mode, mode + 1]),
   .prim (.ps (mode + 1) (x.p * em.offPhi a j)),
   .prim (.bs mode (mode + 1) (em.bs1 a j).1 (em.bs1 a j).2 .rx),
   .prim (.ps mode (x.w * x.w * em.offTheta a j)),
   .prim (.bs mode (mode + 1) (em.bs2 a j).1 (em.bs2 a j).2 .rx)] ++
  (match em.loss a j with
   | none => []
   | some (la, lb) => [.prim (.loss mode la lb), .prim (.loss (mode + 1) la lb)])

/-- the whole interferometer for a list of `(step, settings)` and residual phases `ends` -/
def mapSpec (em : EM K) (n : Nat) (cells : List ((Nat × Nat) × Cell K)) (ends : List K) :
    List (Comp K) :=
  cells.flatMap (fun e => cellSpec em n e.2 e.1.1 e.1.2) ++
  [.prim (.barrier (List.range n))] ++
  (List.range n).map (fun k => .prim (.ps (n - k - 1) (ends.getD k 1 * em.offEnd k)))

/-- the interferometer that realises given cell settings and residual phases as a matrix in the
decomposition's (flipped) coordinates: `D · T_K ⋯ T_1` -/
def synth (i : K) (n : Nat) (cells : List ((Nat × Nat) × Cell K)) (ends : List K) : M K :=
  (M.ofFn n fun r k => if r = k then ends.getD r 1 else 0).mul
    (cells.foldl (fun A e => (bsMatrix i n e.1.2 (e.1.2 + 1) e.2).mul A) (M.one n))

end

end Reck
end LW
