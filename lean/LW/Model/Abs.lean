/-
  LW.Model.Abs — the abstraction map from the bookkeeping state of a circuit (`Circ`) to its
  specification-level meaning (`Optic`): ports are the non-ancilla modes in order, ancilla indices
  follow the `internal` list, loss indices follow the compiled loss modes, and the herald list
  pairs the i-th input herald with the i-th output herald in declaration order.
  The refinement theorem of C02 states that every construction call commutes with this map
  (on canonical closed forms).
-/
import LW.Model.Optic
import LW.Model.CircuitSpec

namespace LW

variable {K : Type} [Add K] [Mul K] [Neg K] [Zero K] [One K]

namespace Circ

/-- the non-ancilla modes, ascending -/
def portModes (c : Circ K) : List Nat := (List.range c.n).filter fun m => !c.internal.contains m

/-- position of a full mode in the optic's index space `[ports | ancillas | loss]` -/
def optIndex (c : Circ K) (m : Nat) : Nat :=
  match c.internal.idxOf? m with
  | some j => c.portModes.length + j
  | none => (c.portModes.idxOf? m).getD 0

/-- full mode (or loss index) behind an optic index -/
def optMode (c : Circ K) (r : Nat) : Nat :=
  let p := c.portModes.length
  if r < p then c.portModes.getD r 0
  else if r < p + c.internal.length then c.internal.getD (r - p) 0
  else c.n + (r - p - c.internal.length)

def toOptic (i : K) (c : Circ K) : Optic K :=
  let U := c.Ufull i
  let p := c.portModes.length
  let a := c.internal.length
  let l := U.n - c.n
  { p := p, a := a, l := l,
    W := M.ofFn (p + a + l) fun r k => U.get (c.optMode r) (c.optMode k),
    her := (c.inHer.zip c.outHer).map fun (x, y) => ⟨c.optIndex x.1, c.optIndex y.1, x.2⟩ }

end Circ

end LW
