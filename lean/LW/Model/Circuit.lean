/-
  LW.Model.Circuit — components, compilation and the Circuit construction API.

  Mirrors lightworks/sdk/circuit/{components,compiler,circuit,circuit_utils}.py and
  sdk/utils/{permutation_conversion,matrix_utils}.py.

  Scalar inputs are the *results* of the float calls the code makes (DESIGN §3.1):
    bs   : (c, s)  = (cos θ, sin θ) = (√r, √(1-r))
    ps   : p       = e^{iφ}
    loss : (a, b)  = (√(1-ℓ), √ℓ)
-/
import LW.Model.Mat

namespace LW

inductive Conv | rx | h
deriving DecidableEq, Repr, Inhabited

/-- Python dict with integer keys: insertion-ordered association list. -/
abbrev Dict := List (Nat × Nat)

namespace Dict
def get? (d : Dict) (k : Nat) : Option Nat := (d.find? (·.1 == k)).map (·.2)
def getD (d : Dict) (k : Nat) (dflt : Nat) : Nat := (d.get? k).getD dflt
def contains (d : Dict) (k : Nat) : Bool := d.any (·.1 == k)
def keys (d : Dict) : List Nat := d.map (·.1)
def vals (d : Dict) : List Nat := d.map (·.2)
/-- `d[k] = v` : overwrite in place if present, else append -/
def set (d : Dict) (k v : Nat) : Dict :=
  if d.contains k then d.map fun p => if p.1 == k then (k, v) else p else d ++ [(k, v)]
/-- build a dict from a list of pairs with Python's later-wins, first-position semantics -/
def ofPairs (ps : List (Nat × Nat)) : Dict := ps.foldl (fun d p => d.set p.1 p.2) []
end Dict

/-- insertion sort on naturals (structural; `sorted(...)`) -/
def insertSorted (x : Nat) : List Nat → List Nat
  | [] => [x]
  | y :: ys => if x ≤ y then x :: y :: ys else y :: insertSorted x ys
def sortNat (l : List Nat) : List Nat := l.foldr insertSorted []

variable {K : Type}

/-- leaf components -/
inductive Prim (K : Type)
  | bs (m1 m2 : Nat) (c s : K) (conv : Conv)
  | ps (m : Nat) (p : K)
  | loss (m : Nat) (a b : K)
  | barrier (ms : List Nat)
  | swaps (σ : Dict)
  | unitary (m : Nat) (u : M K)
deriving Repr

/-- a circuit-spec entry; groups hold unpacked (group-free) specs, as in the code -/
inductive Comp (K : Type)
  | prim (p : Prim K)
  | group (cs : List (Prim K)) (m1 m2 : Nat) (hin hout : Dict)
deriving Repr

section Matrices
variable [Add K] [Mul K] [Neg K] [Zero K] [One K]

/-- `permutation_mat_from_swaps_dict`: `P[σ i, i] = 1` with missing modes fixed -/
def permMat (σ : Dict) (n : Nat) : M K :=
  M.ofFn n fun r c => if σ.getD c c = r then 1 else 0

/-- identity on `n` modes except the 2×2 block `[[a, b], [c, d]]` on modes `(m1, m2)`
(written in the order the code assigns the four entries, so for `m1 = m2` the first wins) -/
def embed2 (n m1 m2 : Nat) (a b c d : K) : M K :=
  M.ofFn n fun r k =>
    if r = m1 ∧ k = m1 then a else if r = m1 ∧ k = m2 then b
    else if r = m2 ∧ k = m1 then c else if r = m2 ∧ k = m2 then d
    else if r = k then 1 else 0

/-- identity on `n` modes except the diagonal entry `p` on mode `m` -/
def embed1 (n m : Nat) (p : K) : M K :=
  M.ofFn n fun r k => if r = k then (if r = m then p else 1) else 0

/-- a `u.n × u.n` block placed on modes `m … m + u.n - 1`, identity elsewhere -/
def embedBlock (n m : Nat) (u : M K) : M K :=
  M.ofFn n fun r k =>
    if m ≤ r ∧ r < m + u.n ∧ m ≤ k ∧ k < m + u.n then u.get (r - m) (k - m)
    else if r = k then 1 else 0

/-- the `n × n` matrix `get_unitary(n)` of a leaf component; `i : K` is the imaginary unit -/
def Prim.mat (i : K) (n : Nat) : Prim K → M K
  | .bs m1 m2 c s .rx => embed2 n m1 m2 c (i * s) (i * s) c
  | .bs m1 m2 c s .h => embed2 n m1 m2 c s s (-c)
  | .ps m p => embed1 n m p
  -- rotation dilation on (m, n-1): [[a, b], [-b, a]]  (repaired code, F20)
  | .loss m a b => embed2 n m (n - 1) a b (-b) a
  | .barrier _ => M.one n
  | .swaps σ => permMat σ n
  | .unitary m u => embedBlock n m u

/-- compile state: current matrix (dimension = n + loss modes) -/
def compilePrim (i : K) (U : M K) : Prim K → M K
  | .barrier _ => U
  | .loss m a b =>
      let U' := U.pad 1
      ((Prim.loss m a b).mat i U'.n).mul U'
  | p => (p.mat i U.n).mul U

def compileComp (i : K) (U : M K) : Comp K → M K
  | .prim p => compilePrim i U p
  | .group cs _ _ _ _ => cs.foldl (compilePrim i) U

/-- `CompiledCircuit` built from a spec on `n` modes: `U_full` -/
def compile (i : K) (n : Nat) (spec : List (Comp K)) : M K :=
  spec.foldl (compileComp i) (M.one n)

end Matrices

/-- number of loss elements (through groups) -/
def Prim.isLoss : Prim K → Bool
  | .loss .. => true
  | _ => false
def Comp.lossCount : Comp K → Nat
  | .prim p => if p.isLoss then 1 else 0
  | .group cs .. => (cs.filter Prim.isLoss).length
def lossCount (spec : List (Comp K)) : Nat := (spec.map Comp.lossCount).sum

/-! ### spec rewriting utilities (circuit_utils.py) -/

def bump (mode m : Nat) : Nat := if m ≥ mode then m + 1 else m

def bumpDict (mode : Nat) (d : Dict) : Dict :=
  -- rebuilds through dict assignment, as the code does
  Dict.ofPairs (d.map fun p => (bump mode p.1, p.2))

section
variable [Zero K] [One K]

/-- `add_mode_to_unitary` -/
def addModeToUnitary (u : M K) (k : Nat) : M K :=
  M.ofFn (u.n + 1) fun r c =>
    if r = k ∨ c = k then (if r = c then 1 else 0)
    else u.get (if r > k then r - 1 else r) (if c > k then c - 1 else c)

def Prim.addEmptyMode (mode : Nat) : Prim K → Prim K
  | .bs m1 m2 c s cv => .bs (bump mode m1) (bump mode m2) c s cv
  | .ps m p => .ps (bump mode m) p
  | .loss m a b => .loss (bump mode m) a b
  | .barrier ms => .barrier (ms.map (bump mode))
  | .swaps σ => .swaps (Dict.ofPairs (σ.map fun p => (bump mode p.1, bump mode p.2)))
  | .unitary m u =>
      let m' := bump mode m
      if m' < mode ∧ mode < m' + u.n then .unitary m' (addModeToUnitary u (mode - m'))
      else .unitary m' u

/-- herald re-indexing of a group: uses the *already shifted* `mode_1`, as the code does -/
def bumpGroupHeralds (mode m1' : Nat) (d : Dict) : Dict :=
  Dict.ofPairs (d.map fun p => (if mode ≥ m1' ∧ p.1 ≥ mode - m1' then p.1 + 1 else p.1, p.2))

def Comp.addEmptyMode (mode : Nat) : Comp K → Comp K
  | .prim p => .prim (p.addEmptyMode mode)
  | .group cs m1 m2 hin hout =>
      let m1' := bump mode m1
      .group (cs.map (Prim.addEmptyMode mode)) m1' (bump mode m2)
        (bumpGroupHeralds mode m1' hin) (bumpGroupHeralds mode m1' hout)

end

def Prim.shift (k : Nat) : Prim K → Prim K
  | .bs m1 m2 c s cv => .bs (m1 + k) (m2 + k) c s cv
  | .ps m p => .ps (m + k) p
  | .loss m a b => .loss (m + k) a b
  | .barrier ms => .barrier (ms.map (· + k))
  | .swaps σ => .swaps (Dict.ofPairs (σ.map fun p => (p.1 + k, p.2 + k)))
  | .unitary m u => .unitary (m + k) u

def Comp.shift (k : Nat) : Comp K → Comp K
  | .prim p => .prim (p.shift k)
  | .group cs m1 m2 hin hout => .group (cs.map (Prim.shift k)) (m1 + k) (m2 + k) hin hout

/-- `unpack_circuit_spec` (groups never nest) -/
def unpackSpec (spec : List (Comp K)) : List (Comp K) :=
  spec.flatMap fun
    | .prim p => [.prim p]
    | .group cs .. => cs.map .prim

def Comp.toPrims : Comp K → List (Prim K)
  | .prim p => [p]
  | .group cs .. => cs

/-! ### the Circuit object -/

structure Circ (K : Type) where
  n : Nat
  spec : List (Comp K) := []
  inHer : Dict := []
  outHer : Dict := []
  extIn : Dict := []
  extOut : Dict := []
  internal : List Nat := []
deriving Repr

inductive Err
  | modeRange | value | type | compilation | notImplemented | display | state | other
  | modeMismatch | photonNumber | sampler | backend
deriving DecidableEq, Repr, Inhabited

def Err.toString : Err → String
  | .modeRange => "ModeRangeError" | .value => "ValueError" | .type => "TypeError"
  | .compilation => "CircuitCompilationError" | .notImplemented => "NotImplementedError"
  | .display => "DisplayError" | .state => "StateError" | .other => "Exception"
  | .modeMismatch => "ModeMismatchError" | .photonNumber => "PhotonNumberError"
  | .sampler => "SamplerError" | .backend => "BackendError"
instance : ToString Err := ⟨Err.toString⟩

namespace Circ

def new (n : Nat) : Circ K := { n := n }

/-- `_map_mode` : user mode → full mode, skipping internal (ancilla) modes -/
def mapMode (c : Circ K) (mode : Int) : Int :=
  (sortNat c.internal).foldl (fun (m : Int) (i : Nat) => if m ≥ (i : Int) then m + 1 else m) mode

/-- `_mode_in_range` on an integer mode -/
def modeInRange (c : Circ K) (mode : Int) : Except Err Nat :=
  if 0 ≤ mode ∧ mode < (c.n : Int) then .ok mode.toNat else .error .modeRange

def inputModes (c : Circ K) : Nat := c.n - c.inHer.length

section
variable [Zero K] [One K]

/-- `_add_empty_mode` applied to the circuit's own bookkeeping (the spec is passed separately) -/
def addEmptyModeBook (c : Circ K) (mode : Nat) : Circ K :=
  { c with
    n := c.n + 1
    inHer := bumpDict mode c.inHer
    outHer := bumpDict mode c.outHer
    extIn := bumpDict mode c.extIn
    extOut := bumpDict mode c.extOut
    internal := c.internal.map (bump mode) }

def addEmptyModeSpec (spec : List (Comp K)) (mode : Nat) : List (Comp K) :=
  spec.map (Comp.addEmptyMode mode)

/-- `unpack_groups` -/
def unpackGroups (c : Circ K) : Circ K :=
  { c with internal := [], extIn := c.inHer, extOut := c.outHer, spec := unpackSpec c.spec }

/-- `while current_mode in provisional_swaps.values(): current_mode += 1` -/
def synthSkip (prov : Dict) : Nat → Nat → Nat
  | 0, cur => cur
  | fuel + 1, cur => if prov.vals.contains cur then synthSkip prov fuel (cur + 1) else cur

def synthGo (nModes : Nat) (prov : Dict) : Nat → Nat → Nat → Dict → Dict
  | 0, _, _, acc => acc
  | fuel + 1, i, cur, acc =>
    if prov.contains i then synthGo nModes prov fuel (i + 1) cur (acc.set i (prov.getD i 0))
    else
      let cur' := synthSkip prov (nModes + 1) cur
      let acc' := if i ≠ cur' then acc.set i cur' else acc
      synthGo nModes prov fuel (i + 1) (cur' + 1) acc'

/-- swap dictionary that returns each output herald to its input herald mode and packs the
remaining modes, in order, onto the lowest free modes (`Circuit.add`) -/
def synthSwaps (nModes : Nat) (prov : Dict) : Dict := synthGo nModes prov nModes 0 0 []

/-- state threaded through the pass-through insertion loop of `add` -/
structure AddSt (K : Type) where
  sub : Circ K
  spec : List (Comp K)

/-- `Circuit.add` (repaired ordering: swaps first, then pass-through modes, re-check, then
new ancilla modes in the parent).  `grouped` is the `group` flag. -/
def add (self : Circ K) (circuit : Circ K) (mode : Int) (grouped : Bool) : Except Err (Circ K) := do
  let modeI := self.mapMode mode
  let mode ← self.modeInRange modeI
  let circuitCopy := circuit.unpackGroups
  let grouped := grouped || !circuitCopy.inHer.isEmpty
  let circuit := if grouped then circuitCopy else circuit
  let spec := circuit.spec
  let nHer := circuit.inHer.length
  if mode + circuit.n - nHer > self.n then throw .modeRange
  -- swaps returning heralds to their input mode
  let prov : Dict := Dict.ofPairs (circuit.outHer.keys.zip circuit.inHer.keys)
  let swaps := synthSwaps circuit.n prov
  let spec := if swaps.keys != swaps.vals then spec ++ [.prim (.swaps swaps)] else spec
  -- pass-through modes for the parent's existing ancillas
  let st : AddSt K := (sortNat self.internal).foldl (fun (st : AddSt K) (i : Nat) =>
      let target : Int := (sortNat st.sub.inHer.keys).foldl
        (fun (t : Int) (m : Nat) => if t > (m : Int) then t + 1 else t) ((i : Int) - (mode : Int))
      if 0 ≤ target ∧ target < (st.sub.n : Int) then
        { sub := st.sub.addEmptyModeBook target.toNat,
          spec := addEmptyModeSpec st.spec target.toNat }
      else st) ⟨circuit, spec⟩
  let circuit := st.sub
  let spec := st.spec
  if mode + circuit.n - nHer > self.n then throw .modeRange
  -- new ancilla modes in the parent
  let self' : Circ K := (sortNat circuit.inHer.keys).foldl (fun s m =>
      let s' := s.addEmptyModeBook (mode + m)
      { s' with spec := addEmptyModeSpec s'.spec (mode + m), internal := s'.internal ++ [mode + m] })
    self
  let self' : Circ K := circuit.inHer.foldl (fun s p =>
      { s with inHer := s.inHer.set (p.1 + mode) p.2, outHer := s.outHer.set (p.1 + mode) p.2 })
    self'
  let addCs := spec.map (Comp.shift mode)
  if !grouped then
    return { self' with spec := self'.spec ++ addCs }
  else
    return { self' with spec := self'.spec ++
      [.group (addCs.flatMap Comp.toPrims) mode (mode + circuit.n - 1) circuit.inHer circuit.inHer] }

end

/-- `Circuit.__add__` -/
def plus (a b : Circ K) : Except Err (Circ K) :=
  if a.n ≠ b.n then .error .modeRange
  else if !a.inHer.isEmpty || !b.inHer.isEmpty then .error .notImplemented
  else .ok { n := a.n, spec := a.spec ++ b.spec }

/-- `herald(n, input_mode, output_mode)` -/
def herald (c : Circ K) (nPhot : Nat) (inMode outMode : Int) : Except Err (Circ K) := do
  let i ← c.modeInRange (c.mapMode inMode)
  let o ← c.modeInRange (c.mapMode outMode)
  if c.inHer.contains i then throw .value
  if c.outHer.contains o then throw .value
  return { c with inHer := c.inHer.set i nPhot, outHer := c.outHer.set o nPhot,
                  extIn := c.extIn.set i nPhot, extOut := c.extOut.set o nPhot }

/-- `bs(mode_1, mode_2, reflectivity, loss, convention)`; `lossAB = none` when `loss = 0`.
`valid = false` stands for a reflectivity / loss value outside `[0, 1]` (→ `ValueError`). -/
def bs (c : Circ K) (m1 m2 : Int) (cs : K × K) (cv : Conv) (lossAB : Option (K × K))
    (reflValid lossValid : Bool := true) : Except Err (Circ K) := do
  let a ← c.modeInRange (c.mapMode m1)
  let bI := c.mapMode m2
  if (a : Int) = bI then throw .modeRange
  let b ← c.modeInRange bI
  if !lossValid then throw .value
  if !reflValid then throw .value
  let spec := c.spec ++ [.prim (.bs a b cs.1 cs.2 cv)]
  match lossAB with
  | none => return { c with spec := spec }
  | some (la, lb) => return { c with spec := spec ++ [.prim (.loss a la lb), .prim (.loss b la lb)] }

def ps (c : Circ K) (m : Int) (p : K) (lossAB : Option (K × K)) (lossValid : Bool := true) :
    Except Err (Circ K) := do
  let a ← c.modeInRange (c.mapMode m)
  if !lossValid then throw .value
  let spec := c.spec ++ [.prim (.ps a p)]
  match lossAB with
  | none => return { c with spec := spec }
  | some (la, lb) => return { c with spec := spec ++ [.prim (.loss a la lb)] }

def loss (c : Circ K) (m : Int) (ab : K × K) (lossValid : Bool := true) : Except Err (Circ K) := do
  let a ← c.modeInRange (c.mapMode m)
  if !lossValid then throw .value
  return { c with spec := c.spec ++ [.prim (.loss a ab.1 ab.2)] }

/-- `barrier(modes)`; `none` = all user modes -/
def barrier (c : Circ K) (modes : Option (List Int)) : Except Err (Circ K) := do
  let ms : List Int := match modes with
    | some l => l
    | none => (List.range (c.n - c.internal.length)).map Int.ofNat
  let ms' ← ms.mapM fun m => c.modeInRange (c.mapMode m)
  return { c with spec := c.spec ++ [.prim (.barrier ms')] }

/-- `mode_swaps(swaps)`; the dict is given as its item list (keys distinct) -/
def modeSwaps (c : Circ K) (swaps : List (Int × Int)) : Except Err (Circ K) := do
  -- remapped dict (keys may collide after remapping only if they collided before)
  let remapped := swaps.map fun p => (c.mapMode p.1, c.mapMode p.2)
  -- Python: dict comprehension first, then range checks over keys then values
  let ks ← remapped.mapM fun p => c.modeInRange p.1
  let vs ← remapped.mapM fun p => c.modeInRange p.2
  let d := Dict.ofPairs (ks.zip vs)
  if sortNat d.keys != sortNat d.vals then throw .value
  return { c with spec := c.spec ++ [.prim (.swaps d)] }

/-- `copy()` — value semantics make this the identity on the model -/
def copy (c : Circ K) : Circ K := c

/-- heralds as the compiled circuit sees them: the i-th input herald paired with the i-th
output herald in declaration order (`_build_process`) -/
def heraldPairs (c : Circ K) : List (Nat × Nat × Nat) :=
  (c.inHer.zip c.outHer).map fun (i, o) => (i.2, i.1, o.1)

section
variable [Add K] [Mul K] [Neg K] [Zero K] [One K]
def Ufull (i : K) (c : Circ K) : M K := compile i c.n c.spec
def U (i : K) (c : Circ K) : M K := (c.Ufull i).lead c.n
end

end Circ

end LW
