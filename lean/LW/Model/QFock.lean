/-
  LW.Model.QFock — the small Fock-amplitude model used by C13 / C12 (own, self-contained; it does
  not depend on LW.Model.Fock).

  The amplitude of a linear-optical transformation `U` between Fock states `s → t` is
      ⟨t|Φ(U)|s⟩ = perm(U[rows of t | columns of s]) / √(Π s_k! · Π t_k!)
  (rows = output modes, columns = input modes, each mode repeated by its occupation), which is
  how `lightworks.emulator` evaluates it (thewalrus.perm on the sub-matrix).  `permAmp` is the
  numerator, `normSq` the square of the denominator; on states with at most one photon per
  mode — every dual-rail basis state with the gate library's heralds — the denominator is 1.

  Everything is structurally recursive so that it reduces in the kernel.
-/
import LW.Model.Circuit

namespace LW.QF

variable {K : Type}

/-- column index of the minor obtained by deleting column `j` -/
def skip (j c : Nat) : Nat := if c < j then c else c + 1

section
variable [Add K] [Mul K] [Zero K] [One K]

/-- permanent of the leading `n × n` block of `A`, Laplace expansion along the first row -/
def permN : (n : Nat) → (Nat → Nat → K) → K
  | 0, _ => 1
  | n + 1, A => M.sumN (n + 1) fun j => A 0 j * permN n (fun r c => A (r + 1) (skip j c))

/-- product of two `n × n` matrices given as entry functions -/
def mulF (n : Nat) (A B : Nat → Nat → K) : Nat → Nat → K :=
  fun r c => M.sumN n fun k => A r k * B k c

end

/-- mode index repeated by occupation: `[1,0,2] ↦ [0,2,2]` -/
def idxsFrom : Nat → List Nat → List Nat
  | _, [] => []
  | m, k :: t => List.replicate k m ++ idxsFrom (m + 1) t
def idxs (s : List Nat) : List Nat := idxsFrom 0 s

/-- the state on all `n` modes: herald photons on the herald modes, the user state in order on
the remaining modes (missing entries read as 0) -/
def fullStateGo (her : Dict) : Nat → Nat → List Nat → List Nat
  | 0, _, _ => []
  | k + 1, m, s =>
    match her.get? m with
    | some p => p :: fullStateGo her k (m + 1) s
    | none =>
      match s with
      | [] => 0 :: fullStateGo her k (m + 1) []
      | x :: t => x :: fullStateGo her k (m + 1) t
def fullState (her : Dict) (n : Nat) (s : List Nat) : List Nat := fullStateGo her n 0 s

section
variable [Add K] [Mul K] [Zero K] [One K]

/-- unnormalised amplitude between full states (0 when photon numbers differ) -/
def permAmpFull (U : Nat → Nat → K) (ins outs : List Nat) : K :=
  let x := idxs outs
  let y := idxs ins
  if x.length = y.length then permN x.length (fun r c => U (x.getD r 0) (y.getD c 0)) else 0

/-- unnormalised heralded amplitude of a circuit with `n` modes and heralds `hin`/`hout`
between user states `ins → outs` -/
def permAmp (U : Nat → Nat → K) (n : Nat) (hin hout : Dict) (ins outs : List Nat) : K :=
  permAmpFull U (fullState hin n ins) (fullState hout n outs)

end

def fact : Nat → Nat
  | 0 => 1
  | n + 1 => (n + 1) * fact n

/-- `Π s_k! · Π t_k!` — the amplitude is `permAmp / √normSq` -/
def normSq (ins outs : List Nat) : Nat :=
  ((ins.map fact).foldl (· * ·) 1) * ((outs.map fact).foldl (· * ·) 1)

/-- all occupation lists on `m` modes with `p` photons, in the order of
`lightworks` (`fock_basis`: lexicographically decreasing on the first mode) -/
def fockStates : Nat → Nat → List (List Nat)
  | 0, 0 => [[]]
  | 0, _ + 1 => []
  | m + 1, p => (List.range (p + 1)).reverse.flatMap fun k =>
      (fockStates m (p - k)).map fun t => k :: t

/-- dual-rail encoding of a bit string: `0 ↦ [1,0]`, `1 ↦ [0,1]` -/
def dualRail : List Bool → List Nat
  | [] => []
  | false :: t => 1 :: 0 :: dualRail t
  | true :: t => 0 :: 1 :: dualRail t

/-- all bit strings of length `n`, first bit most significant -/
def bitStrings : Nat → List (List Bool)
  | 0 => [[]]
  | n + 1 => (bitStrings n).map (false :: ·) ++ (bitStrings n).map (true :: ·)

/-- a user state lies in the qubit subspace: one photon in each consecutive pair of modes -/
def isDualRail : List Nat → Bool
  | [] => true
  | [_] => false
  | a :: b :: t => (a + b == 1) && isDualRail t

end LW.QF
