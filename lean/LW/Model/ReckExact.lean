/-
  LW.Model.ReckExact — exact evaluation of the float operations of `reck_decomposition` on the
  scalars `Q2 = GQ[√2]` (LW.Model.Q2): sign decisions for the tolerances of `check_unitary` /
  `check_null` / `abs(·) < 1e-20`, rational square roots, and the instance `Reck.Num Q2` used by
  the driver.  Core Lean only.
-/
import LW.Model.Q2
import LW.Model.Reck

namespace LW
namespace Reck
namespace Exact

open LW.Q2 (ofGQ ofRat)

def ratSign (x : Rat) : Int := if x > 0 then 1 else if x < 0 then -1 else 0

/-- sign of the real number `x + y·√2` (`x, y` rational) -/
def sgn (x y : Rat) : Int :=
  if y == 0 then ratSign x
  else if x == 0 then ratSign y
  else if x > 0 && y > 0 then 1
  else if x < 0 && y < 0 then -1
  else if x > 0 then (if x * x > 2 * y * y then 1 else -1)
  else (if 2 * y * y > x * x then 1 else -1)

/-- real and imaginary part as `x + y√2` -/
def reP (z : Q2) : Rat × Rat := (z.a.re, z.b.re)
def imP (z : Q2) : Rat × Rat := (z.a.im, z.b.im)

/-- `|z|²` as `x + y√2` -/
def normSqP (z : Q2) : Rat × Rat :=
  (z.a.normSq + 2 * z.b.normSq, 2 * (z.a.re * z.b.re + z.a.im * z.b.im))

/-- `x + y√2 < t`, `> t`, `= t` for rational `t` -/
def ltR (v : Rat × Rat) (t : Rat) : Bool := sgn (v.1 - t) v.2 < 0
def gtR (v : Rat × Rat) (t : Rat) : Bool := sgn (v.1 - t) v.2 > 0
def eqR (v : Rat × Rat) (t : Rat) : Bool := sgn (v.1 - t) v.2 == 0

/-! ### exact square roots of rationals -/

def natSqrt? (n : Nat) : Option Nat :=
  let r := Nat.sqrt n
  if r * r == n then some r else none

/-- `√q` when it is rational -/
def ratSqrt? (q : Rat) : Option Rat :=
  if q < 0 then none
  else do
    let n ← natSqrt? q.num.toNat
    let d ← natSqrt? q.den
    some (mkRat n d)

def tenPow (k : Nat) : Rat := mkRat 1 (10 ^ k)

/-- a cell that fails every validity check: marks "not representable exactly" -/
def junk : Reck.Cell Q2 := ⟨0, 0, 0, 0⟩

/-- exact evaluation of `theta = 2*arctan(|u1|/|u0|)`, `phi = angle(u0) - angle(u1)` as
`(cos θ/2, sin θ/2, e^{iθ/2}, e^{iφ})` for Gaussian-rational `u0 ≠ 0`, `u1` whenever all four are
Gaussian rationals; `junk` otherwise (the driver then reports the case as not exactly
representable instead of an answer) -/
def trigGQ (u0 u1 : GQ) : Reck.Cell Q2 :=
  let n0 := u0.normSq
  let n1 := u1.normSq
  let r2 := n0 + n1
  match ratSqrt? (n0 / r2), ratSqrt? (n1 / r2) with
  | some c, some s =>
    -- e^{i·angle u} = u/|u| (and 1 for u = 0: numpy's angle(0) = 0)
    let unit (u : GQ) (nn : Rat) : Option GQ :=
      if nn == 0 then some 1 else (ratSqrt? nn).map fun m => GQ.smul (1 / m) u
    match unit u0 n0, unit u1 n1 with
    | some e0, some e1 =>
      ⟨ofRat c, ofRat s, ofGQ ⟨c, s⟩, ofGQ (e0 * conj e1)⟩
    | _, _ => junk
  | _, _ => junk

def exactNum : Reck.Num Q2 where
  small z := ltR (normSqP z) (tenPow 40)
  trig u0 u1 := if u0.b == 0 && u1.b == 0 then trigGQ u0.a u1.a else junk
  ang z := if z.b == 0 && z.a.normSq == 1 then z else 0
  -- np.allclose(U^H U, 1, rtol=0, atol=1e-10): |d| ≤ 1e-10 entrywise
  isUnitary U :=
    let P := U.dagger.mul U
    (List.range U.n).all fun r => (List.range U.n).all fun k =>
      let d := P.get r k - (if r = k then 1 else 0)
      !gtR (normSqP d) (tenPow 20)
  -- check_null: off-diagonal `mat[i,j] > 1e-10` (numpy orders complex numbers
  -- lexicographically) or `imag > 1e-10` fails
  isNull U :=
    (List.range U.n).all fun r => (List.range U.n).all fun k =>
      r == k ||
        let z := U.get r k
        !(gtR (reP z) (tenPow 10) || (eqR (reP z) (tenPow 10) && sgn (imP z).1 (imP z).2 > 0)
          || gtR (imP z) (tenPow 10))


end Exact
end Reck
end LW
