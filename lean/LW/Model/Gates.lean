/-
  LW.Model.Gates — the qubit gate library (lightworks/qubit/gates/*.py), generic in the scalar
  type `K`.

  The algebraic constants the constructors obtain through float `**`, `np.exp`, `np.cos`/`np.sin`
  are *parameters* of the model (record `GC K`, DESIGN §3.1/§3.2) constrained by their defining
  equations in the theorems (`GC.Valid` in LW/Proofs/C13.lean); the definitions below use ring
  operations only, so the same text runs
    * on `Rat`/`S6` towers `ℚ[√2, …]` in the driver and in the kernel (exact), and
    * over any field containing such constants (in particular ℂ) in the lifted theorems.

  Every multi-qubit gate is built through the `Circ` model of `Circuit.add` / `herald` exactly as
  its constructor does (hard-coded unitary, herald placement, `add(..., group=True)`,
  H-conjugation on the chosen target), so `U_full`, `heralds` and `n_modes` are the model's
  outputs, not restated facts.
-/
import LW.Model.Circuit
import LW.Model.QFock
import LW.Model.Quad

namespace LW.Gates

variable {K : Type}

/-- constants of the gate library; a field that a given tower does not contain is set to 0
there and is not used by the gates evaluated over that tower -/
structure GC (K : Type) where
  i : K       -- imaginary unit `1j`
  s2 : K      -- `2**0.5`
  rh : K      -- `2**-0.5`
  half : K    -- `0.5`
  third : K   -- `1/3`
  s3i : K     -- `3**-0.5`
  q4i : K     -- `2**-0.25`
  w : K       -- `(3/2**0.5 - 2)**0.5`
  s7 : K      -- `7**0.5`
  t8 : K      -- `exp(1j*pi/4)`
  t8c : K     -- `exp(-1j*pi/4)`

section
variable [Add K] [Mul K] [Neg K] [Zero K] [One K]

/-- entry function of a 2×2 matrix -/
def m2 (a b c d : K) : Nat → Nat → K := fun r k =>
  match r, k with
  | 0, 0 => a | 0, 1 => b | 1, 0 => c | 1, 1 => d | _, _ => 0

def ofN : Nat → K
  | 0 => 0
  | n + 1 => ofN n + 1

/-! ### single-qubit gates (single_qubit_gates.py) -/

inductive SQ (K : Type)
  | I | H | X | Y | Z | S | Sadj | T | Tadj | SX
  | P (p : K)            -- p = exp(1j*theta)
  | Rx (c s : K)         -- (c, s) = (cos(theta/2), sin(theta/2))
  | Ry (c s : K)
  | Rz (pm pp : K)       -- (pm, pp) = (exp(-1j*theta/2), exp(1j*theta/2))

/-- the 2×2 unitary handed to `Unitary(...)` by the constructor -/
def sqEntry (c : GC K) : SQ K → Nat → Nat → K
  | .I => m2 1 0 0 1
  | .H => m2 c.rh c.rh c.rh (-c.rh)
  | .X => m2 0 1 1 0
  | .Y => m2 0 (-c.i) c.i 0
  | .Z => m2 1 0 0 (-1)
  | .S => m2 1 0 0 c.i
  | .Sadj => m2 1 0 0 (-c.i)
  | .T => m2 1 0 0 c.t8
  | .Tadj => m2 1 0 0 c.t8c
  | .SX => m2 (c.half * (1 + c.i)) (c.half * (1 + -c.i)) (c.half * (1 + -c.i)) (c.half * (1 + c.i))
  | .P p => m2 1 0 0 p
  | .Rx cs sn => m2 cs (-(c.i * sn)) (-(c.i * sn)) cs
  | .Ry cs sn => m2 cs (-sn) sn cs
  | .Rz pm pp => m2 pm 0 0 pp

def sqMat (c : GC K) (g : SQ K) : M K := M.ofFn 2 (sqEntry c g)

/-- `Unitary(u)` -/
def unitaryCirc (u : M K) : Circ K := { n := u.n, spec := [.prim (.unitary 0 u)] }

def sqCirc (c : GC K) (g : SQ K) : Circ K := unitaryCirc (sqMat c g)

/-! ### two-qubit gates (two_qubit_gates.py) -/

/-- `CZ.__init__`: `u_a` -/
def czUnitary (c : GC K) : M K :=
  M.ofFn 6 fun r k =>
    -- u_bs = [[-1, √2], [√2, 1]] / √3 written into the three diagonal 2×2 blocks of identity(6)
    let v := if r / 2 = k / 2 then c.s3i * m2 (-1) c.s2 c.s2 1 (r % 2) (k % 2) else 0
    -- u_a[3, :] = -u_a[3, :]
    if r = 3 then -v else v

def CZ (c : GC K) : Except Err (Circ K) := do
  let un := unitaryCirc (czUnitary c)
  let un ← un.herald 0 0 0
  let un ← un.herald 0 5 5
  (Circ.new 4).add un 0 true

/-- `CNOT(target_qubit)` / `CNOT_Heralded(target_qubit)`: H on the target, the CZ, H on the target,
added as one group.  `cz` is the already constructed CZ variant. -/
def conjH (c : GC K) (nq : Nat) (cz : Except Err (Circ K)) (target : Int) : Except Err (Circ K) := do
  if ¬ (0 ≤ target ∧ target < (nq : Int)) then throw .value
  let circ : Circ K := Circ.new (2 * nq)
  let circ ← circ.add (sqCirc c .H) (2 * target) false
  let g ← cz
  let circ ← circ.add g 0 false
  let circ ← circ.add (sqCirc c .H) (2 * target) false
  (Circ.new (2 * nq)).add circ 0 true

def CNOT (c : GC K) (target : Int) : Except Err (Circ K) := conjH c 2 (CZ c) target

/-- `u_ns` of `CZ_Heralded` -/
def uNS (c : GC K) : Nat → Nat → K := fun r k =>
  match r, k with
  | 0, 0 => 1 + -c.s2 | 0, 1 => c.q4i | 0, 2 => c.w
  | 1, 0 => c.q4i | 1, 1 => c.half | 1, 2 => c.half + -c.rh
  | 2, 0 => c.w | 2, 1 => c.half + -c.rh | 2, 2 => c.s2 + -c.half
  | _, _ => 0

/-- `swaps = {2: 0, 0: 1, 1: 2, 5: 7, 7: 6, 6: 5}` -/
def czhSwaps : Dict := [(2, 0), (0, 1), (1, 2), (5, 7), (7, 6), (6, 5)]

/-- `CZ_Heralded.__init__`: `u_perm2 @ u_bs @ u_a @ u_bs @ u_perm1` -/
def czhUnitary (c : GC K) : M K :=
  let ua : M K := M.ofFn 8 fun r k =>
    let v :=
      if 1 ≤ r ∧ r < 4 ∧ 1 ≤ k ∧ k < 4 then uNS c (3 - r) (3 - k)      -- np.flip(u_ns)
      else if 4 ≤ r ∧ r < 7 ∧ 4 ≤ k ∧ k < 7 then uNS c (r - 4) (k - 4)
      else if r = k then 1 else 0
    if k = 3 then -v else v                                              -- u_a[:, 3] = -u_a[:, 3]
  let ubs : M K := M.ofFn 8 fun r k =>
    if (r = 3 ∧ k = 3) ∨ (r = 4 ∧ k = 4) then c.rh
    else if (r = 3 ∧ k = 4) ∨ (r = 4 ∧ k = 3) then c.i * c.rh
    else if r = k then 1 else 0
  let p1 : M K := permMat czhSwaps 8
  let p2 : M K := p1.transpose                                           -- conj(u_perm1.T), real
  (((p2.mul ubs).mul ua).mul ubs).mul p1

def CZH (c : GC K) : Except Err (Circ K) := do
  let un := unitaryCirc (czhUnitary c)
  let un ← un.herald 0 0 0
  let un ← un.herald 1 1 1
  let un ← un.herald 1 6 6
  let un ← un.herald 0 7 7
  (Circ.new 4).add un 0 true

def CNOTH (c : GC K) (target : Int) : Except Err (Circ K) := conjH c 2 (CZH c) target

/-- Python dict literal `{k1: v1, …}` with integer keys: later value wins, first position kept -/
def dictLit : List (Int × Int) → List (Int × Int)
  | [] => []
  | p :: t =>
    let rest := dictLit t
    -- the value of key p.1 is the last one written
    let v := match (t.reverse.find? (·.1 == p.1)) with
      | some q => q.2
      | none => p.2
    (p.1, v) :: rest.filter (·.1 != p.1)

/-- `SWAP(qubit_1, qubit_2)`; the arguments are the tuples as lists of integers
(`TypeError` for non-integers is not modelled: the model's inputs are integers) -/
def SWAP (q1 q2 : List Int) : Except Err (Circ K) := do
  match q1, q2 with
  | [a0, a1], [b0, b1] =>
    let modes := [a0, a1, b0, b1]
    let nModes := modes.foldl max a0 + 1
    -- `Circuit(n_modes)` itself accepts any integer; a non-positive size fails at the range check
    let circ : Circ K := Circ.new nModes.toNat
    circ.modeSwaps (dictLit [(a0, b0), (b0, a0), (a1, b1), (b1, a1)])
  | _, _ => throw .value

/-! ### three-qubit gates (three_qubit_gates.py) -/

/-- `CCZ.__init__`: `u_a` (10 × 10), row by row as written in the source -/
def cczEntry (c : GC K) : Nat → Nat → K := fun r k =>
  let i := c.i
  let a := c.s3i                        -- 3**-0.5
  let b := i * (c.s2 * c.s3i)           -- 1j*(2/3)**0.5
  match r, k with
  | 0, 0 => a | 0, 3 => b
  | 1, 1 => a | 1, 5 => b
  | 2, 2 => -a | 2, 7 => c.rh | 2, 8 => -(i * (c.rh * c.s3i))
  | 3, 0 => -b | 3, 3 => -a
  | 4, 2 => -(i * (c.s2 * c.third)) | 4, 4 => -a | 4, 7 => -(i * c.s3i) | 4, 8 => c.third
  | 5, 1 => -b | 5, 5 => -a
  | 6, 6 => i * (c.half * c.rh) | 6, 9 => i * (c.s7 * (c.half * c.rh))
  | 7, 2 => -(i * c.s3i) | 7, 4 => c.rh | 7, 7 => -(i * (c.half * c.rh))
  | 7, 8 => -(c.half * (c.rh * c.s3i))
  | 8, 2 => -(i * c.third) | 8, 4 => -(c.rh * c.s3i) | 8, 7 => i * (c.half * (c.rh * c.s3i))
  | 8, 8 => -(ofN 7 * (c.half * (c.third * c.rh)))
  | 9, 6 => -(c.s7 * (c.half * c.rh)) | 9, 9 => c.half * c.rh
  | _, _ => 0

def cczUnitary (c : GC K) : M K := M.ofFn 10 (cczEntry c)

def CCZ (c : GC K) : Except Err (Circ K) := do
  let un := unitaryCirc (cczUnitary c)
  let un ← un.herald 0 0 0
  let un ← un.herald 0 1 1
  let un ← un.herald 0 8 8
  let un ← un.herald 0 9 9
  (Circ.new 6).add un 0 true

def CCNOT (c : GC K) (target : Int) : Except Err (Circ K) := conjH c 3 (CCZ c) target

end

/-! ### the named gates (specification side): action on computational basis bit strings,
first bit = first qubit (lowest modes) -/

def flipAt : Nat → List Bool → List Bool
  | _, [] => []
  | 0, b :: t => (!b) :: t
  | n + 1, b :: t => b :: flipAt n t

/-- all bits except position `t` are set -/
def othersSet (t : Nat) (bs : List Bool) : Bool :=
  (bs.zipIdx.all fun (b, k) => k == t || b)

/-- `C…CNOT` on `bs` with target `t`: flip the target iff every other qubit is 1 -/
def cnotAct (t : Nat) (bs : List Bool) : List Bool := if othersSet t bs then flipAt t bs else bs

/-- sign of `C…CZ`: `-1` iff every qubit is 1 -/
def czSign (bs : List Bool) : Int := if bs.all id then -1 else 1

/-- named matrix entry `⟨out| CZ-type |in⟩` -/
def namedCZ (o i : List Bool) : Int := if o = i then czSign i else 0
/-- named matrix entry `⟨out| CNOT-type with target t |in⟩` -/
def namedCNOT (t : Nat) (o i : List Bool) : Int := if o = cnotAct t i then 1 else 0
/-- named matrix entry of the two-qubit SWAP -/
def namedSWAP (o i : List Bool) : Int := if o = i.reverse then 1 else 0

/-! ### amplitude tables -/

section
variable [Add K] [Mul K] [Neg K] [Zero K] [One K]

/-- `G · k` for a named-matrix entry `G ∈ {0, 1, -1}` -/
def scaleBy (k : K) (g : Int) : K := if g = 0 then 0 else if g = 1 then k else -k

/-- the heralded (unnormalised = normalised, all occupations ≤ 1 on the qubit subspace) amplitude
of a constructed gate between user states -/
def gateAmp (i : K) (c : Circ K) (ins outs : List Nat) : K :=
  QF.permAmp (c.Ufull i).get c.n c.inHer c.outHer ins outs

/-- executable form of the table statement `HasTable` (LW/Proofs/C13.lean): the constructor
succeeds with `2·nq` user modes, and from every dual-rail basis input the amplitude to every
dual-rail output is `k ×` the named entry; with `leakFree`, the amplitude to every other state of
the user modes with the same photon number (= every other output the heralds accept) is 0 -/
def hasTableB [Eqv K] (i : K) (g : Except Err (Circ K)) (nq : Nat) (k : K)
    (G : List Bool → List Bool → Int) (leakFree : Bool) : Bool :=
  match g with
  | .error _ => false
  | .ok c =>
    (c.n - c.inHer.length == 2 * nq) &&
    (QF.bitStrings nq).all fun ib =>
      ((QF.bitStrings nq).all fun ob =>
        Eqv.eqv (gateAmp i c (QF.dualRail ib) (QF.dualRail ob)) (scaleBy k (G ob ib))) &&
      (!leakFree || (QF.fockStates (2 * nq) nq).all fun o =>
        QF.isDualRail o || Eqv.eqv (gateAmp i c (QF.dualRail ib) o) 0)
end

end LW.Gates
