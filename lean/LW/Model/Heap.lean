/-
  LW.Model.Heap — a pool of live circuit objects and the construction API as operations on it
  (C08).  Each operation names the one object it may write (`CircOp.target`); every other object,
  in particular a circuit passed as an argument, is only read.  A rejected call returns the pool
  unchanged together with the error class.
-/
import LW.Model.Circuit
import LW.Model.Rewrite

namespace LW

variable {K : Type}

abbrev Heap (K : Type) := List (String × Circ K)

namespace Heap
def get? (h : Heap K) (k : String) : Option (Circ K) := (h.find? (·.1 == k)).map (·.2)
def set (h : Heap K) (k : String) (c : Circ K) : Heap K :=
  if h.any (·.1 == k) then h.map fun x => if x.1 == k then (k, c) else x else h ++ [(k, c)]
end Heap

inductive CircOp (K : Type)
  | new (id : String) (n : Nat)
  | unitary (id : String) (u : M K)
  | bs (id : String) (m1 m2 : Int) (cs : K × K) (cv : Conv) (l : Option (K × K)) (rv lv : Bool)
  | ps (id : String) (m : Int) (p : K) (l : Option (K × K)) (lv : Bool)
  | loss (id : String) (m : Int) (ab : K × K) (lv : Bool)
  | barrier (id : String) (ms : Option (List Int))
  | swaps (id : String) (sw : List (Int × Int))
  | herald (id : String) (n : Nat) (i o : Int)
  | add (id sub : String) (m : Int) (g : Bool)
  | plus (dst a b : String)
  | copy (dst src : String)
  | unpack (id : String)
  | compress (id : String)
  | nonadj (id : String)

/-- the only object an operation may write -/
def CircOp.target : CircOp K → String
  | .new id _ | .unitary id _ | .bs id .. | .ps id .. | .loss id .. | .barrier id _
  | .swaps id _ | .herald id .. | .add id .. | .plus id .. | .copy id _ | .unpack id
  | .compress id | .nonadj id => id

/-- outcome of a call: `none` = accepted, `some e` = raised `e` -/
abbrev Outcome := Option Err

section
variable [Zero K] [One K]

/-- result of the call on the objects it reads; `none` = an object id is unknown (malformed) -/
def CircOp.eval (h : Heap K) : CircOp K → Option (Except Err (Circ K))
  | .new _ n => some (.ok (Circ.new n))
  | .unitary _ u => some (.ok { n := u.n, spec := [.prim (.unitary 0 u)] })
  | .bs id m1 m2 cs cv l rv lv => (h.get? id).map fun c => c.bs m1 m2 cs cv l rv lv
  | .ps id m p l lv => (h.get? id).map fun c => c.ps m p l lv
  | .loss id m ab lv => (h.get? id).map fun c => c.loss m ab lv
  | .barrier id ms => (h.get? id).map fun c => c.barrier ms
  | .swaps id sw => (h.get? id).map fun c => c.modeSwaps sw
  | .herald id n i o => (h.get? id).map fun c => c.herald n i o
  | .add id sub m g => do
      let c ← h.get? id
      let s ← h.get? sub
      pure (c.add s m g)
  | .plus _ a b => do
      let x ← h.get? a
      let y ← h.get? b
      pure (x.plus y)
  | .copy _ src => (h.get? src).map fun c => .ok c.copy
  | .unpack id => (h.get? id).map fun c => .ok c.unpackGroups
  | .compress id => (h.get? id).map fun c => .ok c.compress
  | .nonadj id => (h.get? id).map fun c => .ok c.removeNonAdj

/-- one API call on the pool -/
def heapStep (h : Heap K) (op : CircOp K) : Option (Heap K × Outcome) :=
  match op.eval h with
  | none => none
  | some (.ok c) => some (h.set op.target c, none)
  | some (.error e) => some (h, some e)

/-- a whole history of calls; outcomes are collected in order -/
def heapRun : Heap K → List (CircOp K) → Option (Heap K × List Outcome)
  | h, [] => some (h, [])
  | h, op :: ops => do
      let (h', r) ← heapStep h op
      let (h'', rs) ← heapRun h' ops
      pure (h'', r :: rs)

end

end LW
