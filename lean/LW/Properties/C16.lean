/-
  C16 — Process tomography and gate fidelity agree with the library's own references.

  Only the property theorems and their non-vacuity examples live here; proofs are in
  LW/Proofs/{TomoLift,C16Choi,C16LI,C16Main,C16Alpha,C16GateFid,C16MLE,C16Final}.lean and, for the
  list-level MLE clause, LW/Proofs/{C16MLEList,C16MLEList2,C16F49,C16Cex,C16MLEExample}.lean (on top
  of the C15 development).

  Model: LW.Model.ProcTomo.  `choiFromUnitary` and `pVec` follow the REPAIRED code (findings F9,
  F8); the pinned variants are `choiFromUnitaryPinned`, `pVecPinned`.

  Proved here, for every number of qubits `n = k+1`, every matrix `V` (unitary or not) over any
  field with a star in which `2 ≠ 0`, `i² = -1`, `conj i = -i`:
    * the reference Choi matrix is the Choi matrix of `ρ ↦ V ρ V†` in the convention the tomography
      classes reconstruct (`choi_is_channel_matrix`);
    * it solves the linear system LI inverts (`reference_solves_li_system`);
    * the LI transform matrix is injective — square, hence invertible — with the closed form
      `liInverse` as its inverse (`li_transform_invertible`);
    * hence LI on noiseless data of `V` returns exactly `choi_from_unitary(V)` (`li_returns_choi`).
    * the sum of `GateFidelity.process(target)` on the reconstructed output states evaluates to
      `(|tr(U†V)|² + d)/(d(d+1))` (`gate_fidelity_formula`, Pauli twirl), and to 1 for `U = V`
      unitary (`gate_fidelity_self`);
    * each pair of rows of the MLE model matrix applied to the reference Choi matrix gives the
      noiseless outcome probabilities `(tr ρ' ± tr(Pρ'))/(2·4ⁿ)`, `ρ' = VρV†`
      (`mle_model_consistent_partial`).
  MLE data-model consistency, list level (the Python lists `_p_vec(choi)` and `_n_vec_from_data`):
    * PROVED (`mle_model_consistent_corrected`): on noiseless data of a unitary `V`, for every order
      of the settings, the data vector is `_p_vec(choi_from_unitary(V))` times a non-zero constant
      (`4ⁿ/len(data)`) — in every field in which `len(data) = 6ⁿ·(4ⁿ-1)` is non-zero, in particular
      in characteristic zero (`mle_model_consistent_charZero`), hence over the complex numbers the
      code uses.
    * FOUND FALSE: the statement as first written (`mle_model_consistent_statement`, kept below)
      quantified over ALL fields with `2 ≠ 0`.  Witness (`mle_model_consistent_statement_false`):
      the field with 49 elements `𝔽₇[i]` (`i² = -1`, `h = 2`, `2h² = 1`), three qubits, `V = 1`:
      `len(data) = 6³·63 = 13608 = 7·1944` is zero there, `_n_vec_from_data` divides by it
      (`x/0 = 0`) and returns the zero vector, which is no non-zero multiple of `_p_vec`.  The extra
      hypothesis is also necessary: whenever `len(data) = 0` in the field the conclusion fails
      (`mle_count_hypothesis_necessary`).  This is a defect of the over-general statement, not of
      the library (Python never leaves characteristic zero).
  NOT covered: the projected-gradient optimiser, `eigh`, `pinv`, `sqrtm` themselves (externals;
  DESIGN §10).
-/
import Mathlib.Data.Complex.Basic
import LW.Proofs.C16Final
import LW.Proofs.C16MLEExample

open scoped BigOperators

namespace LW.C16

open LW.Tomo LW.Proofs.C16

variable {K : Type} [Field K] [StarRing K] [DecidableEq K]

/-- `choi_from_unitary(V)` (repaired) is the Choi matrix of `ρ ↦ V ρ V†`:
`Σ_{a,b} ρ[a,b]·C[(a,c),(b,e)] = (V ρ V†)[c,e]` for every `ρ`. -/
theorem choi_is_channel_matrix (V rho : M K) {c e : Nat} (hc : c < V.n) (he : e < V.n) :
    ∑ a ∈ Finset.range V.n, ∑ b ∈ Finset.range V.n,
        rho.get a b * (choiFromUnitary V).get (a * V.n + c) (b * V.n + e)
      = (channel V rho).get c e :=
  choi_channel V rho hc he

/-- the reference Choi matrix solves the system linear inversion inverts: the row of
`transform_matrix` for `(input, measurement)` applied to `vec(choi_from_unitary(V))` is the
noiseless expectation value `tr(P_meas · V ρ_in V†)` (which C15 `expectation_eq_trace` shows
`_calculate_expectation_value` returns on noiseless outcome tables). -/
theorem reference_solves_li_system {i : K} (hi : star i = -i) (n : Nat) (V : M K) (hV : V.n = 2 ^ n)
    (ins : Ins) (hins : ins.length = n) (meas : Meas) (hm : meas.length = n) :
    liApply i (choiFromUnitary V) ins meas = trPauli i (channel V (rhoKron i ins)) meas :=
  liApply_choi hi n V hV ins hins meas hm

/-- the LI transform matrix has the closed-form left inverse `liInverse` (so it is injective and,
being square `16ⁿ × 16ⁿ`, invertible: `np.linalg.pinv` returns its inverse). -/
theorem li_transform_invertible {i : K} (hi : i * i = -1) (hs : star i = -i) (h2 : (1 + 1 : K) ≠ 0)
    (k : Nat) (C : M K) {a' c' b' e' : Nat} (ha' : a' < 2 ^ (k + 1)) (hc' : c' < 2 ^ (k + 1))
    (hb' : b' < 2 ^ (k + 1)) (he' : e' < 2 ^ (k + 1)) :
    (liInverse i (k + 1) (lamsOf i (k + 1) C)).get (a' * 2 ^ (k + 1) + c') (b' * 2 ^ (k + 1) + e')
      = C.get (a' * 2 ^ (k + 1) + c') (b' * 2 ^ (k + 1) + e') :=
  liInverse_liApply hi hs h2 k C ha' hc' hb' he'

/-- two Choi matrices with the same noiseless data are equal (uniqueness of the LI solution). -/
theorem li_solution_unique {i : K} (hi : i * i = -1) (hs : star i = -i) (h2 : (1 + 1 : K) ≠ 0)
    (k : Nat) (C1 C2 : M K)
    (h : ∀ ins meas, liApply i C1 ins meas = liApply i C2 ins meas)
    {a c b e : Nat} (ha : a < 2 ^ (k + 1)) (hc : c < 2 ^ (k + 1)) (hb : b < 2 ^ (k + 1))
    (he : e < 2 ^ (k + 1)) :
    C1.get (a * 2 ^ (k + 1) + c) (b * 2 ^ (k + 1) + e)
      = C2.get (a * 2 ^ (k + 1) + c) (b * 2 ^ (k + 1) + e) :=
  li_transform_injective hi hs h2 k C1 C2 h ha hc hb he

/-- Linear inversion on the noiseless expectation values of `ρ ↦ V ρ V†` returns exactly
`choi_from_unitary(V)` — for every `V`, complex and non-symmetric as much as H or CNOT. -/
theorem li_returns_choi {i : K} (hi : i * i = -1) (hs : star i = -i) (h2 : (1 + 1 : K) ≠ 0) (k : Nat)
    (V : M K) (hV : V.n = 2 ^ (k + 1)) :
    liInverse i (k + 1) (lamsOfUnitary i (k + 1) V) = choiFromUnitary V :=
  Proofs.C16.li_returns_choi hi hs h2 k V hV

/-- F9 (pinned tree): the row-stacking `choi_from_unitary` differs from the Choi matrix LI
returns already for a real rotation (here `V = [[3,-4],[4,3]]/5`). -/
theorem F9_pinned_counterexample :
    (choiFromUnitaryPinned (mat2 (3 / 5 : ℚ) (-4 / 5) (4 / 5) (3 / 5))).get 0 1
      ≠ (choiFromUnitary (mat2 (3 / 5 : ℚ) (-4 / 5) (4 / 5) (3 / 5))).get 0 1 :=
  Proofs.C16.F9_pinned_counterexample

/-- Gate fidelity: with the reconstructed output states of `ρ ↦ V ρ V†` (C15: state tomography
returns exactly these on noiseless data) the value computed by `GateFidelity.process(target)` is
the average gate fidelity `(|tr(U†V)|² + d)/(d(d+1))` — for every target `U` and every `V`. -/
theorem gate_fidelity_formula {i : K} (hi : i * i = -1) (hs : star i = -i) (h2 : (1 + 1 : K) ≠ 0)
    (k : Nat) (T V : M K) (hT : T.n = 2 ^ (k + 1)) (hV : V.n = 2 ^ (k + 1)) :
    gateFidelityOf i (k + 1) T ((combineAll tomoInputsLI (k + 1)).map fun ins =>
        (ins, channel V (rhoKron i ins)))
      = avgGateFidelity (k + 1) T V :=
  Tomo.gate_fidelity_formula hi hs h2 k T V hT hV

/-- … and it is one when the target equals the implemented unitary. -/
theorem gate_fidelity_self {i : K} (hi : i * i = -1) (hs : star i = -i) (h2 : (1 + 1 : K) ≠ 0)
    (k : Nat) (V : M K) (hV : V.n = 2 ^ (k + 1)) (hU : V.dagger.mul V = M.one (2 ^ (k + 1)))
    (hd1 : (1 + 1 : K) ^ (k + 1) + 1 ≠ 0) :
    gateFidelityOf i (k + 1) V ((combineAll tomoInputsLI (k + 1)).map fun ins =>
        (ins, channel V (rhoKron i ins))) = 1 :=
  Proofs.C16.gate_fidelity_self hi hs h2 k V hV hU hd1

/-- The expansion coefficients `GateFidelity._calculate_alpha_and_u_basis` obtains from
`np.linalg.solve`: every Pauli string is the `alphaN` combination of the input density matrices
(the solution is unique because these are a basis, `li_transform_invertible`). -/
theorem alpha_expands_pauli {i : K} (h2 : (1 + 1 : K) ≠ 0) (k : Nat) (qs : Meas) (hq : qs.length = k + 1)
    {a b : Nat} (ha : a < 2 ^ (k + 1)) (hb : b < 2 ^ (k + 1)) :
    (((combineAll tomoInputsLI (k + 1)).map fun ins =>
        alphaN qs ins * (rhoKron i ins).get a b).sum : K) = (pauliKron i qs).get a b :=
  alpha_reconstruct h2 k qs hq ha hb

/-- MLE (repaired `_p_vec`, F8): the two rows of `_a_mat` for `(input, measurement)` applied to the
reference Choi matrix are `(tr ρ' ± tr(P ρ'))/(2·4ⁿ)` with `ρ' = V ρ_in V†` — the noiseless
probabilities of the two outcome classes, which is what `_n_vec_from_data` builds from the
noiseless expectation value `tr(Pρ')/tr ρ'` (C15 `expectation_eq_trace`) up to the constant
`len(data)·tr ρ'/4ⁿ`.  Row level; the packaging into the two Python lists is
`mle_model_consistent_corrected`. -/
theorem mle_model_consistent_partial (i : K) (n : Nat) (V : M K) (hV : V.n = 2 ^ n) (ins : Ins)
    (hins : ins.length = n) (meas : Meas) (hm : meas.length = n) :
    pairing (aRowMats i n ins meas).1 (choiFromUnitary V)
        = (twoPow (2 * n))⁻¹ * (half * (trN n (channel V (rhoKron i ins))
            + trPauli i (channel V (rhoKron i ins)) meas)) ∧
    pairing (aRowMats i n ins meas).2 (choiFromUnitary V)
        = (twoPow (2 * n))⁻¹ * (half * (trN n (channel V (rhoKron i ins))
            + -trPauli i (channel V (rhoKron i ins)) meas)) :=
  mle_rows i n V hV ins hins meas hm

/-- list-level statement of the MLE data-model consistency as ORIGINALLY written, for all fields
with `2 ≠ 0`: the vector of model probabilities of the reference Choi matrix is proportional to the
data vector, so the true Choi matrix is a global minimiser of the likelihood cost handed to the
optimiser.  FALSE in positive characteristic (`mle_model_consistent_statement_false`); true with the
hypothesis `len(data) ≠ 0` (`mle_model_consistent_corrected`). -/
def mle_model_consistent_statement : Prop :=
  ∀ (K : Type) [Field K] [StarRing K] [DecidableEq K] (i h : K), Consts i h → (1 + 1 : K) ≠ 0 →
    ∀ (n : Nat) (V : M K) (order : List Meas) (rs : List (Res K)) (nv : List K), 0 < n →
    V.n = 2 ^ n → (V.dagger.mul V = M.one (2 ^ n)) → order.Perm (requiredSet n) →
    rs = (combineAll tomoInputsMLE n).flatMap (fun ins =>
      order.map fun s => bornTable i h n (channel V (rhoKron i ins)) s) →
    (do let data ← mleData n order rs; nVec n data) = .ok nv →
    ∃ c : K, c ≠ 0 ∧ (pVec i n (choiFromUnitary V)).map (· * c) = nv

/-- The original statement is false.  Witness: `K = 𝔽₇[i]` (49 elements; `i² = -1`, `conj i = -i`,
`h = 2` with `2h² = 8 = 1`, `2 ≠ 0`), `n = 3`, `V = 1`, `order = requiredSet 3`: the number of data
entries `6³·(4³-1) = 13608` is divisible by 7, so `_n_vec_from_data` is the zero vector, whereas the
two entries of `_p_vec` for input `Z+Z+Z+` and measurement `ZZZ` sum to `4⁻³ ≠ 0`. -/
theorem mle_model_consistent_statement_false : ¬ mle_model_consistent_statement :=
  mle_statement_original_false

/-- MLE data-model consistency, list level, CORRECTED: on noiseless data of a unitary `V` (for
every order in which the settings are requested) the data vector `_n_vec_from_data` builds is the
vector of model probabilities `_p_vec(choi_from_unitary(V))` times a non-zero constant — in every
field in which the number of data entries `len(data) = 6ⁿ·(4ⁿ-1)` is non-zero (the only hypothesis
added to `mle_model_consistent_statement`; necessary by `mle_count_hypothesis_necessary`). -/
theorem mle_model_consistent_corrected {i h : K} (hc : Consts i h) (h2 : (1 + 1 : K) ≠ 0) (n : Nat)
    (V : M K) (order : List Meas) (rs : List (Res K)) (nv : List K) (hn : 0 < n)
    (hV : V.n = 2 ^ n) (hU : V.dagger.mul V = M.one (2 ^ n)) (hord : order.Perm (requiredSet n))
    (hrs : rs = (combineAll tomoInputsMLE n).flatMap (fun ins =>
      order.map fun s => bornTable i h n (channel V (rhoKron i ins)) s))
    (hnv : (do let data ← mleData n order rs; nVec n data) = .ok nv)
    (hlen : ((6 ^ n * (4 ^ n - 1) : Nat) : K) ≠ 0) :
    ∃ c : K, c ≠ 0 ∧ (pVec i n (choiFromUnitary V)).map (· * c) = nv :=
  mle_model_consistent_nz hc h2 n V order rs nv hn hV hU hord hrs hnv hlen

/-- … in particular in characteristic zero, e.g. over ℂ: exactly the original statement with
`[CharZero K]` added. -/
theorem mle_model_consistent_charZero [CharZero K] {i h : K} (hc : Consts i h) (h2 : (1 + 1 : K) ≠ 0)
    (n : Nat) (V : M K) (order : List Meas) (rs : List (Res K)) (nv : List K) (hn : 0 < n)
    (hV : V.n = 2 ^ n) (hU : V.dagger.mul V = M.one (2 ^ n)) (hord : order.Perm (requiredSet n))
    (hrs : rs = (combineAll tomoInputsMLE n).flatMap (fun ins =>
      order.map fun s => bornTable i h n (channel V (rhoKron i ins)) s))
    (hnv : (do let data ← mleData n order rs; nVec n data) = .ok nv) :
    ∃ c : K, c ≠ 0 ∧ (pVec i n (choiFromUnitary V)).map (· * c) = nv :=
  mle_model_consistent_char0 hc h2 n V order rs nv hn hV hU hord hrs hnv

/-- the data pipeline does succeed on noiseless data (so `hnv` above is satisfiable for every
unitary, order and field), and the hypothesis `len(data) ≠ 0` is necessary: if the count vanishes
in `K`, the vector the pipeline returns is NOT a non-zero multiple of the model probabilities. -/
theorem mle_count_hypothesis_necessary {i h : K} (hc : Consts i h) (h2 : (1 + 1 : K) ≠ 0) (n : Nat)
    (hn : 0 < n) (V : M K) (hV : V.n = 2 ^ n) (hU : V.dagger.mul V = M.one (2 ^ n))
    (order : List Meas) (hord : order.Perm (requiredSet n))
    (hzero : ((6 ^ n * (4 ^ n - 1) : Nat) : K) = 0) :
    ∃ nv, (do let data ← mleData n order ((combineAll tomoInputsMLE n).flatMap (fun ins =>
              order.map fun s => bornTable i h n (channel V (rhoKron i ins)) s)); nVec n data)
        = .ok nv ∧
      ¬ ∃ c : K, c ≠ 0 ∧ (pVec i n (choiFromUnitary V)).map (· * c) = nv :=
  mle_count_necessary hc h2 n hn V hV hU order hord hzero

/-! ### non-vacuity: the hypotheses are met over ℂ by a complex, non-symmetric unitary -/

noncomputable section
open Classical

/-- `V = [[3, -4i], [4, 3i]]/5` (unitary, complex, non-symmetric): LI returns its reference Choi
matrix, and gate fidelity against any target is the closed formula -/
example :
    liInverse Complex.I 1 (lamsOfUnitary Complex.I 1
        (mat2 (3 / 5 : ℂ) (-4 / 5 * Complex.I) (4 / 5) (3 / 5 * Complex.I)))
      = choiFromUnitary (mat2 (3 / 5 : ℂ) (-4 / 5 * Complex.I) (4 / 5) (3 / 5 * Complex.I)) :=
  li_returns_choi Complex.I_mul_I Complex.conj_I (by norm_num) 0 _ rfl

example (T : M ℂ) (hT : T.n = 2) :
    gateFidelityOf Complex.I 1 T ((combineAll tomoInputsLI 1).map fun ins =>
        (ins, channel (mat2 (3 / 5 : ℂ) (-4 / 5 * Complex.I) (4 / 5) (3 / 5 * Complex.I))
          (rhoKron Complex.I ins)))
      = avgGateFidelity 1 T (mat2 (3 / 5 : ℂ) (-4 / 5 * Complex.I) (4 / 5) (3 / 5 * Complex.I)) :=
  gate_fidelity_formula Complex.I_mul_I Complex.conj_I (by norm_num) 0 T _ hT rfl

/-- `mle_model_consistent_corrected` / `_charZero` are not vacuous: over ℂ, one qubit, the same `V`
(`exV`), settings in the order `requiredSet 1`: the data pipeline succeeds on the noiseless tables
(first conjunct: every hypothesis of the theorem is met, with `nv` the explicit vector `nvOf …`) and
that vector is a non-zero multiple of `_p_vec(choi_from_unitary(V))`. -/
example :
    (do let data ← mleData 1 (requiredSet 1) ((combineAll tomoInputsMLE 1).flatMap (fun ins =>
          (requiredSet 1).map fun s =>
            bornTable Complex.I (((Real.sqrt 2)⁻¹ : ℝ) : ℂ) 1 (channel exV (rhoKron Complex.I ins)) s));
        nVec 1 data)
      = .ok (nvOf Complex.I exV 1 (((6 ^ 1 * (4 ^ 1 - 1) : Nat)) : ℂ)) ∧
    ∃ c : ℂ, c ≠ 0 ∧ (pVec Complex.I 1 (choiFromUnitary exV)).map (· * c)
      = nvOf Complex.I exV 1 (((6 ^ 1 * (4 ^ 1 - 1) : Nat)) : ℂ) :=
  mle_example_complex

end

end LW.C16
