/-
  C10 — Parameters are live, bounded and freezable.

  Only the property theorems and their non-vacuity examples live here; proofs are in
  LW/Proofs/C10*.lean.  Model: LW.Model.Param (`Parameter`, `ParameterDict`) and LW.Model.PCircuit.
  A parametrised circuit is a `Circ (Sym α K)` — the existing circuit model over symbolic scalars
  `lit k | view role (const v | param id)` — so all bookkeeping (`add`, groups, heralds, copies) is
  the already modelled construction API, and `U` resolves the fields against the parameter store
  at the moment of the read.  `World` is the set of live Parameter / ParameterDict / Circuit
  objects; `World.step` is one API call, `World.run` a history.

  `α` is the numeric domain of parameter values (any linear order: ints and floats without NaN —
  NaN lies outside every linear order and is the known finding F15, probed on the code directly);
  `K` any scalar type; `ν : Views α K` stands for the float functions √x, √(1-x), e^{ix}, 0≤x≤1.
  All statements are for every history / circuit / store, with no bound on sizes or lengths.
-/
import LW.Proofs.C10
import Mathlib.Data.Nat.Basic

namespace LW.C10

variable {α K : Type}

/-! ### bounded -/

section Bounds
variable [LinearOrder α] [Zero K] [One K]

/-- BOUNDS INVARIANT.  After any history of calls from the empty world — constructor calls, value
updates, bound updates, updates through a ParameterDict, interleaved with any circuit calls,
each accepted or rejected — every live parameter lies within its bounds: a lower bound that is
set implies a numeric value ≥ it, an upper bound a numeric value ≤ it. -/
theorem bounds_invariant (ν : Views α K) (ops : List (POp α K)) (w : World α K)
    (rs : List (Option Fail)) (h : World.run ν {} ops = some (w, rs)) :
    ∀ id p, w.store.get? id = some p →
      (∀ m, p.min = some m → ∃ x, p.value = .num x ∧ m ≤ x) ∧
      (∀ mx, p.max = some mx → ∃ x, p.value = .num x ∧ x ≤ mx) :=
  Proofs.C10.bounds_invariant ν ops w rs h

/-- … and the invariant is inductive: one call, from any world that satisfies it. -/
theorem bounds_invariant_step (ν : Views α K) (w w' : World α K) (op : POp α K) (o : Option Fail)
    (hw : w.AllInBounds) (h : World.step ν w op = some (w', o)) : w'.AllInBounds :=
  Proofs.C10.bounds_invariant_step ν w w' op o hw h

/-- REJECTED UPDATE CHANGES NOTHING.  A call that raises — a refused value, bound, dictionary
assignment or construction call — leaves every parameter, dictionary and circuit as it was. -/
theorem rejected_update_noop (ν : Views α K) (w w' : World α K) (op : POp α K) (e : Fail)
    (h : World.step ν w op = some (w', some e)) : w' = w :=
  Proofs.C10.rejected_update_noop ν w w' op e h

end Bounds

/-! ### live -/

section Live
variable [Add K] [Mul K] [Neg K] [Zero K] [One K]

/-- U READS THE CURRENT VALUES.  Take any history of calls on parametrised circuits (components
with Parameter fields in any role, `add` with or without grouping and heralds, `+`, copies,
`unpack_groups`, `compress_mode_swaps`, `remove_non_adjacent_bs`) and any parameter store `σ` — in particular the store at any later time,
after any updates.  Replacing every field by the value it holds under `σ` turns the history into
a history of the plain construction API which is accepted and rejected call by call identically
and yields exactly the resolved circuits; and `U` of each parametrised circuit is the `U` of that
plain circuit (when all its fields are valid; otherwise see `invalid_value_is_compilation_error`).
So a parameter is live wherever it sits: the circuit never stores a value, only the reference. -/
theorem U_reads_current_values (ν : Views α K) (i : K) (σ : Store α) (ops : List (CircOp (Sym α K)))
    (h h' : Heap (Sym α K)) (rs : List Outcome)
    (hr : heapRun h ops = some (h', rs)) :
    heapRun (Heap.mapK (Sym.eval ν σ) h) (ops.map (CircOp.map (Sym.eval ν σ))) =
        some (Heap.mapK (Sym.eval ν σ) h', rs) ∧
    ∀ cid c, Heap.get? h' cid = some c →
      Heap.get? (Heap.mapK (Sym.eval ν σ) h') cid = some (PCirc.resolve ν σ c) ∧
      (PCirc.fieldsValid ν σ c = true → PCirc.readU ν i σ c = .ok ((PCirc.resolve ν σ c).U i)) :=
  Proofs.C10.U_reads_current_values ν i σ ops h h' rs hr

/-- the instance that matters most: a parameter inside an added (grouped, heralded) sub-circuit
— resolving after `add` is `add` of the resolved circuits, for every store -/
theorem add_resolves (ν : Views α K) (σ : Store α) (parent sub : PCirc α K) (mode : Int) (grouped : Bool) :
    Circ.add (PCirc.resolve ν σ parent) (PCirc.resolve ν σ sub) mode grouped =
      (Circ.add parent sub mode grouped).map (PCirc.resolve ν σ) :=
  Proofs.C10.add_resolves ν σ parent sub mode grouped

end Live

section Bridge
variable [LT α] [DecidableLT α] [Zero K] [One K]

/-- the calls `bs / ps / loss` with Parameter arguments ARE calls of the plain construction API on
symbolic fields (so the theorem above covers them); the loss-validity flag is `check_loss` on the
parameter's value at the time of the call, whose exception class replaces the `ValueError` -/
theorem param_calls_are_plain_calls (ν : Views α K) (w : World α K) (cid : String) :
    (∀ m1 m2 r cv l, World.step ν w (.bs cid m1 m2 r cv l) =
      (heapStep w.circs (.bs cid m1 m2 r.fields.1 cv (l.fields ν w.store).1 r.fields.2
        (l.fields ν w.store).2.isNone)).map (World.ofHeap w (l.fields ν w.store).2)) ∧
    (∀ m phi l, World.step ν w (.ps cid m phi l) =
      (heapStep w.circs (.ps cid m phi.field (l.fields ν w.store).1
        (l.fields ν w.store).2.isNone)).map (World.ofHeap w (l.fields ν w.store).2)) ∧
    (∀ m l, World.step ν w (.loss cid m l) =
      (heapStep w.circs (.loss cid m ((l.fields ν w.store).1.getD (.lit 1, .lit 0))
        (l.fields ν w.store).2.isNone)).map (World.ofHeap w (l.fields ν w.store).2)) :=
  Proofs.C10.param_calls_are_plain_calls ν w cid

/-- a call changes no circuit other than its target; a parameter / dictionary call has no target,
so updates reach circuits only through the store that `U` reads -/
theorem param_updates_touch_no_circuit (ν : Views α K) (w w' : World α K) (op : POp α K)
    (o : Option Fail) (h : World.step ν w op = some (w', o)) (k : String)
    (hk : op.circTarget ≠ some k) : Heap.get? w'.circs k = Heap.get? w.circs k :=
  Proofs.C10.param_updates_touch_no_circuit ν w w' op o h k hk

end Bridge

/-! ### listed exactly once -/

section Listing
variable [Add K] [Mul K] [Neg K] [Zero K] [One K]

/-- LISTING.  `get_all_params` has no duplicates, and it lists a parameter iff some leaf
component — at top level or inside a group — holds it in one of its fields. -/
theorem all_params_nodup_complete (c : PCirc α K) :
    c.getAllParams.Nodup ∧
    ∀ id, id ∈ c.getAllParams ↔
      ∃ p ∈ primsOf c.spec, ∃ r, Sym.view r (.param id) ∈ p.syms :=
  Proofs.C10.all_params_nodup_complete c

/-- … through added sub-circuits: whatever `add` does (copy, unpack, swap synthesis, pass-through
and ancilla modes, grouping), the result lists exactly the parent's and the sub-circuit's parameters -/
theorem add_params (parent sub c' : PCirc α K) (mode : Int) (grouped : Bool)
    (h : Circ.add parent sub mode grouped = .ok c') (id : Nat) :
    id ∈ c'.getAllParams ↔ id ∈ parent.getAllParams ∨ id ∈ sub.getAllParams :=
  Proofs.C10.add_params parent sub c' mode grouped h id

/-- … and the list is semantically complete: `U` (value or failure) depends on the store only
through the listed parameters (`LitU`: unitary blocks hold numbers, an invariant — next theorem) -/
theorem unlisted_param_no_influence (ν : Views α K) (i : K) (σ σ' : Store α) (c : PCirc α K)
    (hL : c.LitU) (h : ∀ id ∈ c.getAllParams, σ.val id = σ'.val id) :
    c.readU ν i σ = c.readU ν i σ' :=
  Proofs.C10.unlisted_param_no_influence ν i σ σ' c hL h

end Listing

/-- every circuit of every world reachable by a history of well-formed calls has literal blocks -/
theorem reachable_blocks_literal [LT α] [DecidableLT α] [Zero K] [One K] (ν : Views α K)
    (ops : List (POp α K)) (w : World α K) (rs : List (Option Fail)) (hops : ∀ op ∈ ops, op.WF)
    (h : World.run ν {} ops = some (w, rs)) :
    ∀ cid c, Heap.get? w.circs cid = some c → PCirc.LitU c :=
  Proofs.C10.reachable_blocks_literal ν ops w rs hops h

/-! ### freezable -/

section Frozen
variable [Add K] [Mul K] [Neg K] [Zero K] [One K]

/-- FROZEN COPY keeps the values of the moment it was taken: under every later store it reports
what the original reported then (the unitary, or the compilation error). -/
theorem frozen_copy_constant (ν : Views α K) (i : K) (σ σ' : Store α) (c : PCirc α K) :
    (PCirc.freeze σ c).readU ν i σ' = c.readU ν i σ :=
  Proofs.C10.frozen_copy_constant ν i σ σ' c

/-- FROZEN COPY lists no parameter. -/
theorem frozen_copy_has_no_params (σ : Store α) (c : PCirc α K) :
    (PCirc.freeze σ c).getAllParams = [] :=
  Proofs.C10.frozen_copy_has_no_params σ c

/-- … over histories: after `dst = src.copy(freeze_parameters=True)`, any further calls (updates
of any parameter, accepted or rejected, construction on other circuits, more copies) leave `dst.U`
equal to `src.U` at the moment of the copy, as long as `dst` is not itself the target of a call. -/
theorem frozen_copy_constant_history [LT α] [DecidableLT α] (ν : Views α K) (i : K)
    (w w1 w2 : World α K) (dst src : String) (ops : List (POp α K)) (rs : List (Option Fail))
    (hf : World.step ν w (.freeze dst src) = some (w1, none))
    (hr : World.run ν w1 ops = some (w2, rs))
    (hk : ∀ op ∈ ops, op.circTarget ≠ some dst) :
    World.readU ν i w2 dst = World.readU ν i w src ∧ World.allParams w2 dst = some [] :=
  Proofs.C10.frozen_copy_constant_history ν i w w1 w2 dst src ops rs hf hr hk

/-! ### invalid values -/

/-- INVALID VALUE ⇒ COMPILATION ERROR.  Reading `U` fails iff some field holds a value its
component cannot use, and then with `CircuitCompilationError` and no other class; in particular a
live parameter that is non-numeric, or outside [0,1] where it is a reflectivity or a loss, makes
every circuit holding it fail to compile; and if all fields are valid `U` is the unitary of the
resolved circuit. -/
theorem invalid_value_is_compilation_error (ν : Views α K) (i : K) (σ : Store α) (c : PCirc α K) :
    (∀ e, c.readU ν i σ = .error e ↔ e = .compilation ∧ ∃ s ∈ Circ.syms c, s.valid ν σ = false) ∧
    (∀ r id, Sym.view r (.param id) ∈ Circ.syms c →
      ((∃ t, σ.val id = .other t) ∨ (∃ x, σ.val id = .num x ∧ r ≠ .expi ∧ ν.unit x = false)) →
      c.readU ν i σ = .error .compilation) ∧
    ((∀ s ∈ Circ.syms c, s.valid ν σ = true) ↔ c.readU ν i σ = .ok ((c.resolve ν σ).U i)) :=
  Proofs.C10.invalid_value_is_compilation_error ν i σ c

end Frozen

/-! ### non-vacuity: one concrete history meets the hypotheses of the theorems above -/

section Examples

/-- toy float functions on ℕ → ℤ (the theorems hold for every `Views`) -/
def νex : Views Nat Int :=
  { unit := fun x => decide (x ≤ 1), rt := fun x => x, rt1 := fun x => 1 - x, expi := fun _ => 1 }

/-- p0 = Parameter(1, bounds=[0,1]); c = Circuit(2); c.bs(0, reflectivity=p0); p0.set(5) is
rejected; p0.set(0) accepted; f = c.copy(freeze_parameters=True); p0.set(1); s = Circuit(1);
s.loss(0, p0); c.add(s, 1) -/
def histEx : List (POp Nat Int) :=
  [.pNew 0 (.num 1) (some [some (.num 0), some (.num 1)]),
   .circ (.new "c" 2),
   .bs "c" 0 1 (.param 0) .rx .zero,
   .pSet 0 (.num 5),
   .pSet 0 (.num 0),
   .freeze "f" "c",
   .pSet 0 (.num 1),
   .circ (.new "s" 1),
   .loss "s" 0 (.param 0),
   .circ (.add "c" "s" 1 false)]

/-- the history runs; exactly the out-of-bounds update is rejected (hypothesis of
`bounds_invariant`, of `rejected_update_noop` at call 4, of `reachable_blocks_literal`) -/
example : ∃ w, World.run νex {} histEx =
    some (w, [none, none, none, some (.par .paramValue), none, none, none, none, none, none]) ∧
    World.allParams w "c" = some [0] ∧ World.allParams w "f" = some [] :=
  ⟨_, rfl, rfl, rfl⟩

/-- the frozen copy was taken (hypothesis `hf` of `frozen_copy_constant_history`) and the later
calls do not target it (hypothesis `hk`) -/
example : ∀ op ∈ histEx.drop 6, op.circTarget ≠ some "f" := by decide

/-- every call of the history is well-formed (hypothesis of `reachable_blocks_literal`) -/
example : ∀ op ∈ histEx, op.WF := by
  intro op hop
  simp only [histEx, List.mem_cons, List.not_mem_nil, or_false] at hop
  rcases hop with rfl | rfl | rfl | rfl | rfl | rfl | rfl | rfl | rfl | rfl
  all_goals first
    | trivial
    | exact ⟨.new "c" 2, rfl⟩
    | exact ⟨.new "s" 1, rfl⟩
    | exact ⟨.add "c" "s" 1 false, rfl⟩

/-- an invalid value: with p0 = 5 the circuit fails to compile (second clause of
`invalid_value_is_compilation_error`), with p0 = 1 it compiles -/
example :
    let c : PCirc Nat Int := { n := 2, spec := [.prim (.bs 0 1 (.view .rt (.param 0)) (.view .rt1 (.param 0)) .rx)] }
    PCirc.readU νex 0 [(0, { value := .num 5 })] c = .error .compilation ∧
    (PCirc.readU νex 0 [(0, { value := .num 1 })] c).isOk = true :=
  ⟨rfl, rfl⟩

end Examples

end LW.C10
