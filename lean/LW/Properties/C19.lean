/-
  C19 — Any constructible circuit can be displayed, without side effects.

  `Disp.display` (LW.Model.Display) is the model of `lightworks.Display(circuit, display_loss,
  mode_labels, display_type, show_parameter_values)`: option validation, the mode-label
  bookkeeping and the position arithmetic of both drawing back-ends on the per-mode location
  arrays, with Python's failure modes explicit — `Err.other` = IndexError (an index outside a
  location array), `Err.value` = ValueError (`max()` over an empty slice), `Err.display` =
  DisplayError.  `Disp.WF c` is the bookkeeping invariant of the circuit object the theorems need
  (C02's `Circ.WF` plus: at least one mode, external heralds and group boxes / group heralds inside
  the circuit, no 0×0 unitary block, beam splitters on two different modes — `wf_of_bookkeeping`);
  it is proved to hold of every object
  built by any history of API calls (`constructible_wf`), it is decidable, and the check also
  evaluates it on the model circuit of every displayed object.

  All statements are for every circuit (any number of modes, any spec, groups and heralds
  anywhere), every option record and both back-ends.  Helper lemmas: LW/Proofs/C19*.lean.
-/
import LW.Proofs.C19
import LW.Proofs.C19Api
import LW.Proofs.C19Add
import LW.Proofs.C19Hist

namespace LW.C19

open LW.Disp

variable {K : Type}

/-- a concrete circuit object with every component kind: beam splitter, loss, a heralded group
next to an ancilla mode, an empty and a non-empty barrier, a swap, a unitary block, external
heralds with input mode ≠ output mode -/
def exampleCirc : Circ Nat :=
  { n := 5,
    spec := [.prim (.bs 0 1 0 0 .rx), .prim (.loss 0 0 0),
             .group [.ps 2 0, .bs 1 3 0 0 .h] 1 3 [(1, 1)] [(1, 1)],
             .prim (.barrier []), .prim (.barrier [0, 4]), .prim (.swaps [(0, 1), (1, 0)]),
             .prim (.unitary 3 ⟨2, #[#[1, 0], #[0, 1]]⟩), .prim (.ps 4 0)],
    inHer := [(2, 1), (4, 0)], outHer := [(2, 1), (0, 0)], extIn := [(4, 0)], extOut := [(0, 0)],
    internal := [2] }

/-- OPTION VALIDATION (decision): on a circuit satisfying the invariant, `Display` raises
`DisplayError` exactly when the display type is neither "svg" nor "mpl" or a label list is given
whose length is not the number of usable modes (`n_modes − #ancilla modes`) — for the matplotlib
back-end this check runs only after the whole circuit has been placed, so the statement rests on
the index safety below. -/
theorem display_options_decision (c : Circ K) (o : Opts) (hw : WF c) :
    display c o = .error .display ↔ BadOpts c o :=
  Disp.display_options_decision c o hw

example : WF exampleCirc ∧ BadOpts exampleCirc { dtype := "mpl", labels := some ["a", "b", "c"] } ∧
    BadOpts exampleCirc { dtype := "png" } := by
  refine ⟨by decide, Or.inr ⟨_, rfl, by decide⟩, Or.inl (by decide)⟩

/-- DISPLAYABILITY: with a known display type and no label list or one of the right length —
whatever `display_loss` and `show_parameter_values` — both back-ends return a drawing. -/
theorem display_total (c : Circ K) (o : Opts) (hw : WF c) (hg : ¬ BadOpts c o) :
    ∃ out, display c o = .ok out :=
  Disp.display_good c o hw hg

example : WF exampleCirc ∧
    ¬ BadOpts exampleCirc { dtype := "mpl", displayLoss := true, labels := some ["a", "b", "c", "d"] } := by
  refine ⟨by decide, ?_⟩
  rw [not_bad_iff]
  refine ⟨Or.inr rfl, ?_⟩
  intro l hl
  cases hl
  decide

/-- INDEX SAFETY: no read or write of `x_locations` / `y_locations` / the label list, by any
component of either back-end, is out of range (the model never raises IndexError). -/
theorem display_indices_in_range (c : Circ K) (o : Opts) (hw : WF c) :
    display c o ≠ .error .other :=
  Disp.display_ne_index_error c o hw

/-- NON-EMPTY `max()`: every `max(...)` of either back-end — over the slice of `x_locations`
spanned by a beam splitter, unitary block, swap or group, over the modes of a barrier, over all
modes, over the label lengths — is taken over a non-empty sequence (no ValueError). -/
theorem max_nonempty (c : Circ K) (o : Opts) (hw : WF c) :
    display c o ≠ .error .value :=
  Disp.display_ne_value_error c o hw

/-- the only exception `Display` can raise on such a circuit is `DisplayError` -/
theorem display_raises_only_display_error (c : Circ K) (o : Opts) (hw : WF c) (e : Err)
    (h : display c o = .error e) : e = .display :=
  Disp.display_only_display_error c o hw e h

example : WF exampleCirc := by decide

/-- INDEX SAFETY, per component: on location arrays of length `n`, `_add(spec)` of either
back-end, with or without loss display, succeeds on a component satisfying `CompOk n` and returns
a location array of length `n` (so the next component finds the same situation). -/
theorem component_step_safe (n : Nat) (b : Backend) (displayLoss : Bool) (ys xs : List Rat)
    (herald : List Nat) (comp : Comp K) (hy : ys.length = n) (hx : xs.length = n)
    (hc : CompOk n comp) :
    ∃ xs', addComp b displayLoss ys herald xs comp = .ok xs' ∧ xs'.length = n :=
  Disp.addComp_ok b displayLoss herald comp hy hx hc

example : CompOk 5 (.group [.ps 2 0] 3 1 [(1, 1)] [(2, 0)] : Comp Nat) ∧
    ([125, 250, 325, 400, 525] : List Rat).length = 5 := by decide

/-- the invariant follows from the hypotheses of C02's `Circ.WF` (`inLt`, `intNodup`, `intHer`,
`modesLt`, copied) and the facts that `Circ.WF` does not record -/
theorem wf_of_bookkeeping (c : Circ K)
    (inLt : ∀ k ∈ c.inHer.keys, k < c.n)
    (intNodup : c.internal.Nodup)
    (intHer : ∀ a ∈ c.internal, (c.inHer.get? a).isSome)
    (modesLt : ∀ comp ∈ c.spec, ∀ m ∈ compModes comp, m < c.n)
    (pos : 0 < c.n)
    (extInLt : ∀ k ∈ c.extIn.keys, k < c.n)
    (extOutLt : ∀ k ∈ c.extOut.keys, k < c.n)
    (shape : ∀ comp ∈ c.spec, ShapeOk c.n comp) : WF c :=
  Disp.wf_of_bookkeeping c inLt intNodup intHer modesLt pos extInLt extOutLt shape

example : (∀ k ∈ exampleCirc.inHer.keys, k < exampleCirc.n) ∧ exampleCirc.internal.Nodup ∧
    (∀ a ∈ exampleCirc.internal, (exampleCirc.inHer.get? a).isSome) := by decide

/-- CONSTRUCTIBLE ⇒ INVARIANT: every object of a pool built from nothing by ANY history of API
calls (`heapRun`, LW.Model.Heap: `Circuit(n)`, `Unitary(u)`, `bs`, `ps`, `loss`, `barrier`,
`mode_swaps`, `herald`, `add` — grouped or not, heralded or not, onto parents that already hold
ancilla modes, at any nesting —, `+`, `copy`, `unpack_groups`, `compress_mode_swaps`,
`remove_non_adjacent_bs`; accepted or rejected, in any order, on any number of objects) whose
constructors make at least one mode satisfies `Disp.WF`. -/
theorem constructible_wf [Zero K] [One K] (ops : List (CircOp K)) (h : Heap K)
    (rs : List Outcome) (hc : ∀ op ∈ ops, OpSane op) (hr : heapRun [] ops = some (h, rs)) :
    ∀ id c, h.get? id = some c → WF c :=
  Disp.constructible_wf ops h rs hc hr

/-- C19 ON THE MODEL, END TO END: whatever the history of API calls, every object of the pool is
displayed by both back-ends for every valid option record (with or without loss display and
parameter values, with no label list or one of the right length), and `DisplayError` is raised
exactly for an unknown display type or a label list of the wrong length. -/
theorem constructible_display [Zero K] [One K] (ops : List (CircOp K)) (h : Heap K)
    (rs : List Outcome) (hc : ∀ op ∈ ops, OpSane op) (hr : heapRun [] ops = some (h, rs))
    (id : String) (c : Circ K) (hx : h.get? id = some c) (o : Opts) :
    (BadOpts c o → display c o = .error .display) ∧
      (¬ BadOpts c o → ∃ out, display c o = .ok out) :=
  Disp.constructible_display ops h rs hc hr id c hx o

/-- a history with a heralded sub-circuit (input mode ≠ output mode) added twice — the second
time over the ancilla of the first —, a rejected call, a rewrite and an unpacked copy -/
example : ∃ h rs, heapRun ([] : Heap Nat)
    [.new "s" 3, .bs "s" 0 2 (0, 0) .rx none true true, .herald "s" 1 2 0,
     .new "c" 4, .add "c" "s" 1 false, .barrier "c" (some []), .add "c" "s" 0 true,
     .bs "c" 0 9 (0, 0) .rx none true true, .nonadj "c", .copy "d" "c", .unpack "d"] = some (h, rs) ∧
    rs = [none, none, none, none, none, none, none, some .modeRange, none, none, none] ∧
    (h.get? "c").map (·.n) = some 6 :=
  ⟨_, _, rfl, rfl, rfl⟩

/-- towards `add`: the insertion of an empty mode — how `Circuit.add` makes room for a new
ancilla in the parent and for a pass-through mode in the added circuit, including the
re-indexing of group boxes and of the heralds drawn on them — keeps every component drawable on
the enlarged circuit -/
theorem empty_mode_insertion_keeps_drawable [Zero K] [One K] (n mode : Nat) (comp : Comp K)
    (h : CompOk n comp) : CompOk (n + 1) (comp.addEmptyMode mode) :=
  Disp.compOk_addEmptyMode mode comp h

example : CompOk 4 (.group [] 1 3 [(1, 1)] [(2, 1)] : Comp Nat) ∧
    (Comp.addEmptyMode 2 (.group [] 1 3 [(1, 1)] [(2, 1)] : Comp Nat)) =
      .group [] 1 4 [(2, 1)] [(3, 1)] := by
  refine ⟨by decide, rfl⟩

/-- towards `add`: shifting the added circuit to its position keeps every component drawable -/
theorem shift_keeps_drawable (n k : Nat) (comp : Comp K) (h : CompOk n comp) :
    CompOk (n + k) (comp.shift k) :=
  Disp.compOk_shift k comp h

example : CompOk 3 (.prim (.swaps [(0, 2), (2, 0)]) : Comp Nat) := by decide

/-- NO SIDE EFFECTS: `Display` as an operation on the pool of live circuit objects hands back
the pool it was given, whether it returns a drawing or raises (the back-ends work on
`_get_circuit_spec()`, a deep copy; the check compares every live object of the implementation
before and after). -/
theorem display_leaves_pool_unchanged (h h' : Heap K) (id : String) (o : Opts)
    (r : Except Err Out) (hs : displayStep h id o = some (h', r)) : h' = h :=
  Disp.displayStep_pool hs

example : ∃ r, displayStep [("c", exampleCirc)] "c" {} = some ([("c", exampleCirc)], r) :=
  ⟨_, rfl⟩

/-- F12 (regression document): on the code as pinned the svg back-end takes `max()` over the
modes of a barrier without the early return, so `Circuit(2); barrier([])` — a circuit satisfying
the invariant — cannot be displayed; the repaired model displays it. -/
theorem F12_pinned_counterexample :
    WF ({ n := 2, spec := [.prim (.barrier [])] } : Circ Nat) ∧
    displayPinned ({ n := 2, spec := [.prim (.barrier [])] } : Circ Nat) {} = .error .value ∧
    ∃ out, display ({ n := 2, spec := [.prim (.barrier [])] } : Circ Nat) {} = .ok out :=
  Disp.F12_pinned

/-- the hypothesis `0 < n` of the invariant is needed: a zero-mode circuit (`Circuit(0)` is
accepted by the constructor) makes both back-ends take `max()` of an empty sequence -/
theorem zero_mode_counterexample :
    display (Circ.new 0 : Circ Nat) {} = .error .value ∧
    display (Circ.new 0 : Circ Nat) { dtype := "mpl" } = .error .value :=
  Disp.zero_mode

end LW.C19
