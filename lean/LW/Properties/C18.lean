/-
  C18 — State values behave as immutable Fock states; herald bookkeeping round-trips.

  Only the property theorems and their non-vacuity examples live here; the proofs are in
  LW/Proofs/C18*.lean.  Model: LW.Model.StateVal (`State`, `AState`, the client/alias world,
  `addHeralds`/`removeHeralds`, `dbToDec`/`decToDb`, `processSeed`, `permRows`).
  Every statement is for ALL occupation lists (any integers), label lists, herald dictionaries,
  slices, seeds and dimensions — no bound on lengths.
-/
import LW.Proofs.C18

namespace LW.C18

open LW.SV

/-! ## State: equality and hash -/

/-- two States compare equal exactly when their occupation lists match -/
theorem state_eq_iff_occupations (a b : State) : a.eq b = true ↔ a.s = b.s :=
  State.eq_iff a b
example : (State.mk [1, 0, 2]).eq ⟨[1, 0, 2]⟩ = true ∧ (State.mk [1, 0, 2]).eq ⟨[1, 0, 3]⟩ = false := by decide

/-- equal States hash equally (whatever the string hash function `h` is) -/
theorem state_eq_hash {H : Type} (h : String → H) (a b : State) (e : a.eq b = true) :
    a.hash h = b.hash h :=
  State.eq_hash h a b e
example : (State.mk [1, 0]).hash String.length = (State.mk [1, 0]).hash String.length := rfl

/-- `str` determines the State: distinct States have distinct strings, so the only hash collisions
are those of Python's string hash -/
theorem state_str_injective (a b : State) (h : a.str = b.str) : a = b :=
  State.str_injective a b h
example : (State.mk [1, -2, 13]).str = "|1,-2,13>" ∧ (State.mk []).str = ">" := by decide

/-! ## State: `+`, merge, counts -/

/-- `+` concatenates; mode and photon counts are additive -/
theorem state_add (a b : State) :
    (a.add b).s = a.s ++ b.s ∧ (a.add b).nModes = a.nModes + b.nModes ∧
    (a.add b).nPhotons = a.nPhotons + b.nPhotons :=
  ⟨State.add_s a b, State.nModes_add a b, State.nPhotons_add a b⟩
example : ((State.mk [1, 0]).add ⟨[2]⟩).s = [1, 0, 2] := rfl

theorem state_add_assoc (a b c : State) : (a.add b).add c = a.add (b.add c) :=
  State.add_assoc a b c
example : ((State.mk [1]).add ⟨[2]⟩).add ⟨[3, 4]⟩ = (State.mk [1]).add ((State.mk [2]).add ⟨[3, 4]⟩) := rfl

/-- merge is accepted exactly for equal mode counts (otherwise ValueError) … -/
theorem state_merge_ok_iff (a b : State) : (∃ c, a.merge b = .ok c) ↔ a.nModes = b.nModes :=
  State.merge_ok_iff a b
theorem state_merge_error (a b : State) (h : a.nModes ≠ b.nModes) : a.merge b = .error .value :=
  State.merge_error a b h
example : (State.mk [1, 0]).merge ⟨[1]⟩ = .error .value := by decide

/-- … and adds mode by mode -/
theorem state_merge_modewise (a b c : State) (h : a.merge b = .ok c) (i : Nat) (hi : i < c.nModes) :
    c.s[i]'hi = a.s[i]'(by have := State.merge_nModes a b c h; simp only [State.nModes] at *; omega) +
      b.s[i]'(by have := State.merge_nModes a b c h; simp only [State.nModes] at *; omega) :=
  State.merge_getElem a b c h i hi
example : (State.mk [1, 0, 2]).merge ⟨[0, 3, 1]⟩ = .ok ⟨[1, 3, 3]⟩ := by decide

theorem state_merge_comm (a b : State) : a.merge b = b.merge a :=
  State.merge_comm a b
theorem state_merge_assoc (a b c ab bc : State) (h1 : a.merge b = .ok ab) (h2 : b.merge c = .ok bc) :
    ab.merge c = a.merge bc :=
  State.merge_assoc a b c ab bc h1 h2
example : ∃ ab bc, (State.mk [1, 0]).merge ⟨[2, 2]⟩ = .ok ab ∧ (State.mk [2, 2]).merge ⟨[0, 5]⟩ = .ok bc :=
  ⟨⟨[3, 2]⟩, ⟨[2, 7]⟩, by decide, by decide⟩

theorem state_merge_photons (a b c : State) (h : a.merge b = .ok c) : c.nPhotons = a.nPhotons + b.nPhotons :=
  State.nPhotons_merge a b c h

/-! ## State: subscripts -/

/-- `s[i]`, `0 ≤ i < n` -/
theorem state_getitem_nonneg (a : State) (i : Nat) (h : i < a.s.length) : a.getItem (i : Int) = .ok a.s[i] :=
  getItem_nonneg a.s i h
/-- `s[-j]`, `1 ≤ j ≤ n`, counts from the end -/
theorem state_getitem_neg (a : State) (j : Nat) (h1 : 1 ≤ j) (h2 : j ≤ a.s.length) :
    a.getItem (-(j : Int)) = .ok (a.s[a.s.length - j]'(by omega)) :=
  getItem_neg a.s j h1 h2
/-- a subscript is accepted exactly inside `[-n, n)` -/
theorem state_getitem_ok_iff (a : State) (i : Int) :
    (∃ x, a.getItem i = .ok x) ↔ -(a.s.length : Int) ≤ i ∧ i < a.s.length :=
  getItem_ok_iff a.s i
example : (State.mk [4, 5, 6]).getItem (-1) = .ok 6 ∧ (State.mk [4, 5, 6]).getItem 3 = .error .other := by decide

/-- every slice (any start/stop/step, negative and out-of-range values included) yields a State
whose entries are the entries of the original at the selected positions, all inside the original;
its mode count is the number of selected positions -/
theorem state_slice_spec (a b : State) (sl : Slice) (h : a.slice sl = .ok b) :
    ∃ idx, sliceIdx a.nModes sl = .ok idx ∧ b.nModes = idx.length ∧
      ∀ k (hk : k < idx.length), ∃ (hv : (idx[k]).toNat < a.nModes), 0 ≤ idx[k] ∧
        b.s[k]? = some (a.s[(idx[k]).toNat]'hv) :=
  State.slice_spec a b sl h
example : (State.mk [0, 1, 2, 3, 4, 5]).slice ⟨some (-2), some (-7), some (-2)⟩ = .ok ⟨[4, 2, 0]⟩ := by decide

/-- a slice is refused exactly for step 0 -/
theorem state_slice_error_iff (a : State) (sl : Slice) : (∃ e, a.slice sl = .error e) ↔ sl.step = some 0 :=
  State.slice_error_iff a sl
/-- `s[:k] + s[k:] == s` for every integer `k` -/
theorem state_slice_split (a : State) (k : Int) :
    ∃ p q, a.slice ⟨none, some k, none⟩ = .ok p ∧ a.slice ⟨some k, none, none⟩ = .ok q ∧ p.add q = a :=
  State.slice_split a k
theorem state_slice_full (a : State) : a.slice ⟨none, none, none⟩ = .ok a :=
  State.slice_full a
theorem state_slice_reverse (a : State) : a.slice ⟨none, none, some (-1)⟩ = .ok ⟨a.s.reverse⟩ :=
  State.slice_reverse a

/-! ## Immutability through the API -/

/-- with the repaired `__getitem__`, no sequence of client actions — reading `.s`, iterating,
subscripting, slicing, attempted assignments, and appending to ANY list the API handed out —
changes the stored value (State: one row; AnnotatedState: one row per mode) -/
theorem api_never_aliases (w : World) (hw : AllFresh w) (ops : List ClientOp) :
    (clientRun false w ops).rows = w.rows ∧ AllFresh (clientRun false w ops) :=
  clientRun_fixed w hw ops
example : AllFresh ⟨[[0], [1]], []⟩ := by intro h hh; simp at hh

/-- the same holds on the pinned code for every client that does not use `obj[int]` on an
AnnotatedState — in particular for the whole `State` API (whose `obj[int]` returns an int) -/
theorem api_never_aliases_without_getRow (aliasing : Bool) (w : World) (hw : AllFresh w)
    (ops : List ClientOp) (hops : ∀ op ∈ ops, op.isGetRow = false) :
    (clientRun aliasing w ops).rows = w.rows ∧ AllFresh (clientRun aliasing w ops) :=
  clientRun_no_getRow aliasing w hw ops hops

/-- assignments are refused and carry no new value -/
theorem setters_refused (a : State) (b : AState) :
    a.setS = .error .state ∧ a.setNModes = .error .state ∧ a.setItem = .error .state ∧
    b.setS = .error .other ∧ b.setNModes = .error .other ∧ b.setItem = .error .other :=
  ⟨rfl, rfl, rfl, rfl, rfl, rfl⟩

/-- F14 (pinned code): `a = AnnotatedState([[0],[1]]); a[0].append(5)` changes `a` -/
theorem F14_pinned_counterexample :
    (clientRun true ⟨[[0], [1]], []⟩ [.getRow 0, .append 0 5]).rows = [[0, 5], [1]] :=
  SV.F14_pinned_counterexample

/-! ## AnnotatedState -/

/-- the constructor stores, per mode, the given labels as a sorted list (same multiset) -/
theorem astate_rows (r : List (List Int)) :
    (AState.new r).WF ∧ List.Forall₂ List.Perm (AState.new r).s r ∧ (AState.new r).nModes = r.length :=
  ⟨AState.new_wf r, AState.new_rows_perm r, AState.new_nModes r⟩
example : (AState.new [[3, 1, 2], [], [0]]).s = [[1, 2, 3], [], [0]] := by decide

/-- a non-list element is refused (TypeError), anything else accepted -/
theorem astate_new_ok_iff (rows : List (Option (List Int))) :
    (∃ a, AState.newChecked rows = .ok a) ↔ ∀ x ∈ rows, x ≠ none :=
  AState.newChecked_ok_iff rows

/-- two annotated states are equal exactly when every mode carries the same multiset of labels —
the order of labels within a mode is irrelevant — and then they hash equally -/
theorem astate_eq_iff_multisets (r₁ r₂ : List (List Int)) :
    (AState.new r₁).eq (AState.new r₂) = true ↔ List.Forall₂ List.Perm r₁ r₂ :=
  AState.eq_new_iff r₁ r₂
theorem astate_eq_hash {H : Type} (h : String → H) (a b : AState) (e : a.eq b = true) : a.hash h = b.hash h :=
  AState.eq_hash h a b e
example : (AState.new [[3, 1], [2]]).eq (AState.new [[1, 3], [2]]) = true := by decide

/-- reading `.s` and constructing again gives the same value -/
theorem astate_roundtrip (r : List (List Int)) : AState.new (AState.new r).getS = AState.new r :=
  AState.new_getS r

theorem astate_add (a b : List (List Int)) : (AState.new a).add (AState.new b) = AState.new (a ++ b) :=
  AState.add_new a b
theorem astate_add_assoc (a b c : AState) (ha : a.WF) (hb : b.WF) (hc : c.WF) :
    (a.add b).add c = a.add (b.add c) :=
  AState.add_assoc a b c ha hb hc
example : (AState.new [[2, 1]]).WF := AState.new_wf _

/-- merge adds the label multisets mode by mode; refused (ValueError) for different mode counts -/
theorem astate_merge (a b : List (List Int)) (h : a.length = b.length) :
    (AState.new a).merge (AState.new b) = .ok (AState.new (List.zipWith (· ++ ·) a b)) :=
  AState.merge_new a b h
theorem astate_merge_error (a b : AState) (h : a.nModes ≠ b.nModes) : a.merge b = .error .value :=
  AState.merge_error a b h
theorem astate_merge_comm (a b : AState) : a.merge b = b.merge a :=
  AState.merge_comm a b
theorem astate_merge_assoc (a b c : List (List Int)) (h1 : a.length = b.length) (h2 : b.length = c.length)
    (ab bc : AState) (hab : (AState.new a).merge (AState.new b) = .ok ab)
    (hbc : (AState.new b).merge (AState.new c) = .ok bc) :
    ab.merge (AState.new c) = (AState.new a).merge bc :=
  AState.merge_assoc a b c h1 h2 ab bc hab hbc
example : (AState.new [[3], [1]]).merge (AState.new [[1, 0], []]) = .ok (AState.new [[0, 1, 3], [1]]) := by decide

/-- photon number = total number of labels; additive under `+` and merge -/
theorem astate_photons (r : List (List Int)) (a b c : AState) :
    (AState.new r).nPhotons = (r.map List.length).sum ∧
    (a.add b).nPhotons = a.nPhotons + b.nPhotons ∧
    (a.merge b = .ok c → c.nPhotons = a.nPhotons + b.nPhotons) :=
  ⟨AState.nPhotons_new r, AState.nPhotons_add a b, AState.nPhotons_merge a b c⟩

/-- subscripts: an int gives the sorted label list of that mode, a slice the annotated state of the
selected modes (same index semantics as for State) -/
theorem astate_getitem (r : List (List Int)) (i : Int) :
    (AState.new r).getItem i = (SV.getItem r i).map sortInt :=
  AState.getItem_new r i
theorem astate_slice (r : List (List Int)) (sl : Slice) :
    (AState.new r).slice sl = (sliceList r sl).map AState.new :=
  AState.slice_new r sl
example : (AState.new [[2, 1], [], [5]]).slice ⟨some 1, none, none⟩ = .ok (AState.new [[], [5]]) := by decide

/-! ## Heralds -/

/-- for a non-empty herald dictionary (unique keys, ANY insertion order) the insertion succeeds
exactly when every herald mode lies inside the enlarged state -/
theorem add_heralds_ok_iff (s : List Int) (h : HDict) (hn : h.keys.Nodup) (hne : h ≠ []) :
    (∃ t, addHeralds s h = .ok t) ↔ ∀ k ∈ h.keys, 0 ≤ k ∧ k < ((s.length + h.length : Nat) : Int) :=
  addHeralds_ok_iff s h hn hne
example : addHeralds [1, 2, 3] [(3, 7), (0, 9)] = .ok [9, 1, 2, 7, 3] ∧
    addHeralds [1, 2, 3] [(7, 7)] = .error .other := by decide

/-- the result carries every herald value at its mode and the original entries, in order, on the
remaining modes -/
theorem add_heralds_spec (s : List Int) (h : HDict) (hn : h.keys.Nodup) (t : List Int)
    (ht : addHeralds s h = .ok t) :
    t.length = s.length + h.length ∧ dropKeys (isKey h) 0 t = s ∧
    (∀ k v, (k, v) ∈ h → 0 ≤ k ∧ k < (t.length : Int) ∧ t[k.toNat]? = some v) :=
  addHeralds_spec s h hn t ht

/-- the key order of the dictionary is irrelevant -/
theorem add_heralds_key_order (s : List Int) {h h' : HDict} (hp : h.Perm h') (hn : h.keys.Nodup) :
    addHeralds s h = addHeralds s h' :=
  addHeralds_perm s hp hn
example : ([(3, 7), (0, 9)] : HDict).Perm [(0, 9), (3, 7)] ∧ HDict.keys [(3, 7), (0, 9)] = [3, 0] :=
  ⟨List.Perm.swap _ _ _, rfl⟩

/-- ROUND TRIP: removing the herald modes (listed in any order) from the result of an insertion
returns the original state — any state, any herald positions and values, any key order -/
theorem remove_heralds_of_add (s : List Int) (h : HDict) (hn : h.keys.Nodup) (t : List Int)
    (ht : addHeralds s h = .ok t) (ms : List Int) (hms : ms.Perm h.keys) :
    removeHeralds t ms = .ok s :=
  remove_add s h hn t ht ms hms
example : removeHeralds [9, 1, 2, 7, 3] [0, 3] = .ok [1, 2, 3] := by decide

/-- removal of distinct in-range modes keeps exactly the other entries, in order -/
theorem remove_heralds_spec (t : List Int) (modes : List Int) (hn : modes.Nodup)
    (hr : ∀ m ∈ modes, 0 ≤ m ∧ m < (t.length : Int)) :
    removeHeralds t modes = .ok (dropKeys (fun j => decide ((j : Int) ∈ modes)) 0 t) :=
  removeHeralds_spec t modes hn hr

/-- CONVERSE ROUND TRIP: re-inserting the removed entries at their modes returns the full state -/
theorem add_heralds_of_remove (t : List Int) (modes : List Int) (hn : modes.Nodup)
    (hr : ∀ m ∈ modes, 0 ≤ m ∧ m < (t.length : Int)) :
    ∃ s, removeHeralds t modes = .ok s ∧ addHeralds s (heraldsAt t modes) = .ok t :=
  add_remove t modes hn hr
example : addHeralds [1, 2, 3] (heraldsAt [9, 1, 2, 7, 3] [3, 0]) = .ok [9, 1, 2, 7, 3] := by decide

/-! ## dB ↔ decimal loss -/

/-- the real exponential and logarithm satisfy the laws the conversions rely on -/
theorem real_exp_log_laws : ExpLogLaws realE :=
  realE_laws

/-- dB → decimal lands in `[0, 1)` and ignores the sign -/
theorem db_to_decimal_range {E : ExpLog ℝ} (hE : ExpLogLaws E) (x : ℝ) :
    0 ≤ dbToDec E x ∧ dbToDec E x < 1 ∧ dbToDec E (-x) = dbToDec E x :=
  ⟨(dbToDec_range hE x).1, (dbToDec_range hE x).2, dbToDec_neg E x⟩

/-- the conversions invert each other: dB → decimal → dB gives |x| for every real x … -/
theorem db_roundtrip {E : ExpLog ℝ} (hE : ExpLogLaws E) (x : ℝ) : decToDb E (dbToDec E x) = .ok |x| :=
  decToDb_dbToDec hE x
/-- … and decimal → dB → decimal gives the loss for every loss in `[0, 1)` -/
theorem decimal_roundtrip {E : ExpLog ℝ} (hE : ExpLogLaws E) (l : ℝ) (h0 : 0 ≤ l) (h1 : l < 1) :
    ∃ d, decToDb E l = .ok d ∧ 0 ≤ d ∧ dbToDec E d = l :=
  dbToDec_decToDb hE l h0 h1
/-- outside `[0, 1)` the decimal → dB conversion is refused (ValueError) -/
theorem decimal_out_of_range (E : ExpLog ℝ) (l : ℝ) (h : l < 0 ∨ 1 ≤ l) : decToDb E l = .error .value :=
  decToDb_error E l h
example : decToDb realE (dbToDec realE 3) = .ok |(3 : ℝ)| := decToDb_dbToDec realE_laws 3

/-! ## Seeds and random permutations -/

/-- accepted seeds: None, a non-bool int, a number with integral value; everything else TypeError -/
theorem seed_ok_iff (s : Seed) :
    (∃ r, processSeed s = .ok r) ↔ (s = .none ∨ (∃ i, s = .int i) ∨ (∃ q, s = .real q ∧ q.den = 1)) :=
  processSeed_ok_iff s
theorem seed_error_is_type_error (s : Seed) (e : Err) (h : processSeed s = .error e) : e = .type :=
  processSeed_error s e h
example : processSeed (.real 3) = .ok (some 3) ∧ processSeed (.bool true) = .error .type ∧
    processSeed .other = .error .type := by decide

/-- reproducible: equal processed seeds give the same matrix -/
theorem random_permutation_reproducible {K : Type} [Zero K] [One K] (N : Nat) (s₁ s₂ : Seed)
    (tape : Option Int → List Nat) (h : processSeed s₁ = processSeed s₂) :
    (randomPermutation N s₁ tape : Except Err (M K)) = randomPermutation N s₂ tape :=
  randomPermutation_reproducible N s₁ s₂ tape h

/-- valid: for every order `σ` that is a permutation of `range N` the result is a permutation
matrix (one 1 per row, in column `σ[i]`; every column hit exactly once) and unitary -/
theorem random_permutation_valid {K : Type} [CommRing K] [StarRing K] (N : Nat) (σ : List Nat)
    (hσ : σ.Perm (List.range N)) :
    IsUnitary (permRows N σ : M K) ∧
    (∀ i j, i < N → j < N → (permRows N σ : M K).get i j = if σ.getD i N = j then 1 else 0) ∧
    (∀ i, i < N → σ.getD i N < N) ∧
    (∀ j, j < N → ∃ i, i < N ∧ σ.getD i N = j ∧ ∀ i', i' < N → σ.getD i' N = j → i' = i) :=
  ⟨permRows_unitary N σ hσ, permRows_is_permutation N σ hσ⟩
example : ([2, 0, 1] : List Nat).Perm (List.range 3) := by decide

end LW.C18
