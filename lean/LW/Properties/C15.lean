/-
  C15 — State tomography reconstructs the prepared state.

  Only the property theorems and their non-vacuity examples live here; proofs are in
  LW/Proofs/{TomoKron,TomoLocal,C15Expect,C15,C15Pure,C15Circuits}.lean.

  Model: LW.Model.Tomo (`process` mirrors `StateTomography.process`, `expectation`
  `_calculate_expectation_value`, `densityMatrix` `_calculate_density_matrix`, `tomoMeasurements` /
  `requiredSet` the two enumeration helpers, `createCircuit` `_create_circuit`; `bornTable` is the
  specification of "noiseless outcome frequencies of the requested circuit").

  All statements are for every number of qubits `n ≥ 1`, every density operator / state vector over
  any field `K` with a star (in particular ℂ), the two float constants of the code entering through
  `Consts i h` (`i² = -1`, `conj i = -i`, `h` real, `2h² = 1`), every order in which the callback
  may see the settings and every ordering of the entries of each result dictionary.
-/
import Mathlib.Analysis.Real.Sqrt
import Mathlib.Data.Complex.Basic
import LW.Proofs.C15Main

open scoped BigOperators

namespace LW.C15

open LW.Tomo

variable {K : Type} [Field K] [StarRing K] [DecidableEq K]

/-- Main clause.  Given noiseless outcome frequencies (`bornTable`: for every requested setting
the Born probabilities of the state after that setting's basis change — in any order inside each
dictionary, `List.Perm`) `process()` returns `ρ₀ / tr ρ₀`, whatever the order `order` in which the
implementation enumerated the settings (any list containing the setting of every measurement
string; see `required_settings`). `ρ₀` is any `2ⁿ×2ⁿ` matrix with non-zero trace: pure or mixed,
entangled or not, normalised or not (post-selection / heralding success probability). -/
theorem process_returns_density {i h : K} (hc : Consts i h) (h2 : (1 + 1 : K) ≠ 0) (n : Nat)
    (hn : 0 < n) (rho0 : M K) (htr : trN n rho0 ≠ 0) (order : List Meas) (rs : List (Res K))
    (hcover : ∀ c ∈ tomoMeasurements n, c.map toZ ∈ order)
    (hrs : List.Forall₂ (fun s r => r.Perm (bornTable i h n rho0 s)) order rs) :
    process i n order rs = .ok (normalised n rho0) :=
  process_born hc h2 n hn rho0 htr order rs hcover hrs

/-- Pure state: for the state vector `ψ` the base circuit prepares, `process()` returns a matrix
that equals the outer product `|ψ⟩⟨ψ|/⟨ψ|ψ⟩`, is Hermitian, has unit trace and is a projector;
and `fidelity` against that matrix is one (given the contract of `scipy.linalg.sqrtm` on a
projector: its principal square root is itself). -/
theorem process_returns_pure_state {i h : K} (hc : Consts i h) (h2 : (1 + 1 : K) ≠ 0) (n : Nat)
    (hn : 0 < n) (psi : Nat → K) (hnorm : normSq n psi ≠ 0) (order : List Meas) (rs : List (Res K))
    (hcover : ∀ c ∈ tomoMeasurements n, c.map toZ ∈ order)
    (hrs : List.Forall₂ (fun s r => r.Perm (bornTable i h n (densityOfState (2 ^ n) psi) s)) order rs)
    (sqrtm : M K → M K) (hsq : ∀ A : M K, A.mul A = A → sqrtm A = A) :
    ∃ rho, process i n order rs = .ok rho ∧ rho.n = 2 ^ n ∧
      (∀ r k, r < 2 ^ n → k < 2 ^ n → rho.get r k = psi r * star (psi k) * (normSq n psi)⁻¹) ∧
      (∀ r k, r < 2 ^ n → k < 2 ^ n → star (rho.get k r) = rho.get r k) ∧
      trace rho = 1 ∧
      stateFidelity sqrtm rho rho = .ok 1 :=
  Proofs.C15.process_pure hc h2 n hn psi hnorm order rs hcover hrs sqrtm hsq

/-- Pauli reconstruction `ρ = 2⁻ⁿ Σ_P tr(Pρ) P` for every `2ⁿ×2ⁿ` matrix, the sum over the strings
`_get_tomo_measurements` enumerates (single-qubit completeness + Kronecker induction). -/
theorem pauli_reconstruction {i : K} (hi : i * i = -1) (h2 : (1 + 1 : K) ≠ 0) (n : Nat) (hn : 0 < n)
    (rho0 : M K) {r k : Nat} (hr : r < 2 ^ n) (hk : k < 2 ^ n) :
    ((tomoMeasurements n).map fun c =>
        trPauli i rho0 c * (twoPow n)⁻¹ * (pauliKron i c).get r k).sum = rho0.get r k :=
  Tomo.pauli_reconstruction hi h2 n hn rho0 hr hk

/-- The basis change of `MEASUREMENT_MAPPING[g]` turns a Z measurement into a measurement of `g`:
`Σ_y (±1)_y U[y,x] conj U[y,x'] = P_g[x',x]`, i.e. `U_g† Z U_g = P_g` (and `= 1` for `I`, which
reuses the Z setting and ignores the outcome). -/
theorem measurement_circuit_realises_pauli {i h : K} (hc : Consts i h) (g : Pauli) {x' x : Nat}
    (hx' : x' < 2) (hx : x < 2) :
    loc i h g (toZ g) x' x = (pauliM i g).get x' x :=
  loc_pauli hc g hx' hx

/-- `_calculate_expectation_value` on the noiseless table of the setting serving `c` is
`tr(P_c ρ₀)/tr ρ₀`. -/
theorem expectation_eq_trace {i h : K} (hc : Consts i h) (c : Meas) (rho0 : M K) (r : Res K)
    (hr : r.Perm (bornTable i h c.length rho0 (c.map toZ))) (htr : trN c.length rho0 ≠ 0) :
    expectation c r = .ok (trPauli i rho0 c * (trN c.length rho0)⁻¹) :=
  expectation_born hc c rho0 r hr htr

/-- The settings `process()` requests: no duplicates, exactly the strings of length `n` over
`{X, Y, Z}` (so `3ⁿ` of them), and any enumeration of that set serves every measurement string
(this discharges `hcover` above for every order the callback may see). -/
theorem required_settings {n : Nat} (hn : 0 < n) :
    (requiredSet n).Nodup ∧ (∀ s, s ∈ requiredSet n ↔ s ∈ requiredSpec n) ∧
    (∀ s, s ∈ requiredSpec n ↔ s.length = n ∧ ∀ p ∈ s, p ∈ [Pauli.X, Pauli.Y, Pauli.Z]) ∧
    ∀ order : List Meas, order.Perm (requiredSet n) →
      ∀ c ∈ tomoMeasurements n, c.map toZ ∈ order :=
  Proofs.C15.required_settings hn

/-- `process()` raises `ValueError` when the callback returns a different number of results than
circuits (`zip(..., strict=True)`). -/
theorem process_rejects_wrong_result_count (i : K) (n : Nat) (order : List Meas) (rs : List (Res K))
    (h : order.length ≠ rs.length) : process i n order rs = .error .value :=
  process_length_mismatch i n order rs h

/-- Requested circuits, for base circuits without private ancilla modes: `_create_circuit` returns
the base specification, unchanged, followed by the setting's basis-change unitaries on the mode
pairs `(2k, 2k+1)`; hence its `U_full` is the base's `U_full` followed by those components.
The base value itself is not touched (the model is purely functional; C08 frame).
PARTIAL: base circuits containing heralded sub-circuits need the refinement theorem of `Circuit.add`
(C02 `sem_add`, not proved); the full statement is `requested_circuits_statement`. -/
theorem requested_circuits_partial {R : Type} [CommRing R] (i h : R) (nQ : Nat) (base : Circ R)
    (hint : base.internal = []) (hn : base.n = 2 * nQ) (s : Meas) (hs : s.length = nQ) :
    createCircuit nQ base (s.map (measCirc i h))
        = .ok { base with spec := base.spec ++ basisChangeSpec i h 0 s } ∧
      Circ.Ufull i { base with spec := base.spec ++ basisChangeSpec i h 0 s }
        = (basisChangeSpec i h 0 s).foldl (compileComp i) (base.Ufull i) :=
  ⟨createCircuit_plain i h nQ base hint hn s hs, requested_Ufull i h base s⟩

/-- full statement of the circuits clause (any base with `2n` input modes, ancillas allowed):
the requested circuit keeps the base's heralds and its `U_full` is the base's followed by the
basis changes embedded on the internal positions of the visible mode pairs -/
def requested_circuits_statement : Prop :=
  ∀ (R : Type) [CommRing R] (i h : R) (nQ : Nat) (base : Circ R) (s : Meas),
    base.inputModes = 2 * nQ → s.length = nQ →
    ∃ c, createCircuit nQ base (s.map (measCirc i h)) = .ok c ∧ c.n = base.n ∧
      c.inHer = base.inHer ∧ c.outHer = base.outHer ∧
      Circ.Ufull i c = ((List.range nQ).zip s).foldl
        (fun U ks => ((measCirc i h ks.2).spec.map
            (Comp.shift (base.mapMode (2 * (ks.1 : Int))).toNat)).foldl (compileComp i) U)
        (base.Ufull i)

/-- `_create_circuit` raises `ValueError` for a wrong number of operators. -/
theorem create_circuit_rejects_wrong_length {R : Type} [CommRing R] (nQ : Nat) (base : Circ R)
    (ops : List (Circ R)) (h : ops.length ≠ nQ) : createCircuit nQ base ops = .error .value :=
  createCircuit_wrong_length nQ base ops h

/-! ### non-vacuity: the hypotheses are met over ℂ by the code's constants and a concrete state -/

noncomputable section
open Classical

/-- the constants of the code over ℂ -/
theorem consts_complex : Consts (Complex.I) (((Real.sqrt 2)⁻¹ : ℝ) : ℂ) :=
  Proofs.C15.consts_complex

/-- a concrete instance of `process_returns_density`: one qubit, `ρ₀ = [[1, i], [-i, 3]]`
(non-diagonal, complex, trace 4), settings in the order `Y, Z, X` -/
example :
    process Complex.I 1 [[Pauli.Y], [Pauli.Z], [Pauli.X]]
        ([[Pauli.Y], [Pauli.Z], [Pauli.X]].map
          (bornTable Complex.I (((Real.sqrt 2)⁻¹ : ℝ) : ℂ) 1 (mat2 1 Complex.I (-Complex.I) 3)))
      = .ok (normalised 1 (mat2 1 Complex.I (-Complex.I) 3)) :=
  Proofs.C15.example_instance

end

end LW.C15
