/-
  C15 — State tomography reconstructs the prepared state.

  Only the property theorems and their non-vacuity examples live here; proofs are in
  LW/Proofs/{TomoKron,TomoLocal,C15Expect,C15,C15Pure,C15Circuits,C15Main}.lean and, for the
  circuits clause with ancillas, LW/Proofs/{C15Full,C15Full2,C15Full3,C15Full4,C15Full5,C15Cex}.lean.

  Model: LW.Model.Tomo (`process` mirrors `StateTomography.process`, `expectation`
  `_calculate_expectation_value`, `densityMatrix` `_calculate_density_matrix`, `tomoMeasurements` /
  `requiredSet` the two enumeration helpers, `createCircuit` `_create_circuit`; `bornTable` is the
  specification of "noiseless outcome frequencies of the requested circuit").

  All statements are for every number of qubits `n ≥ 1`, every density operator / state vector over
  any field `K` with a star (in particular ℂ), the two float constants of the code entering through
  `Consts i h` (`i² = -1`, `conj i = -i`, `h` real, `2h² = 1`), every order in which the callback
  may see the settings and every ordering of the entries of each result dictionary.

  Circuits clause (which circuit `process()` hands to the experiment callback for a setting):
    * PROVED for every base circuit satisfying the bookkeeping invariant `Circ.WF` — hence for every
      circuit constructible through the API (`Reach`), with heralded sub-circuits / private ancilla
      modes anywhere (`requested_circuits_corrected`, `requested_circuits_constructible`): the
      requested circuit is the base, unchanged, followed by the 2×2 unitaries of each qubit's basis
      change acting on the two FULL modes `_map_mode(2k)`, `_map_mode(2k+1)` that carry the rails of
      qubit `k`; ancillas lying between the two rails are passed through untouched.
    * FOUND FALSE: the statement as first written (`requested_circuits_statement`, kept below) placed
      each basis change on the ADJACENT full modes `_map_mode(2k)`, `_map_mode(2k)+1`.  Witness
      (`requested_circuits_statement_false`): `base = Circuit(2).add(S, 0)` with `S = Circuit(3)`
      heralded on its middle mode — constructible, 2 input modes, the ancilla is full mode 1 and the
      rails of the qubit are full modes 0 and 2; for the setting `X` the requested circuit applies
      `H` on full modes (0, 2), the original statement claims (0, 1).  The original statement does
      hold when no ancilla lies between the rails of any qubit (`requested_circuits_partial` for no
      ancillas at all; LW/Proofs/C15Full4.lean `requested_circuits_adjacent` in general).
-/
import Mathlib.Analysis.Real.Sqrt
import Mathlib.Data.Complex.Basic
import LW.Proofs.C15Main
import LW.Proofs.C15Cex

open scoped BigOperators

namespace LW.C15

open LW.Tomo

variable {K : Type} [Field K] [StarRing K] [DecidableEq K]

/-- Main clause.  Given noiseless outcome frequencies (`bornTable`: for every requested setting
the Born probabilities of the state after that setting's basis change — in any order inside each
dictionary, `List.Perm`) `process()` returns `ρ₀ / tr ρ₀`, whatever the order `order` in which the
implementation enumerated the settings (any list containing the setting of every measurement
string; see `required_settings`). `ρ₀` is any `2ⁿ×2ⁿ` matrix with non-zero trace: pure or mixed,
entangled or not, normalised or not (post-selection / heralding success probability). -/
theorem process_returns_density {i h : K} (hc : Consts i h) (h2 : (1 + 1 : K) ≠ 0) (n : Nat)
    (hn : 0 < n) (rho0 : M K) (htr : trN n rho0 ≠ 0) (order : List Meas) (rs : List (Res K))
    (hcover : ∀ c ∈ tomoMeasurements n, c.map toZ ∈ order)
    (hrs : List.Forall₂ (fun s r => r.Perm (bornTable i h n rho0 s)) order rs) :
    process i n order rs = .ok (normalised n rho0) :=
  process_born hc h2 n hn rho0 htr order rs hcover hrs

/-- Pure state: for the state vector `ψ` the base circuit prepares, `process()` returns a matrix
that equals the outer product `|ψ⟩⟨ψ|/⟨ψ|ψ⟩`, is Hermitian, has unit trace and is a projector;
and `fidelity` against that matrix is one (given the contract of `scipy.linalg.sqrtm` on a
projector: its principal square root is itself). -/
theorem process_returns_pure_state {i h : K} (hc : Consts i h) (h2 : (1 + 1 : K) ≠ 0) (n : Nat)
    (hn : 0 < n) (psi : Nat → K) (hnorm : normSq n psi ≠ 0) (order : List Meas) (rs : List (Res K))
    (hcover : ∀ c ∈ tomoMeasurements n, c.map toZ ∈ order)
    (hrs : List.Forall₂ (fun s r => r.Perm (bornTable i h n (densityOfState (2 ^ n) psi) s)) order rs)
    (sqrtm : M K → M K) (hsq : ∀ A : M K, A.mul A = A → sqrtm A = A) :
    ∃ rho, process i n order rs = .ok rho ∧ rho.n = 2 ^ n ∧
      (∀ r k, r < 2 ^ n → k < 2 ^ n → rho.get r k = psi r * star (psi k) * (normSq n psi)⁻¹) ∧
      (∀ r k, r < 2 ^ n → k < 2 ^ n → star (rho.get k r) = rho.get r k) ∧
      trace rho = 1 ∧
      stateFidelity sqrtm rho rho = .ok 1 :=
  Proofs.C15.process_pure hc h2 n hn psi hnorm order rs hcover hrs sqrtm hsq

/-- Pauli reconstruction `ρ = 2⁻ⁿ Σ_P tr(Pρ) P` for every `2ⁿ×2ⁿ` matrix, the sum over the strings
`_get_tomo_measurements` enumerates (single-qubit completeness + Kronecker induction). -/
theorem pauli_reconstruction {i : K} (hi : i * i = -1) (h2 : (1 + 1 : K) ≠ 0) (n : Nat) (hn : 0 < n)
    (rho0 : M K) {r k : Nat} (hr : r < 2 ^ n) (hk : k < 2 ^ n) :
    ((tomoMeasurements n).map fun c =>
        trPauli i rho0 c * (twoPow n)⁻¹ * (pauliKron i c).get r k).sum = rho0.get r k :=
  Tomo.pauli_reconstruction hi h2 n hn rho0 hr hk

/-- The basis change of `MEASUREMENT_MAPPING[g]` turns a Z measurement into a measurement of `g`:
`Σ_y (±1)_y U[y,x] conj U[y,x'] = P_g[x',x]`, i.e. `U_g† Z U_g = P_g` (and `= 1` for `I`, which
reuses the Z setting and ignores the outcome). -/
theorem measurement_circuit_realises_pauli {i h : K} (hc : Consts i h) (g : Pauli) {x' x : Nat}
    (hx' : x' < 2) (hx : x < 2) :
    loc i h g (toZ g) x' x = (pauliM i g).get x' x :=
  loc_pauli hc g hx' hx

/-- `_calculate_expectation_value` on the noiseless table of the setting serving `c` is
`tr(P_c ρ₀)/tr ρ₀`. -/
theorem expectation_eq_trace {i h : K} (hc : Consts i h) (c : Meas) (rho0 : M K) (r : Res K)
    (hr : r.Perm (bornTable i h c.length rho0 (c.map toZ))) (htr : trN c.length rho0 ≠ 0) :
    expectation c r = .ok (trPauli i rho0 c * (trN c.length rho0)⁻¹) :=
  expectation_born hc c rho0 r hr htr

/-- The settings `process()` requests: no duplicates, exactly the strings of length `n` over
`{X, Y, Z}` (so `3ⁿ` of them), and any enumeration of that set serves every measurement string
(this discharges `hcover` above for every order the callback may see). -/
theorem required_settings {n : Nat} (hn : 0 < n) :
    (requiredSet n).Nodup ∧ (∀ s, s ∈ requiredSet n ↔ s ∈ requiredSpec n) ∧
    (∀ s, s ∈ requiredSpec n ↔ s.length = n ∧ ∀ p ∈ s, p ∈ [Pauli.X, Pauli.Y, Pauli.Z]) ∧
    ∀ order : List Meas, order.Perm (requiredSet n) →
      ∀ c ∈ tomoMeasurements n, c.map toZ ∈ order :=
  Proofs.C15.required_settings hn

/-- `process()` raises `ValueError` when the callback returns a different number of results than
circuits (`zip(..., strict=True)`). -/
theorem process_rejects_wrong_result_count (i : K) (n : Nat) (order : List Meas) (rs : List (Res K))
    (h : order.length ≠ rs.length) : process i n order rs = .error .value :=
  process_length_mismatch i n order rs h

/-- Requested circuits, for base circuits without private ancilla modes: `_create_circuit` returns
the base specification, unchanged, followed by the setting's basis-change unitaries on the mode
pairs `(2k, 2k+1)`; hence its `U_full` is the base's `U_full` followed by those components.
The base value itself is not touched (the model is purely functional; C08 frame).
(No invariant is needed in this case; base circuits with ancillas are covered by
`requested_circuits_corrected`.) -/
theorem requested_circuits_partial {R : Type} [CommRing R] (i h : R) (nQ : Nat) (base : Circ R)
    (hint : base.internal = []) (hn : base.n = 2 * nQ) (s : Meas) (hs : s.length = nQ) :
    createCircuit nQ base (s.map (measCirc i h))
        = .ok { base with spec := base.spec ++ basisChangeSpec i h 0 s } ∧
      Circ.Ufull i { base with spec := base.spec ++ basisChangeSpec i h 0 s }
        = (basisChangeSpec i h 0 s).foldl (compileComp i) (base.Ufull i) :=
  ⟨createCircuit_plain i h nQ base hint hn s hs, requested_Ufull i h base s⟩

/-- the circuits clause as ORIGINALLY stated (any base with `2n` input modes, ancillas allowed):
the requested circuit keeps the base's heralds and its `U_full` is the base's followed by the
basis changes placed, as 2-mode blocks, at full mode `_map_mode(2k)` — i.e. on the adjacent full
modes `_map_mode(2k)`, `_map_mode(2k) + 1`.  FALSE (`requested_circuits_statement_false`); the
corrected statement is `requested_circuits_corrected_statement`. -/
def requested_circuits_statement : Prop :=
  ∀ (R : Type) [CommRing R] (i h : R) (nQ : Nat) (base : Circ R) (s : Meas),
    base.inputModes = 2 * nQ → s.length = nQ →
    ∃ c, createCircuit nQ base (s.map (measCirc i h)) = .ok c ∧ c.n = base.n ∧
      c.inHer = base.inHer ∧ c.outHer = base.outHer ∧
      Circ.Ufull i c = ((List.range nQ).zip s).foldl
        (fun U ks => ((measCirc i h ks.2).spec.map
            (Comp.shift (base.mapMode (2 * (ks.1 : Int))).toNat)).foldl (compileComp i) U)
        (base.Ufull i)

/-- The original statement is false.  Witness: the constructible base `Circuit(2).add(S, 0)`, `S`
a 3-mode circuit heralded on its middle mode (ancilla = full mode 1, between the rails 0 and 2 of
the only qubit), setting `X`, over ℤ with `h = 1`: entry `(0, 1)` of `U_full` of the circuit
`_create_circuit` returns is 0, the original right-hand side has 1 there. -/
theorem requested_circuits_statement_false : ¬ requested_circuits_statement :=
  requested_circuits_original_false

/-- the witness base circuit is constructible through the API, has two input modes, and the rails of
its qubit sit on the full modes 0 and 2 -/
theorem requested_circuits_witness_constructible :
    Reach cexBase ∧ cexBase.inputModes = 2 * 1 ∧ cexBase.mapMode 0 = 0 ∧ cexBase.mapMode 1 = 2 :=
  ⟨cexBase_reach, cexBase_inputModes, cexBase_rails.1, cexBase_rails.2⟩

/-- `MEASUREMENT_MAPPING[g]` is a herald-free 2-mode circuit whose components are the 2×2 unitaries
`measUs i h g` (`[H]`, `[S, Z, H]`, `[1]`, `[1]` for `X, Y, Z, I`), each on its modes 0, 1. -/
theorem basis_change_components {R : Type} [CommRing R] (i h : R) (g : Pauli) :
    (measCirc i h g).n = 2 ∧ (measCirc i h g).inHer = [] ∧ (∀ u ∈ measUs i h g, u.n = 2) ∧
      (measCirc i h g).spec = (measUs i h g).map fun u => Comp.prim (.unitary 0 u) :=
  ⟨measCirc_n i h g, measCirc_inHer i h g, measUs_n i h g, measCirc_spec i h g⟩

/-- Requested circuits, CORRECTED full statement: for every base circuit satisfying the bookkeeping
invariant `Circ.WF` (heralds / ancillas anywhere) with `2·nQ` input modes, `_create_circuit` returns
the base with only its specification extended (by `railSpec`: one `Unitary` component per 2×2 matrix
of each qubit's basis change, see `rail_component_acts_on_rails`) — same number of full modes, same
heralds, same ancilla list — and its `U_full` is the base's `U_full` followed, for each qubit `k` in
order, by the 2×2 unitaries of the basis change of `s[k]` acting on the two full modes
`_map_mode(2k)` and `_map_mode(2k+1)` that carry the rails of qubit `k` (`embed2 N a b …` is the
identity on every other mode, so an ancilla between the rails is passed through untouched). -/
def requested_circuits_corrected_statement : Prop :=
  ∀ (R : Type) [CommRing R] (i h : R) (nQ : Nat) (base : Circ R) (s : Meas),
    base.WF → base.inputModes = 2 * nQ → s.length = nQ →
    ∃ c, createCircuit nQ base (s.map (measCirc i h)) = .ok c ∧
      c = { base with spec := base.spec ++ railSpec i h base s } ∧
      c.n = base.n ∧ c.inHer = base.inHer ∧ c.outHer = base.outHer ∧ c.internal = base.internal ∧
      Circ.Ufull i c = ((List.range nQ).zip s).foldl
        (fun U ks => (measUs i h ks.2).foldl
          (fun U u =>
            (embed2 U.n (base.mapMode (2 * (ks.1 : Int))).toNat
              (base.mapMode (2 * (ks.1 : Int) + 1)).toNat
              (u.get 0 0) (u.get 0 1) (u.get 1 0) (u.get 1 1)).mul U) U)
        (base.Ufull i)

theorem requested_circuits_corrected : requested_circuits_corrected_statement :=
  fun _ _ i h nQ base s hwf hin hs => Tomo.requested_circuits_corrected i h nQ base s hwf hin hs

/-- … in particular for every base circuit constructible through the API (`Reach`;
LW/Properties/Reach.lean `reach_WF`). -/
theorem requested_circuits_constructible {R : Type} [CommRing R] [StarRing R] (i h : R) (nQ : Nat)
    (base : Circ R) (s : Meas) (hreach : Reach base) (hin : base.inputModes = 2 * nQ)
    (hs : s.length = nQ) :
    ∃ c, createCircuit nQ base (s.map (measCirc i h)) = .ok c ∧
      c = { base with spec := base.spec ++ railSpec i h base s } ∧
      c.n = base.n ∧ c.inHer = base.inHer ∧ c.outHer = base.outHer ∧ c.internal = base.internal ∧
      Circ.Ufull i c = ((List.range nQ).zip s).foldl
        (fun U ks => (measUs i h ks.2).foldl
          (fun U u =>
            (embed2 U.n (base.mapMode (2 * (ks.1 : Int))).toNat
              (base.mapMode (2 * (ks.1 : Int) + 1)).toNat
              (u.get 0 0) (u.get 0 1) (u.get 1 0) (u.get 1 1)).mul U) U)
        (base.Ufull i) :=
  requested_circuits_reach i h nQ base s hreach hin hs

/-- Each component of `railSpec` is `Unitary(stretchU t u)` placed at full mode `a = _map_mode(2k)`,
with `t = railGap base (2k)` the number of ancillas between the rails (`stretchU t u` is
`add_mode_to_unitary` applied at positions `1, …, t`, as `Circuit.add` does); compiled, it is the
2×2 unitary `u` on the full modes `a` and `a + t + 1 = _map_mode(2k+1)`, identity elsewhere. -/
theorem rail_component_acts_on_rails {R : Type} [CommRing R] (i : R) (U : M R) (a t : Nat) (u : M R)
    (hu : u.n = 2) :
    compileComp i U (.prim (.unitary a (stretchU t u)))
      = (embed2 U.n a (a + t + 1) (u.get 0 0) (u.get 0 1) (u.get 1 0) (u.get 1 1)).mul U :=
  railComp_compile i U a t u hu

/-- the full modes of the two rails of qubit `k` are `railGap base (2k) + 1` apart -/
theorem rail_positions {R : Type} [CommRing R] (base : Circ R) (k : Nat) :
    (base.mapMode (2 * (k : Int))).toNat + railGap base (2 * k) + 1
      = (base.mapMode (2 * (k : Int) + 1)).toNat :=
  railGap_rails base k

/-- `_create_circuit` raises `ValueError` for a wrong number of operators. -/
theorem create_circuit_rejects_wrong_length {R : Type} [CommRing R] (nQ : Nat) (base : Circ R)
    (ops : List (Circ R)) (h : ops.length ≠ nQ) : createCircuit nQ base ops = .error .value :=
  createCircuit_wrong_length nQ base ops h

/-! ### non-vacuity: the hypotheses are met over ℂ by the code's constants and a concrete state -/

noncomputable section
open Classical

/-- the constants of the code over ℂ -/
theorem consts_complex : Consts (Complex.I) (((Real.sqrt 2)⁻¹ : ℝ) : ℂ) :=
  Proofs.C15.consts_complex

/-- a concrete instance of `process_returns_density`: one qubit, `ρ₀ = [[1, i], [-i, 3]]`
(non-diagonal, complex, trace 4), settings in the order `Y, Z, X` -/
example :
    process Complex.I 1 [[Pauli.Y], [Pauli.Z], [Pauli.X]]
        ([[Pauli.Y], [Pauli.Z], [Pauli.X]].map
          (bornTable Complex.I (((Real.sqrt 2)⁻¹ : ℝ) : ℂ) 1 (mat2 1 Complex.I (-Complex.I) 3)))
      = .ok (normalised 1 (mat2 1 Complex.I (-Complex.I) 3)) :=
  Proofs.C15.example_instance

end

/-- non-vacuity of `requested_circuits_constructible` on a base with an ancilla BETWEEN the rails:
`base = Circuit(2).add(S, 0)`, `S = Circuit(3)` heralded on its middle mode (constructible,
`requested_circuits_witness_constructible`), setting `X`, over ℤ with `h = 1`: the requested circuit
has the base's 3 full modes and heralds, and its `U_full` is `[[1, 1], [1, -1]]` on the full modes
0 and 2 (ancilla mode 1 untouched) after the base's. -/
example :
    ∃ c, createCircuit 1 cexBase ([Pauli.X].map (measCirc (0 : Int) 1)) = .ok c ∧
      c.n = 3 ∧ c.inHer = [(1, 0)] ∧ c.outHer = [(1, 0)] ∧
      Circ.Ufull 0 c = (embed2 3 0 2 1 1 1 (-1)).mul (cexBase.Ufull 0) :=
  cex_corrected_instance

end LW.C15
