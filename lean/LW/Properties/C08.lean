/-
  C08 — Operations never modify their arguments; failed calls change nothing.

  `heapStep` (LW.Model.Heap) is the construction API as an operation on the pool of live circuit
  objects; the correspondence check compares *every* live object of the implementation with this
  pool after every call, so the frame theorems below transfer to the code.
-/
import LW.Model.Heap

namespace LW.C08

variable {K : Type} [Zero K] [One K]

omit [Zero K] [One K] in
theorem Heap.find_map_ne (h : Heap K) (k k' : String) (c : Circ K) (hne : k' ≠ k) :
    ((h.map fun x => if x.1 == k then (k, c) else x).find? (·.1 == k')).map (·.2) =
      (h.find? (·.1 == k')).map (·.2) := by
  induction h with
  | nil => rfl
  | cons x xs ih =>
    rw [List.map_cons]
    by_cases hx : x.1 = k
    · have hf : (if (x.1 == k) = true then (k, c) else x) = (k, c) := by simp [hx]
      have h1 : (x.1 == k') = false := by simp [hx, Ne.symm hne]
      have h2 : (k == k') = false := by simp [Ne.symm hne]
      rw [hf, List.find?_cons, List.find?_cons]
      simp only [h1, h2]
      exact ih
    · have hf : (if (x.1 == k) = true then (k, c) else x) = x := by simp [hx]
      rw [hf, List.find?_cons, List.find?_cons]
      cases hxk : (x.1 == k')
      · exact ih
      · rfl

omit [Zero K] [One K] in
theorem Heap.get?_set_ne (h : Heap K) (k k' : String) (c : Circ K) (hne : k' ≠ k) :
    (h.set k c).get? k' = h.get? k' := by
  unfold Heap.set Heap.get?
  split
  · exact Heap.find_map_ne h k k' c hne
  · rw [List.find?_append]
    have : ([(k, c)] : Heap K).find? (·.1 == k') = none := by
      simp [hne.symm]
    simp [this]

/-- FRAME: a call leaves every object other than its target exactly as it was — in particular
the circuit passed to `add` / `+` / `copy`, and every parent an object was added to earlier. -/
theorem step_frame (h h' : Heap K) (op : CircOp K) (r : Outcome)
    (hs : heapStep h op = some (h', r)) (k : String) (hk : k ≠ op.target) :
    h'.get? k = h.get? k := by
  unfold heapStep at hs
  split at hs
  · exact absurd hs (by simp)
  · simp only [Option.some.injEq, Prod.mk.injEq] at hs
    rw [← hs.1]
    exact Heap.get?_set_ne h op.target k _ hk
  · simp only [Option.some.injEq, Prod.mk.injEq] at hs
    rw [← hs.1]

/-- a call that raises leaves the whole pool — the target included — exactly as it was -/
theorem failed_step_noop (h h' : Heap K) (op : CircOp K) (e : Err)
    (hs : heapStep h op = some (h', some e)) : h' = h := by
  unfold heapStep at hs
  split at hs
  · exact absurd hs (by simp)
  · simp at hs
  · simp only [Option.some.injEq, Prod.mk.injEq] at hs
    exact hs.1.symm

/-- the frame property lifted to every history: an object that is never the target of a call in
the history is unchanged at its end (e.g. a sub-circuit reused as an argument any number of
times, or a parent while its former sub-circuits are edited). -/
theorem run_frame (ops : List (CircOp K)) (h h' : Heap K) (rs : List Outcome)
    (hr : heapRun h ops = some (h', rs)) (k : String) (hk : ∀ op ∈ ops, k ≠ op.target) :
    h'.get? k = h.get? k := by
  induction ops generalizing h h' rs with
  | nil =>
    simp only [heapRun, Option.some.injEq, Prod.mk.injEq] at hr
    rw [← hr.1]
  | cons op ops ih =>
    simp only [heapRun, Option.bind_eq_bind] at hr
    cases hs : heapStep h op with
    | none => simp [hs] at hr
    | some p =>
      obtain ⟨h1, r⟩ := p
      simp only [hs, Option.bind_some] at hr
      cases hr2 : heapRun h1 ops with
      | none => simp [hr2] at hr
      | some q =>
        obtain ⟨h2, rs2⟩ := q
        simp only [hr2, Option.bind_some, Option.pure_def, Option.some.injEq, Prod.mk.injEq] at hr
        rw [← hr.1]
        rw [ih h1 h2 rs2 hr2 (fun op' hop' => hk op' (List.mem_cons_of_mem _ hop'))]
        exact step_frame h h1 op r hs k (hk op List.mem_cons_self)

/-- one outcome is recorded per call -/
theorem run_outcomes_length (ops : List (CircOp K)) (h h' : Heap K) (rs : List Outcome)
    (hr : heapRun h ops = some (h', rs)) : rs.length = ops.length := by
  induction ops generalizing h h' rs with
  | nil =>
    simp only [heapRun, Option.some.injEq, Prod.mk.injEq] at hr
    simp [← hr.2]
  | cons op ops ih =>
    simp only [heapRun, Option.bind_eq_bind] at hr
    cases hs : heapStep h op with
    | none => simp [hs] at hr
    | some p =>
      obtain ⟨h1, r⟩ := p
      simp only [hs, Option.bind_some] at hr
      cases hr2 : heapRun h1 ops with
      | none => simp [hr2] at hr
      | some q =>
        obtain ⟨h2, rs2⟩ := q
        simp only [hr2, Option.bind_some, Option.pure_def, Option.some.injEq, Prod.mk.injEq] at hr
        simp [← hr.2, ih h1 h2 rs2 hr2]

/-- non-vacuity: a rejected oversize addition on a concrete pool leaves it unchanged, and the
accepted one changes only the parent -/
example :
    let h : Heap Int := [("p", Circ.new 2), ("s", Circ.new 3)]
    heapStep h (.add "p" "s" 0 false) = some (h, some .modeRange) := rfl

end LW.C08
