/-
  C17 — Result containers index consistently and mappings conserve weight.

  Only the property theorems and their non-vacuity examples live here; the proofs are in
  LW/Proofs/C17*.lean.  Model: LW.Model.Result (`SimResult`, `SampResult`, `thr`, `par`, `accum`,
  `recombine`).  Values live in any additive commutative monoid `V` (ℝ, ℂ, ℕ, …); states are
  arbitrary integer lists; there is no bound on the number of inputs, outputs or modes; the
  statements about mapped results hold for EVERY iteration order of the Python set of outputs.
-/
import LW.Proofs.C17

namespace LW.C17

open LW.SV LW.Res

variable {V : Type}

/-! ## SimulationResult: construction and indexing -/

/-- the constructor accepts exactly a valid result type with matching shape; every refusal is a
ResultCreationError (`.other`); an accepted result returns its inputs, outputs and array as given -/
theorem sim_new_ok_iff (rtype : Option RType) (A : Arr V) (ins outs : List St) :
    (∃ r, SimResult.new rtype A ins outs = .ok r) ↔ rtype.isSome ∧ ins.length = A.r ∧ outs.length = A.c :=
  Res.sim_new_ok_iff rtype A ins outs
theorem sim_new_error (rtype : Option RType) (A : Arr V) (ins outs : List St) (e : Err)
    (h : SimResult.new rtype A ins outs = .error e) : e = .other :=
  Res.sim_new_error rtype A ins outs e h
theorem sim_new_fields (t : RType) (A : Arr V) (ins outs : List St) (r : SimResult V)
    (h : SimResult.new (some t) A ins outs = .ok r) :
    r.rtype = t ∧ r.inputs = ins ∧ r.outputs = outs ∧ r.array = A ∧ r.dict = buildDict ins outs A ∧
    ins.length = A.r ∧ outs.length = A.c :=
  Res.sim_new_fields t A ins outs r h
example : ∃ r, SimResult.new (some .probability) (⟨1, 2, [[1, 2]]⟩ : Arr Nat) [⟨[1, 0]⟩] [⟨[2, 0]⟩, ⟨[1, 1]⟩] = .ok r :=
  (Res.sim_new_ok_iff _ _ _ _).mpr ⟨rfl, rfl, rfl⟩

/-- INDEXING COHERENCE: pair indexing `r[in, out]`, nested indexing `r[in][out]` (also `r[in, None]`)
and the array agree at every position `(i, j)` whose states do not occur again later in the lists —
i.e. at EVERY position when the input and output lists are duplicate-free -/
theorem indexing_coherent [Zero V] (t : RType) (A : Arr V) (hA : A.WF) (ins outs : List St) (r : SimResult V)
    (h : SimResult.new (some t) A ins outs = .ok r) (i j : Nat) (hi : i < ins.length) (hj : j < outs.length)
    (hli : ∀ i' (h' : i' < ins.length), i < i' → ins[i'] ≠ ins[i])
    (hlj : ∀ j' (h' : j' < outs.length), j < j' → outs[j'] ≠ outs[j]) :
    ∃ row, r.getItem (.st ins[i]) = .ok (.row row) ∧
      r.getItem (.tup [.st ins[i], .none]) = .ok (.row row) ∧
      row.get? outs[j] = some (A.get i j) ∧
      r.getItem (.tup [.st ins[i], .st outs[j]]) = .ok (.val (A.get i j)) ∧
      r.array.get i j = A.get i j :=
  Res.sim_index_coherent t A hA ins outs r h i j hi hj hli hlj
example : Arr.WF (⟨1, 2, [[1, 2]]⟩ : Arr Nat) := ⟨rfl, by simp⟩

/-- ORDER: the result's keys are its inputs in order and every row lists the outputs in order -/
theorem indexing_order [Zero V] (t : RType) (A : Arr V) (hA : A.WF) (ins outs : List St) (r : SimResult V)
    (h : SimResult.new (some t) A ins outs = .ok r) (hni : ins.Nodup) (hno : outs.Nodup) :
    r.dict.keys = ins ∧ ∀ p ∈ r.dict, p.2.keys = outs :=
  Res.sim_key_order t A hA ins outs r h hni hno

/-- subscripts that are refused: unknown input → KeyError, non-State → TypeError, more than two
elements → ValueError, empty tuple → IndexError -/
theorem indexing_refusals [Zero V] (t : RType) (A : Arr V) (ins outs : List St) (r : SimResult V)
    (h : SimResult.new (some t) A ins outs = .ok r) (hl : ins.length = A.a.length) :
    (∀ s, s ∉ ins → r.getItem (.st s) = .error .other) ∧
    r.getItem .bad = .error .type ∧
    (∀ a b c l, r.getItem (.tup (a :: b :: c :: l)) = .error .value) ∧
    (∀ o, r.getItem (.tup [.bad, o]) = .error .type) ∧
    r.getItem (.tup []) = .error .other :=
  Res.sim_getitem_refusals t A ins outs r h hl

/-! ## The mapping loop (shared by both containers) -/

/-- IMAGE WITH SUMMED WEIGHTS: after the loop an image `g` holds the sum of the weights of all
outputs whose image is `g`; states that are no image are absent; the images appear in order of first
occurrence, each once -/
theorem mapping_is_image_with_summed_weights [AddCommMonoid V] (f : St → St) (row : PD V) :
    (∀ g, (accum f row).get? g =
      if row.any (fun p => decide (f p.1 = g)) then some (imageWeight f row g) else none) ∧
    (accum f row).keys = dedup (row.keys.map f) ∧ (accum f row).keys.Nodup :=
  ⟨get?_accum f row, keys_accum f row, nodup_keys_accum f row⟩
example : accum (thr false) ([(⟨[2, 0]⟩, 5), (⟨[1, 1]⟩, 3), (⟨[3, 0]⟩, 2)] : PD Nat)
    = [(⟨[1, 0]⟩, 7), (⟨[1, 1]⟩, 3)] := by decide

/-- CONSERVATION: the mapped row has the same total -/
theorem row_total_preserved [AddCommMonoid V] (f : St → St) (row : PD V) :
    (accum f row).vals.sum = row.vals.sum :=
  sum_vals_accum f row

/-- REPEATED APPLICATION: mapping by `f` and then by `f'` is mapping by `f' ∘ f` (order included) -/
theorem mapping_compose [AddCommMonoid V] (f f' : St → St) (row : PD V) :
    accum f' (accum f row) = accum (f' ∘ f) row :=
  accum_accum f f' row

/-- … in particular the plain mappings are idempotent and an inverted mapping applied twice is the
plain one; every image is a state over {0, 1} with the same number of modes -/
theorem mapping_idempotent :
    thr false ∘ thr false = thr false ∧ par false ∘ par false = par false ∧
    thr true ∘ thr true = thr false ∧ par true ∘ par true = par false :=
  ⟨thr_idem, par_idem, thr_inv_inv, par_inv_inv⟩
theorem mapping_image_binary (k : MapKind) (inv : Bool) (s : St) :
    (k.fn inv s).s.length = s.s.length ∧ ∀ x ∈ (k.fn inv s).s, x = 0 ∨ x = 1 :=
  image_binary k inv s
example : thr true ⟨[2, 0, -1]⟩ = ⟨[0, 1, 1]⟩ ∧ par false ⟨[3, 0, -1]⟩ = ⟨[1, 0, 1]⟩ := by decide

/-! ## Mapping a SimulationResult -/

/-- amplitudes are refused (ValueError) -/
theorem amplitudes_refused [AddCommMonoid V] (r : SimResult V) (f : St → St) (order : List St → List St)
    (h : r.rtype = .amplitude) : r.applyMapping f order = .error .value :=
  sim_mapping_refused r f order h

/-- for a probability-typed result the mapping is accepted, for every iteration order of the output
set, and the mapped result IS the result constructed from the same inputs, the collected images and
the array of summed weights -/
theorem sim_mapping_result [AddCommMonoid V] (A : Arr V) (hA : A.WF) (ins outs : List St) (r : SimResult V)
    (h : SimResult.new (some .probability) A ins outs = .ok r) (f : St → St) (order : List St → List St) :
    r.applyMapping f order =
      SimResult.new (some .probability)
        ⟨ins.length, (order (imagesOf (mapDict f r.dict))).length,
          ins.map fun i => (order (imagesOf (mapDict f r.dict))).map fun g => mappedWeight f r i g⟩
        ins (order (imagesOf (mapDict f r.dict))) :=
  sim_mapping_eq A hA ins outs r h f order
theorem sim_mapping_accepted [AddCommMonoid V] (A : Arr V) (hA : A.WF) (ins outs : List St) (r : SimResult V)
    (h : SimResult.new (some .probability) A ins outs = .ok r) (f : St → St) (order : List St → List St) :
    ∃ r', r.applyMapping f order = .ok r' ∧ r'.rtype = .probability ∧ r'.inputs = ins ∧
      r'.outputs = order (imagesOf (mapDict f r.dict)) :=
  sim_mapping_ok A hA ins outs r h f order

/-- the mapped result returns, by pair indexing and in its array, for input `ins[i]` and image
`uo[j]` the summed weight of that input's outputs whose image is `uo[j]` -/
theorem sim_mapping_values [AddCommMonoid V] (A : Arr V) (hA : A.WF) (ins outs : List St) (r : SimResult V)
    (h : SimResult.new (some .probability) A ins outs = .ok r) (f : St → St) (order : List St → List St)
    (hni : ins.Nodup) (hnu : (order (imagesOf (mapDict f r.dict))).Nodup) :
    ∃ r', r.applyMapping f order = .ok r' ∧
      ∀ i j (hi : i < ins.length) (hj : j < (order (imagesOf (mapDict f r.dict))).length),
        r'.getItem (.tup [.st ins[i], .st (order (imagesOf (mapDict f r.dict)))[j]]) =
          .ok (.val (mappedWeight f r ins[i] (order (imagesOf (mapDict f r.dict)))[j])) ∧
        r'.array.get i j = mappedWeight f r ins[i] (order (imagesOf (mapDict f r.dict)))[j] :=
  sim_mapping_index A hA ins outs r h f order hni hnu

/-- the outputs of the mapped result are exactly the images of the outputs, each once — whatever
order the set was iterated in -/
theorem sim_mapping_outputs_are_images [AddCommMonoid V] (A : Arr V) (hA : A.WF) (ins outs : List St)
    (r : SimResult V) (h : SimResult.new (some .probability) A ins outs = .ok r) (f : St → St) (uo : List St)
    (hperm : uo.Perm (imagesOf (mapDict f r.dict))) :
    uo.Nodup ∧ ∀ g, g ∈ uo ↔ (ins ≠ [] ∧ ∃ o ∈ outs, f o = g) :=
  sim_mapping_outputs A hA ins outs r h f uo hperm

/-- CONSERVATION per input: the mapped row of input `i` has the total of the original row -/
theorem sim_row_total_preserved [AddCommMonoid V] (f : St → St) (r : SimResult V) (i : St) (uo : List St)
    (hn : uo.Nodup) (hall : ∀ p ∈ (r.dict.get? i).getD [], f p.1 ∈ uo) :
    (uo.map fun g => mappedWeight f r i g).sum = ((r.dict.get? i).getD []).vals.sum :=
  sim_mapping_total f r i uo hn hall

/-- REPEATED APPLICATION per input: mapping the mapped row with `f'` gives the weights of the
original row under `f' ∘ f` -/
theorem sim_mapping_repeated [AddCommMonoid V] (f f' : St → St) (r : SimResult V) (i : St) (uo : List St)
    (hn : uo.Nodup) (hall : ∀ p ∈ (r.dict.get? i).getD [], f p.1 ∈ uo) (g' : St) :
    imageWeight f' (uo.map fun g => (g, mappedWeight f r i g)) g'
      = imageWeight (f' ∘ f) ((r.dict.get? i).getD []) g' :=
  sim_mapping_compose f f' r i uo hn hall g'

/-! ## SamplingResult -/

/-- the constructor refuses exactly a non-State input -/
theorem samp_new_ok_iff [AddCommMonoid V] (results : List (St × V)) (input : Option St) :
    (∃ r, SampResult.new results input = .ok r) ↔ input.isSome :=
  Res.samp_new_ok_iff results input

/-- ROUND TRIP: a sampling result returns exactly the counts it was built from, lists the outputs in
the dictionary's order, refuses unknown states (KeyError) and non-States (TypeError) -/
theorem sampling_result_roundtrip [AddCommMonoid V] (results : List (St × V))
    (hn : (results.map (·.1)).Nodup) (i : St) :
    ∃ r, SampResult.new results (some i) = .ok r ∧ r.input = i ∧ r.dict = results ∧
      r.outputs = results.map (·.1) ∧
      (∀ s v, (s, v) ∈ results → r.getItem (some s) = .ok v) ∧
      (∀ s, s ∉ results.map (·.1) → r.getItem (some s) = .error .other) ∧
      r.getItem none = .error .type :=
  samp_roundtrip results hn i
example : (([(⟨[2, 0]⟩, 5), (⟨[1, 1]⟩, 3)] : List (St × Nat)).map (·.1)).Nodup := by decide

/-- a mapping of a sampling result is never refused, keeps the input, lists the images in order of
first occurrence with the summed counts, and keeps the total count -/
theorem sampling_mapping [AddCommMonoid V] (r : SampResult V) (f : St → St) :
    ∃ r', r.applyMapping f = .ok r' ∧ r'.input = r.input ∧ r'.dict = accum f r.dict ∧
      r'.outputs = dedup (r.dict.keys.map f) ∧
      (∀ g, r'.getItem (some g) =
        if r.dict.any (fun p => decide (f p.1 = g)) then .ok (imageWeight f r.dict g) else .error .other) ∧
      r'.dict.vals.sum = r.dict.vals.sum :=
  samp_mapping r f

/-- repeated application of mappings to a sampling result composes exactly -/
theorem sampling_mapping_repeated [AddCommMonoid V] (r : SampResult V) (f f' : St → St) :
    (r.applyMapping f >>= fun r' => r'.applyMapping f') = r.applyMapping (f' ∘ f) :=
  samp_mapping_compose r f f'

end LW.C17
