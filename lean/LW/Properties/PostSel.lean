/-
  The `PostSelection` object (C05, C07: "the post-selection" every sampling method and the Analyzer
  apply) as a state machine — model LW.Model.PostSel, proofs LW/Proofs/PostSelInv.lean.

  For EVERY history of `add` calls (accepted or refused, single values or sequences, integral floats,
  negative and non-integral values) and assignments to `multi_rules`:
    * a refused `add` changes nothing (`refused_add_noop`), an accepted one appends exactly one rule
      and never touches earlier ones (`accepted_add_appends`);
    * the listing `modes` holds exactly the modes of the stored rules, each once
      (`modes_listing_invariant`);
    * while `multi_rules` is never switched on, no mode carries two rules (`one_rule_per_mode`);
    * `validate` is the conjunction of the rules in the sense of `psValidate` — the predicate the
      Analyzer / QuickSampler / Sampler theorems of C05 and C07 are stated with — whenever the rules'
      modes exist in the state (`validate_is_conjunction`), for rules sharing modes as much as for
      disjoint ones; and adding rules can only shrink the accepted set (`validate_antitone`).
-/
import LW.Proofs.PostSelInv
import LW.Proofs.C07

namespace LW.PostSelProps

open LW.PostSel

theorem refused_add_noop (p : PS) (m n : PArg) (e : PostSel.Err) (h : p.add m n = .error e) :
    p.step (.add m n) = p := by
  simp [PS.step, h]

theorem accepted_add_appends (p q : PS) (m n : PArg) (h : p.add m n = .ok q) :
    ∃ r : Rule, q.rules = p.rules ++ [r] ∧ q.multi = p.multi :=
  let ⟨r, h1, h2, _⟩ := add_ok h
  ⟨r, h1, h2⟩

/-- after any history from a fresh object, `__modes_with_rules` is duplicate-free and is exactly the
set of modes of the stored rules -/
theorem modes_listing_invariant (multi : Bool) (ops : List Op) :
    ((PS.new multi).run ops).modesWith.Nodup ∧
      ∀ x, x ∈ ((PS.new multi).run ops).modesWith ↔ ∃ r ∈ ((PS.new multi).run ops).rules, x ∈ r.modes :=
  inv_run _ (inv_new multi) ops

/-- a fresh `PostSelection()` on which `multi_rules` is never set to True holds at most one rule per
mode, whatever was attempted -/
theorem one_rule_per_mode (ops : List Op) (hops : ∀ op ∈ ops, noMultiOn op) :
    ((PS.new false).run ops).rules.Pairwise fun r1 r2 => ∀ x ∈ r1.modes, x ∉ r2.modes :=
  disjoint_run _ (inv_new false) rfl List.Pairwise.nil ops hops

/-- `validate` = conjunction of the rules (the `psValidate` of the C05 / C07 theorems) -/
theorem validate_is_conjunction (p : PS) (s : FState)
    (hr : ∀ r ∈ p.rules, ∀ m ∈ r.modes, m < s.length) :
    p.validate s = .ok (psValidate p.rules s) :=
  validateRules_eq p.rules s hr

/-- a state accepted after further rules were added was accepted before -/
theorem validate_antitone (p q : PS) (m n : PArg) (h : p.add m n = .ok q) (s : FState)
    (hv : q.validate s = .ok true) : p.validate s = .ok true := by
  obtain ⟨r, hr, _⟩ := add_ok h
  unfold PS.validate at hv ⊢
  rw [hr] at hv
  exact validateRules_append_true _ _ s hv

/-- non-vacuity: with `multi_rules` two rules may share mode 1, and a one-photon state in the shared
mode satisfies both (`(0,1) → 1`, `(1,2) → 1`) although it holds fewer photons than the rules' minima
add up to -/
example :
    (do let p ← (PS.new true).add (.many [.int 0, .int 1]) (.one (.int 1))
        let q ← p.add (.many [.int 1, .int 2]) (.one (.int 1))
        q.validate [0, 1, 0]) = .ok true := by decide

example : ((PS.new false).add (.many [.int 0, .int 1]) (.one (.int 1))).toOption.isSome = true ∧
    (do let p ← (PS.new false).add (.many [.int 0, .int 1]) (.one (.int 1))
        p.add (.one (.int 1)) (.one (.int 0))).toOption.isSome = false := by decide

/-- the acceptance test of the sampling loops (C07 `acceptState_spec`) stated with the OBJECT the user
holds: a detected state is returned iff it meets the heralds, and its herald-free form is accepted by
the PostSelection object's `validate` (whatever history of `add` calls built it, rules sharing modes
included) and holds at least `min_detection` photons -/
theorem acceptState_with_object (p : PS) (outHer : Dict) (minDet : Nat) (s hs : FState)
    (hr : ∀ r ∈ p.rules, ∀ m ∈ r.modes, m < (removeHeralds s outHer.keys).length) :
    acceptState outHer p.rules minDet s = some hs ↔
      heraldsOk outHer s = true ∧ hs = removeHeralds s outHer.keys ∧
      p.validate hs = .ok true ∧ minDet ≤ photons hs := by
  rw [Proofs.C07.acceptState_spec]
  constructor
  · rintro ⟨h1, h2, h3, h4⟩
    refine ⟨h1, h2, ?_, h4⟩
    rw [validate_is_conjunction p hs (by rw [h2]; exact hr), h3]
  · rintro ⟨h1, h2, h3, h4⟩
    refine ⟨h1, h2, ?_, h4⟩
    rw [validate_is_conjunction p hs (by rw [h2]; exact hr)] at h3
    exact Except.ok.inj h3

end LW.PostSelProps
