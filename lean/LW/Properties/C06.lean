/-
  C06 — imperfect-source model: normalised mixture of distinguishable photon groups.
  Model: LW.Model.Source (on top of LW.Model.Dist / Fock / StateVal).

  Parameters of the model (`Params`): `nu` = brightness, `p2` = two-photon weight x
  (`1 - purity_to_prob(purity)`, `2x/(1+x)² = 1 - purity`), `pi` = √indistinguishability,
  `thr` = probability_threshold.  `mix d F = Σ_{(k,w)∈d} w·F k` is the mixture of an arbitrary
  observable `F` over a weighted dictionary.
-/
import LW.Proofs.C06Example
import LW.Proofs.C04bExample
import LW.Proofs.C06FullMain

namespace LW.C06

open LW.Src LW.SV LW.Proofs.C06

/-! ## the single-photon outcome table -/

/-- the six outcome probabilities of one photon sum to one (any parameters) -/
theorem table_sums_to_one {Q : Type} [CommRing Q] (P : Params Q) :
    c0 P + c1 P + c1d P + c1dp P + c12d P + c1d2d P = 1 :=
  Proofs.C06.table_sums_to_one P

example : c0 (⟨1/2, 1/3, 3/5, 0⟩ : Params ℚ) + c1 ⟨1/2, 1/3, 3/5, 0⟩ + c1d ⟨1/2, 1/3, 3/5, 0⟩ +
    c1dp ⟨1/2, 1/3, 3/5, 0⟩ + c12d ⟨1/2, 1/3, 3/5, 0⟩ + c1d2d ⟨1/2, 1/3, 3/5, 0⟩ = 1 :=
  table_sums_to_one _

/-- every outcome probability is non-negative on the documented ranges
(brightness, two-photon weight, √indistinguishability in [0,1]) -/
theorem table_nonneg {Q : Type} [Field Q] [LinearOrder Q] [IsStrictOrderedRing Q] (P : Params Q)
    (hν0 : 0 ≤ P.nu) (hν1 : P.nu ≤ 1) (hx0 : 0 ≤ P.p2) (hx1 : P.p2 ≤ 1) (hq0 : 0 ≤ P.pi)
    (hq1 : P.pi ≤ 1) :
    0 ≤ c0 P ∧ 0 ≤ c1 P ∧ 0 ≤ c1d P ∧ 0 ≤ c1dp P ∧ 0 ≤ c12d P ∧ 0 ≤ c1d2d P :=
  Proofs.C06.table_nonneg P hν0 hν1 hx0 hx1 hq0 hq1

example : 0 ≤ c1dp (⟨1/2, 1/3, 3/5, 0⟩ : Params ℚ) :=
  (table_nonneg _ (by norm_num) (by norm_num) (by norm_num) (by norm_num) (by norm_num)
    (by norm_num)).2.2.2.1

/-- for purity in (1/2, 1) the two-photon weight computed by `purity_to_prob` (real square root)
lies in (0,1) and satisfies `2x = (1 - purity)(1+x)²` -/
theorem twoPhotonWeight_spec (purity : ℝ) (h0 : 1 / 2 < purity) (h1 : purity < 1) :
    0 < twoPhotonWeight purity ∧ twoPhotonWeight purity < 1 ∧
      2 * twoPhotonWeight purity =
        (1 - purity) * ((1 + twoPhotonWeight purity) * (1 + twoPhotonWeight purity)) :=
  Proofs.C06.twoPhotonWeight_spec purity h0 h1

example : 0 < twoPhotonWeight (9 / 10) := (twoPhotonWeight_spec (9 / 10) (by norm_num) (by norm_num)).1

/-- g2 = 1 − PURITY: the photon-number statistics of one emitter (P(1) = c1+c1d+c1dp,
P(2) = c12d+c1d2d) have `⟨n(n−1)⟩/⟨n⟩² = 1 − purity` for every brightness ≠ 0 and every
indistinguishability, with the two-photon weight obtained from the purity as the code does -/
theorem g2_eq_one_sub_purity (purity nu q thr : ℝ) (h0 : 1 / 2 < purity) (h1 : purity ≤ 1)
    (hν : nu ≠ 0) : g2 (⟨nu, twoPhotonWeight purity, q, thr⟩ : Params ℝ) = 1 - purity :=
  Proofs.C06.g2_eq_one_sub_purity purity nu q thr h0 h1 hν

example : g2 (⟨1 / 2, twoPhotonWeight (9 / 10), 3 / 5, 0⟩ : Params ℝ) = 1 - 9 / 10 :=
  g2_eq_one_sub_purity _ _ _ _ (by norm_num) (by norm_num) (by norm_num)

/-! ## input statistics -/

section Stats
variable {Q : Type} [Field Q] [LinearOrder Q] [IsStrictOrderedRing Q]

/-- `group_empty_modes` returns exactly the maximal runs of at least two empty modes (`ts` = their
non-initial modes), which is what lets `_full_distribution` treat a run as one block -/
theorem groupEmptyModes_valid (s : FState) :
    ValidGrouping s (groupEmptyModes s).1 (groupEmptyModes s).2 :=
  Proofs.C06.groupEmptyModes_valid s

example : ValidGrouping [1, 0, 0, 0, 2, 0] (groupEmptyModes [1, 0, 0, 0, 2, 0]).1
    (groupEmptyModes [1, 0, 0, 0, 2, 0]).2 := groupEmptyModes_valid _

/-- MIXTURE OVER INDEPENDENT PER-PHOTON EMISSION OUTCOMES: for every observable `F` of annotated
states, `_full_distribution` (empty-mode grouping, per-mode merging of equal label lists, the
`p > 0` filter, the dictionary assignment `new_dist[s1 + s2] = p1 * p2`) gives the same mixture as
the specification `specFull`, which pairs — mode by mode, photon by photon, with fresh labels from
the running counter — all six outcomes of every photon, weights multiplied -/
theorem mix_fullDistribution (P : Params Q) (h : InRange P) (s : FState) (hs : s ≠ [])
    (F : AState → Q) : mix (fullDistribution P s) F = mix (specFull P s).1 F :=
  Proofs.C06.mix_fullDistribution P h s hs F

/-- … and its keys are distinct well-formed states on the state's modes, so no assignment ever
overwrites an entry -/
theorem fullDistribution_keys (P : Params Q) (h : InRange P) (s : FState) :
    ((fullDistribution P s).map (·.1)).Nodup ∧
      ∀ a ∈ (fullDistribution P s).map (·.1), a.WF ∧ a.nModes = s.length :=
  Proofs.C06.fullDistribution_keys P h s

/-- label canonicalisation evaluates every observable on the canonical form of each state and
merges equal canonical states without changing any mixture -/
theorem mix_buildStatisticsFull (P : Params Q) (h : InRange P) (s : FState) (hs : s ≠ [])
    (F : AState → Q) :
    mix (buildStatisticsFull P s) F = mix (specFull P s).1 (fun a => F (remapState a)) :=
  Proofs.C06.mix_buildStatisticsFull P h s hs F

/-- INPUT STATISTICS ARE NORMALISED: whatever `_build_statistics` returns sums to one (annotated
and brightness-only path, with or without probability threshold) -/
theorem input_stats_normalised (P : Params Q) (h : InRange P) (s : FState) (hs : s ≠ [])
    (st : Stats Q) (hok : buildStatistics P s = .ok st) : st.total = 1 :=
  Proofs.C06.input_stats_normalised P h s hs st hok

/-- without a threshold every state is accepted (the hypothesis `hok` above is satisfiable) -/
theorem buildStatistics_ok (P : Params Q) (h : InRange P) (hthr : ¬ 0 < P.thr) (s : FState)
    (hs : s ≠ []) : ∃ st, buildStatistics P s = .ok st :=
  Proofs.C06.buildStatistics_ok P h hthr s hs

end Stats

example : ∃ st, buildStatistics (⟨1/2, 1/3, 3/5, 0⟩ : Params ℚ) [2, 0, 0, 1] = .ok st ∧ st.total = 1 := by
  obtain ⟨st, hst⟩ := buildStatistics_ok _ inRange_ex (by norm_num) [2, 0, 0, 1] (by simp)
  exact ⟨st, hst, input_stats_normalised _ inRange_ex _ (by simp) st hst⟩

example (F : AState → ℚ) : mix (fullDistribution (⟨1/2, 1/3, 3/5, 0⟩ : Params ℚ) [2, 0, 0, 1]) F =
    mix (specFull (⟨1/2, 1/3, 3/5, 0⟩ : Params ℚ) [2, 0, 0, 1]).1 F :=
  mix_fullDistribution _ inRange_ex _ (by simp) F

example : ((fullDistribution (⟨1/2, 1/3, 3/5, 0⟩ : Params ℚ) [2, 0, 0, 1]).map (·.1)).Nodup :=
  (fullDistribution_keys _ inRange_ex _).1

example (F : AState → ℚ) : mix (buildStatisticsFull (⟨1/2, 1/3, 3/5, 0⟩ : Params ℚ) [2, 0, 0, 1]) F =
    mix (specFull (⟨1/2, 1/3, 3/5, 0⟩ : Params ℚ) [2, 0, 0, 1]).1 (fun a => F (remapState a)) :=
  mix_buildStatisticsFull _ inRange_ex _ (by simp) F

/-! ## output distribution -/

section Out
variable {K Q : Type}

/-- OUTPUT = MIXTURE OF THE MERGED OUTPUTS OF INDEPENDENT GROUPS: for every observable `F` of output
patterns, `annotated_state_pdist_calc` gives the mixture over the source inputs of the
distribution of the merged (mode-wise added) outputs of the per-label groups, each group evolving
by its own boson-sampling distribution `fullDist` (C04) -/
theorem mix_annotatedPdist [CommRing K] [Field Q] [LinearOrder Q] [IsStrictOrderedRing Q]
    (b : BackendKind) (nsq : K → Q) (eps : Q) (U : M K) (nReal : Nat) (inputs : KD AState Q)
    (hne : ∀ x ∈ inputs, ∀ g ∈ groupsOf nReal x.1, fullDist b nsq eps U nReal g ≠ [])
    (F : FState → Q) :
    mix (annotatedPdist b nsq eps U nReal inputs) F =
      mix inputs (fun a => mixGroups ((groupsOf nReal a).map (fullDist b nsq eps U nReal)) F) :=
  Proofs.C06.mix_annotatedPdist b nsq eps U nReal inputs hne F

/-- OUTPUT DISTRIBUTION IS NORMALISED: unitary `U_full`, no backend truncation ⇒ the Sampler's
distribution with an imperfect source sums to exactly one (both backends, both statistics paths,
any accepted probability threshold) -/
theorem output_normalised [Field K] [StarRing K] [CharZero K] [Field Q] [LinearOrder Q]
    [IsStrictOrderedRing Q] (nsq : K → Q) (ι : Q →+* K) (hι : Function.Injective ι)
    (hnsq : ∀ z, ι (nsq z) = z * star z) (hn : ∀ z, 0 ≤ nsq z)
    (b : BackendKind) (U : M K) (hU : IsUnitary U) (nReal : Nat) (hle : nReal ≤ U.n)
    (hpos : 0 < nReal) (P : Params Q) (h : InRange P) (full : FState) (hlen : full.length = nReal)
    (pd : PDist Q) (hok : samplerDistSrc b nsq 0 U nReal P full = .ok pd) : pd.total = 1 :=
  Proofs.C06.output_normalised nsq ι hι hnsq hn b U hU nReal hle hpos P h full hlen pd hok

/-- PERFECT SETTINGS REDUCE TO THE IDEAL SOURCE: brightness = purity = indistinguishability = 1 and
no threshold give the statistics `{state: 1}`, hence the ideal-source distribution of C04 -/
theorem perfect_reduces_to_ideal [Add K] [Mul K] [Zero K] [One K] [Field Q] [LinearOrder Q]
    [IsStrictOrderedRing Q] (b : BackendKind) (nsq : K → Q) (eps : Q) (U : M K) (nReal : Nat)
    (P : Params Q) (hν : P.nu = 1) (hx : P.p2 = 0) (hq : P.pi = 1) (hthr : ¬ 0 < P.thr)
    (full : FState) :
    samplerDistSrc b nsq eps U nReal P full =
      .ok (let pd := pdistCalc b nsq eps U nReal [(full, 1)]
           if pd.isEmpty then [(List.replicate nReal 0, 1)] else pd) :=
  Proofs.C06.perfect_reduces_to_ideal b nsq eps U nReal P hν hx hq hthr full

end Out

/-! ## label canonicalisation, the main statement, Hong–Ou–Mandel -/

section Mixture
variable {K Q : Type} [CommRing K] [Field Q] [LinearOrder Q] [IsStrictOrderedRing Q]

/-- the photon groups of the canonical (relabelled) state are a permutation of the original groups -/
theorem groupsOf_remap_perm (n : Nat) (a : AState) :
    (groupsOf n (remapState a)).Perm (groupsOf n a) :=
  Proofs.C06.groupsOf_remap_perm n a

example : (groupsOf 2 (remapState (AState.new [[7], [0, 7]]))).Perm (groupsOf 2 (AState.new [[7], [0, 7]])) :=
  groupsOf_remap_perm 2 _

/-- the distribution of the merged output of independent groups does not depend on their order -/
theorem mixGroups_perm {ds ds' : List (PDist Q)} (hp : ds.Perm ds') (F : FState → Q) :
    mixGroups ds F = mixGroups ds' F :=
  Proofs.C06.mixGroups_perm hp F

/-- REMAP PRESERVES THE MIXTURE: `_remap_distribution` (label canonicalisation + merging of equal
canonical states) does not change the output distribution computed from the statistics -/
theorem remap_preserves_mixture (b : BackendKind) (nsq : K → Q) (eps : Q) (U : M K) (nReal : Nat)
    (d : KD AState Q) (hne : ∀ g : FState, g.length = nReal → fullDist b nsq eps U nReal g ≠ [])
    (F : FState → Q) :
    mix (annotatedPdist b nsq eps U nReal (remapDistribution d)) F =
      mix (annotatedPdist b nsq eps U nReal d) F :=
  Proofs.C06.remap_preserves_mixture b nsq eps U nReal d hne F

/-- THE PROPERTY'S MAIN STATEMENT: the sampler's distribution (annotated path) equals the mixture
over independent per-photon emission outcomes (`specFull`: six outcomes per photon with the
documented probabilities, fresh labels for distinguishable and noise photons) of the product
(merged outputs) of the independent boson-sampling distributions of the mutually distinguishable
photon groups — for every observable `F` of output patterns -/
theorem output_mixture (b : BackendKind) (nsq : K → Q) (eps : Q) (U : M K) (nReal : Nat)
    (P : Params Q) (h : InRange P) (s : FState) (hs : s ≠ [])
    (hne : ∀ g : FState, g.length = nReal → fullDist b nsq eps U nReal g ≠ []) (F : FState → Q) :
    mix (annotatedPdist b nsq eps U nReal (buildStatisticsFull P s)) F =
      mix (specFull P s).1
        (fun a => mixGroups ((groupsOf nReal a).map (fullDist b nsq eps U nReal)) F) :=
  Proofs.C06.output_mixture b nsq eps U nReal P h s hs hne F

/-- coincidences of two photons from a pure source: `⟨F⟩ = ν² (q² T_ind + (1 − q²) T_dis)` for an
observable vanishing on outputs of fewer than two photons -/
theorem hom_coincidence (b : BackendKind) (nsq : K → Q) (eps : Q) (U : M K) (P : Params Q)
    (h : InRange P) (hx : P.p2 = 0)
    (hne : ∀ g : FState, g.length = 2 → fullDist b nsq eps U 2 g ≠ []) (F : FState → Q)
    (h00 : mix (fullDist b nsq eps U 2 [0, 0]) F = 0)
    (h10 : mix (fullDist b nsq eps U 2 [1, 0]) F = 0)
    (h01 : mix (fullDist b nsq eps U 2 [0, 1]) F = 0) :
    mix (annotatedPdist b nsq eps U 2 (buildStatisticsFull P [1, 1])) F =
      P.nu * P.nu * (P.pi * P.pi * mix (fullDist b nsq eps U 2 [1, 1]) F +
        (1 - P.pi * P.pi) *
          mixGroups [fullDist b nsq eps U 2 [1, 0], fullDist b nsq eps U 2 [0, 1]] F) :=
  Proofs.C06.hom_coincidence b nsq eps U P h hx hne F h00 h10 h01

/-- HONG–OU–MANDEL VISIBILITY = INDISTINGUISHABILITY (purity 1, brightness ≠ 0): on a circuit where
an indistinguishable pair never gives the observed coincidence and distinguishable photons do, the
visibility `1 − C(q)/C(0)` of the coincidence dip equals `q²`, the indistinguishability -/
theorem hom_visibility_eq_indist (b : BackendKind) (nsq : K → Q) (eps : Q) (U : M K) (P : Params Q)
    (h : InRange P) (hx : P.p2 = 0) (hν : P.nu ≠ 0)
    (hne : ∀ g : FState, g.length = 2 → fullDist b nsq eps U 2 g ≠ []) (F : FState → Q)
    (h00 : mix (fullDist b nsq eps U 2 [0, 0]) F = 0)
    (h10 : mix (fullDist b nsq eps U 2 [1, 0]) F = 0)
    (h01 : mix (fullDist b nsq eps U 2 [0, 1]) F = 0)
    (hind : mix (fullDist b nsq eps U 2 [1, 1]) F = 0)
    (hdis : mixGroups [fullDist b nsq eps U 2 [1, 0], fullDist b nsq eps U 2 [0, 1]] F ≠ 0) :
    1 - mix (annotatedPdist b nsq eps U 2 (buildStatisticsFull P [1, 1])) F /
        mix (annotatedPdist b nsq eps U 2 (buildStatisticsFull { P with pi := 0 } [1, 1])) F =
      P.pi * P.pi :=
  Proofs.C06.hom_visibility_eq_indist b nsq eps U P h hx hν hne F h00 h10 h01 hind hdis

end Mixture

/-- the balanced beam splitter (unnormalised Hadamard over ℤ, every pattern kept): brightness 1/2,
√indistinguishability 3/5 ⇒ visibility 9/25 -/
example : 1 - mix (annotatedPdist .permanent nsqInt (-1) hadamard 2
      (buildStatisticsFull (⟨1/2, 0, 3/5, 0⟩ : Params ℚ) [1, 1])) coincidence /
    mix (annotatedPdist .permanent nsqInt (-1) hadamard 2
      (buildStatisticsFull (⟨1/2, 0, 0, 0⟩ : Params ℚ) [1, 1])) coincidence = 9 / 25 := by
  have := hom_visibility_eq_indist .permanent nsqInt (-1) hadamard (⟨1/2, 0, 3/5, 0⟩ : Params ℚ)
    inRange_pure rfl (by norm_num) hadamard_ne_nil coincidence hadamard_00 hadamard_10 hadamard_01
    hadamard_11 hadamard_dis
  rw [this]; norm_num

example (F : FState → ℚ) : mix (annotatedPdist .permanent nsqInt (-1) hadamard 2
      (buildStatisticsFull (⟨1/2, 1/3, 3/5, 0⟩ : Params ℚ) [1, 1])) F =
    mix (specFull (⟨1/2, 1/3, 3/5, 0⟩ : Params ℚ) [1, 1]).1
      (fun a => mixGroups ((groupsOf 2 a).map (fullDist .permanent nsqInt (-1) hadamard 2)) F) :=
  output_mixture .permanent nsqInt (-1) hadamard 2 _ inRange_ex [1, 1] (by simp) hadamard_ne_nil F

/-- two inputs: a distinguishable and an indistinguishable photon pair -/
example (F : FState → ℚ) : mix (annotatedPdist .permanent nsqInt (-1) hadamard 2
      [(AState.new [[0], [3]], 1/2), (AState.new [[0], [0]], 1/2)]) F =
    mix [(AState.new [[0], [3]], (1/2 : ℚ)), (AState.new [[0], [0]], 1/2)]
      (fun a => mixGroups ((groupsOf 2 a).map (fullDist .permanent nsqInt (-1) hadamard 2)) F) :=
  mix_annotatedPdist .permanent nsqInt (-1) hadamard 2 _
    (fun x _ g hg => hadamard_ne_nil g (groupsOf_len 2 x.1 g hg)) F

example (F : FState → ℚ) :
    mixGroups [fullDist .permanent nsqInt (-1) hadamard 2 [1, 0], fullDist .permanent nsqInt (-1) hadamard 2 [0, 1]] F =
    mixGroups [fullDist .permanent nsqInt (-1) hadamard 2 [0, 1], fullDist .permanent nsqInt (-1) hadamard 2 [1, 0]] F :=
  mixGroups_perm (List.Perm.swap _ _ _) F

example (F : FState → ℚ) : mix (annotatedPdist .permanent nsqInt (-1) hadamard 2
      (remapDistribution (fullDistribution (⟨1/2, 1/3, 3/5, 0⟩ : Params ℚ) [1, 1]))) F =
    mix (annotatedPdist .permanent nsqInt (-1) hadamard 2
      (fullDistribution (⟨1/2, 1/3, 3/5, 0⟩ : Params ℚ) [1, 1])) F :=
  remap_preserves_mixture .permanent nsqInt (-1) hadamard 2 _ hadamard_ne_nil F

example : mix (annotatedPdist .permanent nsqInt (-1) hadamard 2
      (buildStatisticsFull (⟨1/2, 0, 3/5, 0⟩ : Params ℚ) [1, 1])) coincidence =
    1/2 * (1/2) * (3/5 * (3/5) * mix (fullDist .permanent nsqInt (-1) hadamard 2 [1, 1]) coincidence +
      (1 - 3/5 * (3/5)) * mixGroups [fullDist .permanent nsqInt (-1) hadamard 2 [1, 0],
        fullDist .permanent nsqInt (-1) hadamard 2 [0, 1]] coincidence) :=
  hom_coincidence .permanent nsqInt (-1) hadamard _ inRange_pure rfl hadamard_ne_nil coincidence
    hadamard_00 hadamard_10 hadamard_01

/-! ## two photons in closed form; classical limit; brightness-only path -/

section TwoPhotons
variable {K Q : Type} [CommRing K] [Field Q] [LinearOrder Q] [IsStrictOrderedRing Q]

/-- two photons (one per mode) from a pure source: `⟨F⟩ = (1-ν)² V00 + (1-ν)ν (V10 + V01) +
ν² (q² V11 + (1-q²) T_dis)` -/
theorem two_photon_pure (b : BackendKind) (nsq : K → Q) (eps : Q) (U : M K) (P : Params Q)
    (h : InRange P) (hx : P.p2 = 0)
    (hne : ∀ g : FState, g.length = 2 → fullDist b nsq eps U 2 g ≠ []) (F : FState → Q) :
    mix (annotatedPdist b nsq eps U 2 (buildStatisticsFull P [1, 1])) F =
      (1 - P.nu) * (1 - P.nu) * mix (fullDist b nsq eps U 2 [0, 0]) F +
      (1 - P.nu) * P.nu * (mix (fullDist b nsq eps U 2 [1, 0]) F + mix (fullDist b nsq eps U 2 [0, 1]) F) +
      P.nu * P.nu * (P.pi * P.pi * mix (fullDist b nsq eps U 2 [1, 1]) F +
        (1 - P.pi * P.pi) *
          mixGroups [fullDist b nsq eps U 2 [1, 0], fullDist b nsq eps U 2 [0, 1]] F) :=
  Proofs.C06.two_photon_pure b nsq eps U P h hx hne F

/-- ZERO INDISTINGUISHABILITY GIVES CLASSICAL PARTICLES — full statement (any input state): the
output is that of independent particles, each emitted with probability ν and moving by its own
single-photon distribution (`classicalMix`).  Proved below for one photon in each of two modes;
the general case needs the evaluation of `groupsOf` on states with pairwise distinct labels for
arbitrary inputs, which is not done. -/
def zero_indist_classical_statement : Prop := Proofs.C06.zero_indist_classical_statement

/-- … the full statement, proved for every input state (LW/Proofs/C06FullMain.lean): both sides are
the emission mixture over the photons of `partitionIdx s`; a state whose labels are pairwise
distinct has one single-photon group per photon (`groupsP_distinct`) -/
theorem zero_indist_classical : zero_indist_classical_statement :=
  Proofs.C06.zero_indist_classical

theorem zero_indist_classical_partial (b : BackendKind) (nsq : K → Q) (eps : Q) (U : M K)
    (P : Params Q) (h : InRange P) (hx : P.p2 = 0) (hq : P.pi = 0)
    (hne : ∀ g : FState, g.length = 2 → fullDist b nsq eps U 2 g ≠ []) (F : FState → Q) :
    mix (annotatedPdist b nsq eps U 2 (buildStatisticsFull P [1, 1])) F =
      classicalMix (fullDist b nsq eps U 2) 2 P.nu (partitionIdx [1, 1]) none F :=
  Proofs.C06.zero_indist_classical_partial b nsq eps U P h hx hq hne F

/-- `pdist_calc` (State variant) before its vacuum bookkeeping, as a mixture over the inputs -/
theorem mix_calcPd (b : BackendKind) (nsq : K → Q) (eps : Q) (U : M K) (nReal : Nat)
    (inputs : List (FState × Q)) (F : FState → Q) :
    mix (Proofs.C04a.calcPd b nsq eps U nReal inputs) F =
      mix inputs (fun s => mix (fullDist b nsq eps U nReal s) F) :=
  Proofs.C06.mix_calcPd b nsq eps U nReal inputs F

/-- BRIGHTNESS-ONLY PATH = ANNOTATED PATH AT PURITY = INDISTINGUISHABILITY = 1 — full statement (any
input state).  Proved below for one photon in each of two modes; the general case needs the
alignment of the two enumeration orders (per mode / per photon) for arbitrary inputs. -/
def basic_path_eq_full_path_statement : Prop := Proofs.C06.basic_path_eq_full_path_statement

/-- … the full statement, proved for every input state (LW/Proofs/C06FullMain.lean): the
brightness-only statistics are the emission mixture of the occupation vectors
(`mix_buildStatisticsBasic`), and a state whose labels are all `0` is a single group -/
theorem basic_path_eq_full_path : basic_path_eq_full_path_statement :=
  Proofs.C06.basic_path_eq_full_path

theorem basic_path_eq_full_path_partial (b : BackendKind) (nsq : K → Q) (eps : Q) (U : M K)
    (P : Params Q) (h : InRange P) (hx : P.p2 = 0) (hq : P.pi = 1)
    (hne : ∀ g : FState, g.length = 2 → fullDist b nsq eps U 2 g ≠ []) (F : FState → Q) :
    mix (annotatedPdist b nsq eps U 2 (buildStatisticsFull P [1, 1])) F =
      mix (Proofs.C04a.calcPd b nsq eps U 2 (buildStatisticsBasic P [1, 1])) F :=
  Proofs.C06.basic_path_eq_full_path_partial b nsq eps U P h hx hq hne F

end TwoPhotons

example (F : FState → ℚ) : mix (annotatedPdist .permanent nsqInt (-1) hadamard 2
      (buildStatisticsFull (⟨1/2, 0, 3/5, 0⟩ : Params ℚ) [1, 1])) F =
      (1 - 1/2) * (1 - 1/2) * mix (fullDist .permanent nsqInt (-1) hadamard 2 [0, 0]) F +
      (1 - 1/2) * (1/2) * (mix (fullDist .permanent nsqInt (-1) hadamard 2 [1, 0]) F +
        mix (fullDist .permanent nsqInt (-1) hadamard 2 [0, 1]) F) +
      1/2 * (1/2) * (3/5 * (3/5) * mix (fullDist .permanent nsqInt (-1) hadamard 2 [1, 1]) F +
        (1 - 3/5 * (3/5)) * mixGroups [fullDist .permanent nsqInt (-1) hadamard 2 [1, 0],
          fullDist .permanent nsqInt (-1) hadamard 2 [0, 1]] F) :=
  two_photon_pure .permanent nsqInt (-1) hadamard _ inRange_pure rfl hadamard_ne_nil F

example (F : FState → ℚ) : mix (annotatedPdist .permanent nsqInt (-1) hadamard 2
      (buildStatisticsFull (⟨1/2, 0, 0, 0⟩ : Params ℚ) [1, 1])) F =
    classicalMix (fullDist .permanent nsqInt (-1) hadamard 2) 2 (1/2) (partitionIdx [1, 1]) none F :=
  zero_indist_classical_partial .permanent nsqInt (-1) hadamard _ inRange_q0 rfl rfl hadamard_ne_nil F

example (F : FState → ℚ) : mix (annotatedPdist .permanent nsqInt (-1) hadamard 2
      (buildStatisticsFull (⟨1/2, 0, 1, 0⟩ : Params ℚ) [1, 1])) F =
    mix (Proofs.C04a.calcPd .permanent nsqInt (-1) hadamard 2
      (buildStatisticsBasic (⟨1/2, 0, 1, 0⟩ : Params ℚ) [1, 1])) F :=
  basic_path_eq_full_path_partial .permanent nsqInt (-1) hadamard _ inRange_q1 rfl rfl hadamard_ne_nil F

/-- the full statements on an input with a doubly occupied mode -/
example (F : FState → ℚ) : mix (annotatedPdist .permanent nsqInt (-1) hadamard 2
      (buildStatisticsFull (⟨1/2, 0, 0, 0⟩ : Params ℚ) [2, 1])) F =
    classicalMix (fullDist .permanent nsqInt (-1) hadamard 2) 2 (1/2) (partitionIdx [2, 1]) none F :=
  zero_indist_classical ℤ ℚ .permanent nsqInt (-1) hadamard 2 _ inRange_q0 rfl rfl [2, 1] rfl
    (by simp) hadamard_ne_nil F

example (F : FState → ℚ) : mix (annotatedPdist .permanent nsqInt (-1) hadamard 2
      (buildStatisticsFull (⟨1/2, 0, 1, 0⟩ : Params ℚ) [2, 1])) F =
    mix (Proofs.C04a.calcPd .permanent nsqInt (-1) hadamard 2
      (buildStatisticsBasic (⟨1/2, 0, 1, 0⟩ : Params ℚ) [2, 1])) F :=
  basic_path_eq_full_path ℤ ℚ .permanent nsqInt (-1) hadamard 2 _ inRange_q1 rfl rfl [2, 1] rfl
    (by simp) hadamard_ne_nil F

example (F : FState → ℚ) : mix (Proofs.C04a.calcPd .permanent nsqInt (-1) hadamard 2 [([1, 1], 1/2), ([0, 0], 1/2)]) F =
    mix [(([1, 1] : FState), (1/2 : ℚ)), ([0, 0], 1/2)]
      (fun s => mix (fullDist .permanent nsqInt (-1) hadamard 2 s) F) :=
  mix_calcPd .permanent nsqInt (-1) hadamard 2 _ F

section Examples
open LW.Proofs.FockIso (rot rot_unitary)

/-- a unitary 2-mode circuit over ℂ, photons in both modes, imperfect in all three parameters -/
example : ∃ pd, samplerDistSrc .slos Complex.normSq 0 rot 2 (⟨1/2, 1/3, 3/5, 0⟩ : Params ℝ) [1, 1] = .ok pd ∧
    pd.total = 1 := by
  obtain ⟨pd, hpd⟩ := samplerDistSrc_ok .slos Complex.normSq 0 rot 2 _ inRange_exR (by norm_num)
    [1, 1] (by simp)
  exact ⟨pd, hpd, output_normalised Complex.normSq Complex.ofRealHom Complex.ofReal_injective
    (fun z => (Complex.mul_conj z).symm) Complex.normSq_nonneg .slos rot rot_unitary 2 (by decide)
    (by decide) _ inRange_exR [1, 1] rfl pd hpd⟩

example : samplerDistSrc .permanent Complex.normSq 0 rot 2 (⟨1, 0, 1, 0⟩ : Params ℝ) [1, 1] =
    .ok (let pd := pdistCalc .permanent Complex.normSq 0 rot 2 [([1, 1], 1)]
         if pd.isEmpty then [([0, 0], 1)] else pd) :=
  perfect_reduces_to_ideal .permanent Complex.normSq 0 rot 2 _ rfl rfl rfl (by norm_num) [1, 1]

end Examples

end LW.C06
