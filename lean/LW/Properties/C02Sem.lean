/-
  C02 (semantic core) — the bookkeeping of `Circuit.add` refines composition of transformations.

  `Circ.toOptic` (LW.Model.Abs) abstracts the bookkeeping state to ports / private ancillas / one
  matrix; `Optic.compose` (LW.Model.Optic) is the specification of adding a sub-circuit: the closed
  sub-circuit S̃ is wired, in order, onto ports m, m+1, … of the parent and its heralds become new
  private ancillas: W' = Embed(S̃) · Embed(P).  The theorems say every accepted construction call
  commutes with the abstraction on canonical closed forms — i.e. the heralded transformation of the
  result is exactly the composition of the two transformations under this wiring, for any nesting
  depth, grouping flag, herald declaration order, in ≠ out herald modes and any existing ancillas.
  `Reach` (LW.Proofs.ReachDef) = constructible through the API.
-/
import LW.Proofs.C02Sem

namespace LW.C02

variable {K : Type} [CommRing K] [StarRing K]

/-- REFINEMENT of `add`: on canonical closed forms, abstraction commutes with composition -/
theorem sem_add (i : K) (self sub self' : Circ K) (hs : Reach self) (hsub : Reach sub)
    (m : Int) (g : Bool) (h : self.add sub m g = .ok self') :
    (self'.toOptic i).closed = ((self.toOptic i).compose (sub.toOptic i).closed m.toNat).closed :=
  Proofs.C02Sem.sem_add i self sub self' hs hsub m g h

/-- the specification accepts exactly the additions the bookkeeping accepts -/
theorem sem_add_accepts (i : K) (self sub : Circ K) (hs : Reach self) (hsub : Reach sub) (m : Int) (g : Bool) :
    (∃ self', self.add sub m g = .ok self') ↔ (∃ x, (self.toOptic i).add (sub.toOptic i) m = .ok x) :=
  Proofs.C02Sem.sem_add_accepts i self sub hs hsub m g

/-- REFINEMENT of primitive calls: a primitive on user modes acts on the ports only (ancillas are
never touched), and is accepted on the ports exactly when the API accepts it -/
theorem sem_bs (i : K) (c c' : Circ K) (hc : Reach c) (m1 m2 : Int) (cs : K × K) (cv : Conv)
    (l : Option (K × K)) (h : c.bs m1 m2 cs cv l = .ok c') :
    ∃ x, (c.toOptic i).applyCall i (fun d => d.bs m1 m2 cs cv l) = .ok x ∧ x.closed = (c'.toOptic i).closed :=
  Proofs.C02Sem.sem_bs i c c' hc m1 m2 cs cv l h

theorem sem_ps (i : K) (c c' : Circ K) (hc : Reach c) (m : Int) (p : K) (l : Option (K × K))
    (h : c.ps m p l = .ok c') :
    ∃ x, (c.toOptic i).applyCall i (fun d => d.ps m p l) = .ok x ∧ x.closed = (c'.toOptic i).closed :=
  Proofs.C02Sem.sem_ps i c c' hc m p l h

theorem sem_loss (i : K) (c c' : Circ K) (hc : Reach c) (m : Int) (ab : K × K)
    (h : c.loss m ab = .ok c') :
    ∃ x, (c.toOptic i).applyCall i (fun d => d.loss m ab) = .ok x ∧ x.closed = (c'.toOptic i).closed :=
  Proofs.C02Sem.sem_loss i c c' hc m ab h

theorem sem_swaps (i : K) (c c' : Circ K) (hc : Reach c) (sw : List (Int × Int))
    (h : c.modeSwaps sw = .ok c') :
    ∃ x, (c.toOptic i).applyCall i (fun d => d.modeSwaps sw) = .ok x ∧ x.closed = (c'.toOptic i).closed :=
  Proofs.C02Sem.sem_swaps i c c' hc sw h

/-- REFINEMENT of `herald` -/
theorem sem_herald (i : K) (c c' : Circ K) (hc : Reach c) (k : Nat) (a b : Int)
    (h : c.herald k a b = .ok c') :
    ∃ x, (c.toOptic i).herald k a b = .ok x ∧ x.closed = (c'.toOptic i).closed :=
  Proofs.C02Sem.sem_herald i c c' hc k a b h

end LW.C02
