/-
  C02 (amplitude clause) — the heralded input-to-output transition amplitudes of the result of an
  addition are exactly those of the two transformations composed under the wiring.

  `Optic.compose x s m` has matrix `Embed(S̃) · Embed(P)` on the index space
  [ports | old ancillas | new ancillas | old loss | new loss]; by the Fock functor theorem
  (`ampNum_mul`, Cauchy–Binet for permanents) every Fock-space amplitude of the composite is the sum
  over intermediate Fock states `w` of (amplitude of the embedded parent from the input to `w`) ×
  (amplitude of the embedded sub-circuit from `w` to the output), with the occupation weight `1/w!`
  that turns amplitude numerators into normalised amplitudes.  Together with `sem_add`
  (LW/Properties/C02Sem.lean: the bookkeeping of `Circuit.add` refines `Optic.compose`) this is the
  amplitude-level statement of C02 for every constructible circuit.
-/
import LW.Proofs.FockFunctor
import LW.Model.Optic

namespace LW.C02

variable {K : Type} [Field K] [CharZero K]

/-- the two embedded factors of a composition (as in `Optic.compose`) -/
def composeFactors (x : Optic K) (s : Closed K) (m : Nat) : M K × M K :=
  let aS := s.hn.length
  let D := x.p + x.a + aS + x.l + s.l
  let invP (r : Nat) : Option Nat :=
    if r < x.p + x.a then some r
    else if r < x.p + x.a + aS then none
    else if r < x.p + x.a + aS + x.l then some (r - aS)
    else none
  let invS (r : Nat) : Option Nat :=
    if m ≤ r ∧ r < m + s.q then some (r - m)
    else if x.p + x.a ≤ r ∧ r < x.p + x.a + aS then some (s.q + (r - (x.p + x.a)))
    else if x.p + x.a + aS + x.l ≤ r then some (s.q + aS + (r - (x.p + x.a + aS + x.l)))
    else none
  (Optic.embedVia D s.W invS, Optic.embedVia D x.W invP)

theorem compose_W (x : Optic K) (s : Closed K) (m : Nat) :
    (x.compose s m).W = (composeFactors x s m).1.mul (composeFactors x s m).2 := rfl

/-- AMPLITUDES COMPOSE: for any Fock input `fin` and output `fout` on the composite's index space
(user photons on the ports, herald photons on the ancillas, vacuum on the loss indices), the
amplitude numerator of the composite is the path sum over all intermediate Fock states. -/
theorem add_amplitudes (x : Optic K) (s : Closed K) (m : Nat) (fin fout : FState)
    (hD : 0 < x.p + x.a + s.hn.length + x.l + s.l)
    (hin : fin.length = x.p + x.a + s.hn.length + x.l + s.l)
    (hout : fout.length = x.p + x.a + s.hn.length + x.l + s.l)
    (hp : photons fout = photons fin) :
    ampNum (x.compose s m).W fin fout =
      ((fockBasis (x.p + x.a + s.hn.length + x.l + s.l) (photons fin)).map fun w =>
        ampNum (composeFactors x s m).1 w fout * ampNum (composeFactors x s m).2 fin w /
          ((factProd w : Nat) : K)).sum := by
  rw [compose_W]
  exact Proofs.FockIso.ampNum_mul (composeFactors x s m).1 (composeFactors x s m).2 rfl hD fin fout
    hin hout hp

end LW.C02
