/-
  C07 — Sampling draws from the exact detected, heralded, post-selected distribution.

  Model: LW.Model.Sampling.  Randomness is a tape of uniform variates, so every statement below is
  for EVERY tape / every seed.  "Empirical frequencies converge to …" is the law of large numbers
  applied to `inverseCdf_interval` (the set of variates selecting outcome k is an interval of
  length p_k / Σp) and to the exact detector kernel; the limit statement itself is not formalised.
-/
import LW.Proofs.C07

namespace LW.C07

/-- prefix sums of the weights: `cum ps k = (ps.take k).sum` (defined in LW/Proofs/C07Cdf.lean so
that the proof file can state the lemma) -/
abbrev cum := Proofs.C07.cum

/-- INTERVAL MEASURE: with non-negative weights of positive total, the variate `u ∈ [0,1)` selects
index `k` exactly when `cum k / Σ ≤ u < cum (k+1) / Σ` — an interval of length `p_k / Σ` — provided
`p_k > 0`; hence the push-forward of the uniform tape is the normalised distribution. -/
theorem inverseCdf_interval (ps : List Rat) (hnn : ∀ p ∈ ps, 0 ≤ p) (htot : 0 < ps.sum)
    (u : Rat) (hu0 : 0 ≤ u) (hu1 : u < 1) (k : Nat) (hk : k < ps.length) (hpk : 0 < ps.getD k 0) :
    inverseCdf ps u = k ↔ cum ps k / ps.sum ≤ u ∧ u < cum ps (k + 1) / ps.sum :=
  Proofs.C07.inverseCdf_interval ps hnn htot u hu0 hu1 k hk hpk

/-- the selected index is always a valid index -/
theorem inverseCdf_lt (ps : List Rat) (hne : ps ≠ []) (u : Rat) : inverseCdf ps u < ps.length :=
  Proofs.C07.inverseCdf_lt ps hne u

/-- DETECTOR KERNEL: for efficiency and dark-count probability in [0,1] the kernel is a
probability distribution over detected states … -/
theorem detectorKernel_nonneg (d : Det) (h0 : 0 ≤ d.eta) (h1 : d.eta ≤ 1) (h2 : 0 ≤ d.pDark) (h3 : d.pDark ≤ 1)
    (s : FState) : ∀ x ∈ detectorKernel d s, 0 ≤ x.2 :=
  Proofs.C07.detectorKernel_nonneg d h0 h1 h2 h3 s

theorem detectorKernel_sum_one (d : Det) (s : FState) : ((detectorKernel d s).map (·.2)).sum = 1 :=
  Proofs.C07.detectorKernel_sum_one d s

/-- … each mode independently: thinning (each photon kept with the efficiency), then at most one
dark count, then the threshold cap.  Closed form of one mode's distribution. -/
theorem modeKernel_closed_form (d : Det) (n k : Nat) :
    (((modeKernel d n).find? (·.1 == k)).map (·.2)).getD 0 =
      ((((List.range (n + 1)).flatMap fun j =>
          let p : Rat := (binom n j : Rat) * d.eta ^ j * (1 - d.eta) ^ (n - j)
          [(j, p * (1 - d.pDark)), (j + 1, p * d.pDark)]).filter
        (fun x => (if d.pnr then x.1 else min x.1 1) == k)).map (·.2)).sum :=
  Proofs.C07.modeKernel_closed_form d n k

/-- for every tape the detected state lies in the kernel's support (same length; per mode at most
`n + 1` counts, at most 1 under threshold detection) -/
theorem detectorSample_shape (d : Det) (s : FState) (tape : List Rat) :
    (detectorSample d s tape).1.length = s.length ∧
    (∀ m, (detectorSample d s tape).1.getD m 0 ≤ s.getD m 0 + 1) ∧
    (d.pnr = false → ∀ c ∈ (detectorSample d s tape).1, c ≤ 1) :=
  Proofs.C07.detectorSample_shape d s tape

/-- a perfect detector returns its input and consumes nothing -/
theorem detectorSample_perfect (s : FState) (tape : List Rat) :
    detectorSample ⟨1, 0, true⟩ s tape = (s, tape) :=
  Proofs.C07.detectorSample_perfect s tape

/-- ACCEPTANCE: a state is returned only if it satisfied the heralds, and what is returned has the
heralded modes removed, satisfies the post-selection and the minimum-detection setting -/
theorem acceptState_spec (outHer : Dict) (rules : List Rule) (minDet : Nat) (s hs : FState) :
    acceptState outHer rules minDet s = some hs ↔
      heraldsOk outHer s = true ∧ hs = removeHeralds s outHer.keys ∧
      psValidate rules hs = true ∧ minDet ≤ photons hs :=
  Proofs.C07.acceptState_spec outHer rules minDet s hs

/-- every state returned by `sample_N_inputs`, for every distribution, detector and tape, is the
accepted form of some detected state; at most one state is returned per input -/
theorem sampleNInputs_ok (dist : List (FState × Rat)) (d : Det) (outHer : Dict) (rules : List Rule)
    (minDet : Nat) (us tape : List Rat) :
    (sampleNInputs dist d outHer rules minDet us tape).length ≤ us.length ∧
    ∀ hs ∈ sampleNInputs dist d outHer rules minDet us tape,
      psValidate rules hs = true ∧ minDet ≤ photons hs ∧
      ∃ s, heraldsOk outHer s = true ∧ hs = removeHeralds s outHer.keys :=
  Proofs.C07.sampleNInputs_ok dist d outHer rules minDet us tape

/-- the distribution `sample_N_outputs` draws from contains only accepted states, each once, and
gives each the total weight of the (thresholded) states that map to it -/
theorem outputsDist_spec (dist : List (FState × Rat)) (pnr : Bool) (outHer : Dict) (rules : List Rule)
    (minDet : Nat) :
    ((outputsDist dist pnr outHer rules minDet).map (·.1)).Nodup ∧
    ∀ hs, (((outputsDist dist pnr outHer rules minDet).find? (·.1 == hs)).map (·.2)).getD 0 =
      ((dist.filter fun x =>
          acceptState outHer rules minDet (if pnr then x.1 else x.1.map fun c => min c 1) == some hs).map
        (·.2)).sum :=
  Proofs.C07.outputsDist_spec dist pnr outHer rules minDet

/-- `sample_N_outputs` returns exactly one sample per requested output, each a state of the
conditional distribution -/
theorem sampleNOutputs_count (cond : List (FState × Rat)) (us : List Rat) :
    (sampleNOutputs cond us).length = us.length ∧
    (cond ≠ [] → ∀ s ∈ sampleNOutputs cond us, s ∈ cond.map (·.1)) :=
  Proofs.C07.sampleNOutputs_count cond us

end LW.C07
