import LW.Model.Sampling

namespace LW.C07

/-- interim (replaced by the real theorems): a perfect detector returns its input and draws nothing -/
theorem perfect_detector (s : FState) (tape : List Rat) :
    detectorSample ⟨1, 0, true⟩ s tape = (s, tape) := by
  simp [detectorSample]

end LW.C07
