/-
  C07 — Sampling draws from the exact detected, heralded, post-selected distribution.

  Model: LW.Model.Sampling.  Randomness is a tape of uniform variates, so every statement of the
  first part below is for EVERY tape / every seed.

  "Empirical frequencies converge to …" is formalised in the second part (LIMIT STATEMENTS) for the
  selection step `Generator.choice` / `inverseCdf`, for the composite `sampleOne`, and (as a law, not
  a limit) for the detector:
  * deterministic form: on the uniform grid {0, 1/N, …, (N-1)/N} the fraction of points selecting
    index k is within 1/N of p_k / Σp (`inverseCdf_grid_frequency`), hence converges
    (`inverseCdf_grid_frequency_eventually`, `inverseCdf_grid_frequency_tendsto`);
  * probabilistic form: for pairwise independent real variates, each uniform on [0,1), almost surely
    the fraction of the first n draws selecting index k tends to p_k / Σp
    (`sampling_frequencies_converge`, Mathlib's strong law of large numbers), and the fraction
    returning state s under `sampleOne` tends to the total normalised weight of the entries equal to
    s (`sampleOne_frequencies_converge`).  A real variate is almost surely irrational, so these are
    stated for the real-valued twins `inverseCdfR` / `sampleOneR` of the model functions (same
    recursion over ℝ), which agree with the model on rational data (`inverseCdfR_cast`,
    `sampleOneR_cast`).
  * detector: for a tape of independent variates uniform on [0,1) (at least as long as what the
    detector reads), the real twin `detectorSampleR` of `detectorSample` returns the state t with
    probability exactly the total weight of t in `detectorKernel d s` (`detectorSampleR_law`); the
    twin agrees with the model on rational tapes (`detectorSampleR_cast`).
  NOT formalised: a law-of-large-numbers statement for REPEATED detector calls (frequencies of
  detected states over many independent tapes; it would follow from `detectorSampleR_law` and the
  strong law once independence of functions of disjoint tape blocks is set up), and the law of the
  accepted samples of the rejection loop `sample_N_inputs` (selection ∘ detector ∘ acceptance on one
  running tape).  For those only the every-tape statements of the first part are proved.
-/
import LW.Proofs.C07
import LW.Proofs.C07LimitGridTendsto
import LW.Proofs.C07LimitState
import LW.Proofs.C07LimitDetLaw
import LW.Proofs.C07Accept

namespace LW.C07

/-- prefix sums of the weights: `cum ps k = (ps.take k).sum` (defined in LW/Proofs/C07Cdf.lean so
that the proof file can state the lemma) -/
abbrev cum := Proofs.C07.cum

/-- INTERVAL MEASURE: with non-negative weights of positive total, the variate `u ∈ [0,1)` selects
index `k` exactly when `cum k / Σ ≤ u < cum (k+1) / Σ` — an interval of length `p_k / Σ` — provided
`p_k > 0`; hence the push-forward of the uniform tape is the normalised distribution. -/
theorem inverseCdf_interval (ps : List Rat) (hnn : ∀ p ∈ ps, 0 ≤ p) (htot : 0 < ps.sum)
    (u : Rat) (hu0 : 0 ≤ u) (hu1 : u < 1) (k : Nat) (hk : k < ps.length) (hpk : 0 < ps.getD k 0) :
    inverseCdf ps u = k ↔ cum ps k / ps.sum ≤ u ∧ u < cum ps (k + 1) / ps.sum :=
  Proofs.C07.inverseCdf_interval ps hnn htot u hu0 hu1 k hk hpk

/-- the selected index is always a valid index -/
theorem inverseCdf_lt (ps : List Rat) (hne : ps ≠ []) (u : Rat) : inverseCdf ps u < ps.length :=
  Proofs.C07.inverseCdf_lt ps hne u

/-- DETECTOR KERNEL: for efficiency and dark-count probability in [0,1] the kernel is a
probability distribution over detected states … -/
theorem detectorKernel_nonneg (d : Det) (h0 : 0 ≤ d.eta) (h1 : d.eta ≤ 1) (h2 : 0 ≤ d.pDark) (h3 : d.pDark ≤ 1)
    (s : FState) : ∀ x ∈ detectorKernel d s, 0 ≤ x.2 :=
  Proofs.C07.detectorKernel_nonneg d h0 h1 h2 h3 s

theorem detectorKernel_sum_one (d : Det) (s : FState) : ((detectorKernel d s).map (·.2)).sum = 1 :=
  Proofs.C07.detectorKernel_sum_one d s

/-- … each mode independently: thinning (each photon kept with the efficiency), then at most one
dark count, then the threshold cap.  Closed form of one mode's distribution. -/
theorem modeKernel_closed_form (d : Det) (n k : Nat) :
    (((modeKernel d n).find? (·.1 == k)).map (·.2)).getD 0 =
      ((((List.range (n + 1)).flatMap fun j =>
          let p : Rat := (binom n j : Rat) * d.eta ^ j * (1 - d.eta) ^ (n - j)
          [(j, p * (1 - d.pDark)), (j + 1, p * d.pDark)]).filter
        (fun x => (if d.pnr then x.1 else min x.1 1) == k)).map (·.2)).sum :=
  Proofs.C07.modeKernel_closed_form d n k

/-- for every tape the detected state lies in the kernel's support (same length; per mode at most
`n + 1` counts, at most 1 under threshold detection) -/
theorem detectorSample_shape (d : Det) (s : FState) (tape : List Rat) :
    (detectorSample d s tape).1.length = s.length ∧
    (∀ m, (detectorSample d s tape).1.getD m 0 ≤ s.getD m 0 + 1) ∧
    (d.pnr = false → ∀ c ∈ (detectorSample d s tape).1, c ≤ 1) :=
  Proofs.C07.detectorSample_shape d s tape

/-- a perfect detector returns its input and consumes nothing -/
theorem detectorSample_perfect (s : FState) (tape : List Rat) :
    detectorSample ⟨1, 0, true⟩ s tape = (s, tape) :=
  Proofs.C07.detectorSample_perfect s tape

/-- ACCEPTANCE: a state is returned only if it satisfied the heralds, and what is returned has the
heralded modes removed, satisfies the post-selection and the minimum-detection setting -/
theorem acceptState_spec (outHer : Dict) (rules : List Rule) (minDet : Nat) (s hs : FState) :
    acceptState outHer rules minDet s = some hs ↔
      heraldsOk outHer s = true ∧ hs = removeHeralds s outHer.keys ∧
      psValidate rules hs = true ∧ minDet ≤ photons hs :=
  Proofs.C07.acceptState_spec outHer rules minDet s hs

/-- every state returned by `sample_N_inputs`, for every distribution, detector and tape, is the
accepted form of some detected state; at most one state is returned per input -/
theorem sampleNInputs_ok (dist : List (FState × Rat)) (d : Det) (outHer : Dict) (rules : List Rule)
    (minDet : Nat) (us tape : List Rat) :
    (sampleNInputs dist d outHer rules minDet us tape).length ≤ us.length ∧
    ∀ hs ∈ sampleNInputs dist d outHer rules minDet us tape,
      psValidate rules hs = true ∧ minDet ≤ photons hs ∧
      ∃ s, heraldsOk outHer s = true ∧ hs = removeHeralds s outHer.keys :=
  Proofs.C07.sampleNInputs_ok dist d outHer rules minDet us tape

/-- the distribution `sample_N_outputs` draws from contains only accepted states, each once, and
gives each the total weight of the (thresholded) states that map to it -/
theorem outputsDist_spec (dist : List (FState × Rat)) (pnr : Bool) (outHer : Dict) (rules : List Rule)
    (minDet : Nat) :
    ((outputsDist dist pnr outHer rules minDet).map (·.1)).Nodup ∧
    ∀ hs, (((outputsDist dist pnr outHer rules minDet).find? (·.1 == hs)).map (·.2)).getD 0 =
      ((dist.filter fun x =>
          acceptState outHer rules minDet (if pnr then x.1 else x.1.map fun c => min c 1) == some hs).map
        (·.2)).sum :=
  Proofs.C07.outputsDist_spec dist pnr outHer rules minDet

/-- `sample_N_outputs` returns exactly one sample per requested output, each a state of the
conditional distribution -/
theorem sampleNOutputs_count (cond : List (FState × Rat)) (us : List Rat) :
    (sampleNOutputs cond us).length = us.length ∧
    (cond ≠ [] → ∀ s ∈ sampleNOutputs cond us, s ∈ cond.map (·.1)) :=
  Proofs.C07.sampleNOutputs_count cond us

/-! ## LIMIT STATEMENTS -/

/-! ### (A) deterministic equidistribution on the uniform grid (core `Rat`) -/

/-- number of points `j / N`, `j < N`, of the uniform grid that select index `k`:
`((List.range N).filter fun j => inverseCdf ps (j / N) = k).length`
(defined in LW/Proofs/C07LimitGrid.lean) -/
abbrev gridCount := Proofs.C07.gridCount

/-- GRID FREQUENCY: with non-negative weights of positive total, for every valid index `k`
(including `p_k = 0`) and every `N > 0`, the fraction of the `N` grid points selecting `k` is within
`1 / N` of the normalised weight `p_k / Σp` -/
theorem inverseCdf_grid_frequency (ps : List Rat) (hnn : ∀ p ∈ ps, 0 ≤ p) (htot : 0 < ps.sum)
    (k : Nat) (hk : k < ps.length) (N : Nat) (hN : 0 < N) :
    |(gridCount ps N k : Rat) / N - ps.getD k 0 / ps.sum| ≤ 1 / N :=
  Proofs.C07.inverseCdf_grid_frequency ps hnn htot k hk N hN

/-- … in fact strictly less than `1 / N` -/
theorem inverseCdf_grid_frequency_lt (ps : List Rat) (hnn : ∀ p ∈ ps, 0 ≤ p) (htot : 0 < ps.sum)
    (k : Nat) (hk : k < ps.length) (N : Nat) (hN : 0 < N) :
    |(gridCount ps N k : Rat) / N - ps.getD k 0 / ps.sum| < 1 / N :=
  Proofs.C07.inverseCdf_grid_frequency_lt ps hnn htot k hk N hN

/-- an index of weight 0 is selected by no grid point (numpy's clipping to the last index never
acts on `[0,1)`) -/
theorem gridCount_eq_zero (ps : List Rat) (hnn : ∀ p ∈ ps, 0 ≤ p) (htot : 0 < ps.sum)
    (k : Nat) (hk : k < ps.length) (hpk : ps.getD k 0 = 0) (N : Nat) : gridCount ps N k = 0 :=
  Proofs.C07.gridCount_eq_zero ps hnn htot k hk hpk N

/-- CONVERGENCE, ε–N₀ form over `Rat` -/
theorem inverseCdf_grid_frequency_eventually (ps : List Rat) (hnn : ∀ p ∈ ps, 0 ≤ p)
    (htot : 0 < ps.sum) (k : Nat) (hk : k < ps.length) (ε : Rat) (hε : 0 < ε) :
    ∃ N₀ : Nat, ∀ N, N₀ ≤ N → |(gridCount ps N k : Rat) / N - ps.getD k 0 / ps.sum| < ε :=
  Proofs.C07.inverseCdf_grid_frequency_eventually ps hnn htot k hk ε hε

/-- CONVERGENCE, as a limit of real numbers -/
theorem inverseCdf_grid_frequency_tendsto (ps : List Rat) (hnn : ∀ p ∈ ps, 0 ≤ p)
    (htot : 0 < ps.sum) (k : Nat) (hk : k < ps.length) :
    Filter.Tendsto (fun N : ℕ => (((gridCount ps N k : Rat) / N : Rat) : ℝ)) Filter.atTop
      (nhds ((ps.getD k 0 / ps.sum : Rat) : ℝ)) :=
  Proofs.C07.inverseCdf_grid_frequency_tendsto ps hnn htot k hk

/-! ### (B) probabilistic form: the real twin and the strong law of large numbers -/

/-- real-valued twin of `inverseCdf`: the same recursion and clipping over `ℝ`
(LW/Proofs/C07LimitReal.lean):
`inverseCdfR ps u = min (go u (ps.foldl (·+·) 0) ps 0 0) (ps.length - 1)` with
`go u tot (p :: rest) acc i = if u < (acc + p) / tot then i else go u tot rest (acc + p) (i + 1)`,
`go u tot [] acc i = i` -/
noncomputable abbrev inverseCdfR := Proofs.C07.inverseCdfR

/-- prefix sums of real weights, `cumR ps k = (ps.take k).sum` -/
noncomputable abbrev cumR := Proofs.C07.cumR

/-- AGREEMENT: on rational weights and a rational variate the real twin is the model function -/
theorem inverseCdfR_cast (ps : List ℚ) (u : ℚ) :
    inverseCdfR (ps.map (fun q : ℚ => (q : ℝ))) (u : ℝ) = inverseCdf ps u :=
  Proofs.C07.inverseCdfR_cast ps u

/-- INTERVAL (real form; `p_k = 0` allowed, the interval is then empty) -/
theorem inverseCdfR_interval (ps : List ℝ) (hnn : ∀ p ∈ ps, 0 ≤ p) (htot : 0 < ps.sum)
    (u : ℝ) (hu0 : 0 ≤ u) (hu1 : u < 1) (k : ℕ) (hk : k < ps.length) :
    inverseCdfR ps u = k ↔ cumR ps k / ps.sum ≤ u ∧ u < cumR ps (k + 1) / ps.sum :=
  Proofs.C07.inverseCdfR_interval ps hnn htot u hu0 hu1 k hk

/-- MEASURABILITY of selection as a function of the variate (any weights) -/
theorem measurable_inverseCdfR (ps : List ℝ) : Measurable fun u : ℝ => inverseCdfR ps u :=
  Proofs.C07.measurable_inverseCdfR ps

/-- PUSH-FORWARD: under the uniform law on `[0,1)` index `k` is selected with probability
`p_k / Σp` -/
theorem inverseCdfR_uniform_measure (ps : List ℝ) (hnn : ∀ p ∈ ps, 0 ≤ p) (htot : 0 < ps.sum)
    (k : ℕ) (hk : k < ps.length) :
    (MeasureTheory.volume.restrict (Set.Ico (0 : ℝ) 1)) {u : ℝ | inverseCdfR ps u = k} =
      ENNReal.ofReal (ps.getD k 0 / ps.sum) :=
  Proofs.C07.volume_inverseCdfR_eq ps hnn htot k hk

/-- STRONG LAW for the selection step: if the variates `U 0, U 1, …` are pairwise independent and
each is uniformly distributed on `[0,1)`, then almost surely the fraction of the first `n` draws
that select index `k` tends to `p_k / Σp`.  (Mutual independence `iIndepFun U μ` implies the
pairwise hypothesis; such a sequence exists: `Proofs.C07.ideal_tape_exists`.) -/
theorem sampling_frequencies_converge {Ω : Type*} [MeasurableSpace Ω] {μ : MeasureTheory.Measure Ω}
    (U : ℕ → Ω → ℝ)
    (hindep : Pairwise fun i j => ProbabilityTheory.IndepFun (U i) (U j) μ)
    (hlaw : ∀ i, MeasureTheory.Measure.map (U i) μ = MeasureTheory.volume.restrict (Set.Ico (0 : ℝ) 1))
    (ps : List ℝ) (hnn : ∀ p ∈ ps, 0 ≤ p) (htot : 0 < ps.sum) (k : ℕ) (hk : k < ps.length) :
    ∀ᵐ ω ∂μ, Filter.Tendsto
      (fun n : ℕ =>
        (((Finset.range n).filter fun i => inverseCdfR ps (U i ω) = k).card : ℝ) / n)
      Filter.atTop (nhds (ps.getD k 0 / ps.sum)) :=
  Proofs.C07.sampling_frequencies_converge U hindep hlaw ps hnn htot k hk

/-- … for the model's rational weights; the limit is the exact rational normalised weight -/
theorem sampling_frequencies_converge_rat {Ω : Type*} [MeasurableSpace Ω]
    {μ : MeasureTheory.Measure Ω} (U : ℕ → Ω → ℝ)
    (hindep : Pairwise fun i j => ProbabilityTheory.IndepFun (U i) (U j) μ)
    (hlaw : ∀ i, MeasureTheory.Measure.map (U i) μ = MeasureTheory.volume.restrict (Set.Ico (0 : ℝ) 1))
    (ps : List ℚ) (hnn : ∀ p ∈ ps, 0 ≤ p) (htot : 0 < ps.sum) (k : ℕ) (hk : k < ps.length) :
    ∀ᵐ ω ∂μ, Filter.Tendsto
      (fun n : ℕ =>
        (((Finset.range n).filter fun i =>
          inverseCdfR (ps.map (fun q : ℚ => (q : ℝ))) (U i ω) = k).card : ℝ) / n)
      Filter.atTop (nhds ((ps.getD k 0 / ps.sum : ℚ) : ℝ)) :=
  Proofs.C07.sampling_frequencies_converge_rat U hindep hlaw ps hnn htot k hk

/-! ### (C) the composite `sampleOne` -/

/-- `sampleOne` (`Sampler.sample`) returns the state at the index chosen by `inverseCdf`
(`Generator.choice`): every distribution, every variate (model level, `Rat`) -/
theorem sampleOne_eq (dist : List (FState × ℚ)) (u : ℚ) :
    sampleOne dist u = (dist.getD (inverseCdf (dist.map (·.2)) u) ([], 0)).1 :=
  Proofs.C07.sampleOne_eq dist u

/-- real-valued twin of `sampleOne` (same recursion over `ℝ`, LW/Proofs/C07LimitState.lean) -/
noncomputable abbrev sampleOneR := Proofs.C07.sampleOneR

/-- AGREEMENT of `sampleOneR` with the model on rational data -/
theorem sampleOneR_cast (dist : List (FState × ℚ)) (u : ℚ) :
    sampleOneR (dist.map fun x => (x.1, (x.2 : ℝ))) (u : ℝ) = sampleOne dist u :=
  Proofs.C07.sampleOneR_cast dist u

/-- STRONG LAW for `sampleOne`: almost surely the fraction of the first `n` draws returning the
state `s` tends to the total normalised weight of the entries of `dist` whose state is `s` -/
theorem sampleOne_frequencies_converge {Ω : Type*} [MeasurableSpace Ω] {μ : MeasureTheory.Measure Ω}
    (U : ℕ → Ω → ℝ)
    (hindep : Pairwise fun i j => ProbabilityTheory.IndepFun (U i) (U j) μ)
    (hlaw : ∀ i, MeasureTheory.Measure.map (U i) μ = MeasureTheory.volume.restrict (Set.Ico (0 : ℝ) 1))
    (dist : List (FState × ℝ)) (hnn : ∀ x ∈ dist, 0 ≤ x.2) (htot : 0 < (dist.map (·.2)).sum)
    (s : FState) :
    ∀ᵐ ω ∂μ, Filter.Tendsto
      (fun n : ℕ => (((Finset.range n).filter fun i => sampleOneR dist (U i ω) = s).card : ℝ) / n)
      Filter.atTop
      (nhds (((dist.filter fun x => decide (x.1 = s)).map (·.2)).sum / (dist.map (·.2)).sum)) :=
  Proofs.C07.sampleOne_frequencies_converge U hindep hlaw dist hnn htot s

/-! ### (C) the detector on an i.i.d. uniform tape -/

/-- real-valued twin of `detectorSample`: the same program (efficiency stage, dark-count stage,
threshold; same tape consumption) on a tape of real variates, the rational settings being compared
as reals: `u > (d.eta : ℝ)`, `u < (d.pDark : ℝ)` (LW/Proofs/C07LimitDetG.lean) -/
noncomputable abbrev detectorSampleR := Proofs.C07.detectorSampleR

/-- AGREEMENT: on a rational tape the twin returns the model's detected state and unread tape -/
theorem detectorSampleR_cast (d : Det) (s : FState) (tape : List ℚ) :
    detectorSampleR d s (tape.map (fun q : ℚ => (q : ℝ))) =
      ((detectorSample d s tape).1, (detectorSample d s tape).2.map (fun q : ℚ => (q : ℝ))) :=
  Proofs.C07.detectorSampleR_cast d s tape

/-- DETECTOR LAW: if the tape entries `V 0, V 1, …` are (mutually) independent and each uniform on
`[0,1)`, the efficiency and the dark-count probability lie in `[0,1]`, and the detector is handed
the first `T ≥ photons s + s.length` entries (it never reads more), then it returns the state `t`
with probability the total weight of `t` in the exact kernel `detectorKernel d s`. -/
theorem detectorSampleR_law {Ω : Type*} [MeasurableSpace Ω] {μ : MeasureTheory.Measure Ω}
    (V : ℕ → Ω → ℝ) (hindep : ProbabilityTheory.iIndepFun V μ)
    (hlaw : ∀ i, MeasureTheory.Measure.map (V i) μ = MeasureTheory.volume.restrict (Set.Ico (0 : ℝ) 1))
    (d : Det) (h0 : 0 ≤ d.eta) (h1 : d.eta ≤ 1) (h2 : 0 ≤ d.pDark) (h3 : d.pDark ≤ 1)
    (s : FState) (T : ℕ) (hT : photons s + s.length ≤ T) (t : FState) :
    μ {ω | (detectorSampleR d s ((List.range T).map fun i => V i ω)).1 = t} =
      ENNReal.ofReal (((((detectorKernel d s).filter (·.1 == t)).map (·.2)).sum : ℚ) : ℝ) :=
  Proofs.C07.detectorSampleR_law' V hindep hlaw d h0 h1 h2 h3 s T hT t

/-! ### (D) the rejection loop of `sample_N_inputs` as a whole -/

/-- one pass of the loop body: selection, detector, acceptance; returns the unread tape -/
abbrev iterOutcome := Proofs.C07.iterOutcome

/-- RENEWAL DECOMPOSITION (model level, every distribution / detector / tape): `sample_N_inputs`
on the variates `u :: us` is the outcome of one pass (kept if accepted) followed by
`sample_N_inputs` on `us` started on the tape that pass left unread.  Hence the list returned for
`N` inputs is the list of accepted pass outcomes, in order, and its length is the number of accepted
passes. -/
theorem sampleNInputs_renewal (dist : List (FState × Rat)) (d : Det) (outHer : Dict)
    (rules : List Rule) (minDet : Nat) (u : Rat) (us : List Rat) (tape : List Rat) :
    sampleNInputs dist d outHer rules minDet (u :: us) tape
      = (iterOutcome dist d outHer rules minDet u tape).1.toList
        ++ sampleNInputs dist d outHer rules minDet us
            (iterOutcome dist d outHer rules minDet u tape).2 :=
  Proofs.C07.sampleNInputs_cons dist d outHer rules minDet u us tape

/-- STRONG LAW FOR THE REJECTION LOOP: if the outcomes `Y 0, Y 1, …` of the passes (`none` =
rejected) are pairwise independent and identically distributed, then almost surely the ACCEPTED
FRACTION tends to the probability that one pass is accepted and, when that is positive, the share
of a state `s` among the accepted passes tends to the conditional probability
`P(pass returns s) / P(pass accepted)`.
PARTIAL with respect to the property: that the passes of a loop consuming ONE i.i.d. uniform tape
in order are i.i.d. (each pass reads a fresh block whose length depends only on that block) is the
hypothesis here, not a theorem; the law of a single pass is given by `inverseCdfR_uniform_measure`
and `detectorSampleR_law`. -/
theorem rejection_loop_frequencies {Ω : Type*} [MeasurableSpace Ω] {μ : MeasureTheory.Measure Ω}
    [MeasureTheory.IsProbabilityMeasure μ] {β : Type*} [MeasurableSpace (Option β)]
    [MeasurableSingletonClass (Option β)] [DecidableEq β]
    (Y : ℕ → Ω → Option β) (hmeas : ∀ i, Measurable (Y i))
    (hindep : Pairwise fun i j => ProbabilityTheory.IndepFun (Y i) (Y j) μ)
    (hident : ∀ i, ProbabilityTheory.IdentDistrib (Y i) (Y 0) μ μ) (s : β)
    (hpos : 0 < μ.real (Y 0 ⁻¹' {o | o.isSome})) :
    ∀ᵐ ω ∂μ,
      Filter.Tendsto
        (fun n : ℕ => (((Finset.range n).filter fun i => (Y i ω).isSome).card : ℝ) / n)
        Filter.atTop (nhds (μ.real (Y 0 ⁻¹' {o | o.isSome}))) ∧
      Filter.Tendsto (fun n : ℕ =>
          (((Finset.range n).filter fun i => Y i ω = some s).card : ℝ)
            / ((Finset.range n).filter fun i => (Y i ω).isSome).card)
        Filter.atTop (nhds (μ.real (Y 0 ⁻¹' {some s}) / μ.real (Y 0 ⁻¹' {o | o.isSome}))) :=
  Proofs.C07.rejection_loop_frequencies Y hmeas hindep hident s hpos

end LW.C07
