import LW.Model.CircuitSpec

namespace LW.C01

/-- placeholder while the real theorems are being written -/
theorem placeholder : True := trivial

end LW.C01
