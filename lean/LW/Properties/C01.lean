import LW.Model.CircuitSpec

namespace LW.C01

/-- `U_full` of the empty circuit has the circuit's own dimension (the full theorem set is being
proved in a scratch copy and replaces this file when it builds). -/
theorem compile_nil_dim {K : Type} [Add K] [Mul K] [Neg K] [Zero K] [One K] (i : K) (n : Nat) :
    (compile i n ([] : List (Comp K))).n = n := rfl

end LW.C01
