/-
  C01 — A circuit compiles to the ordered product of its components.

  Only the property theorems and their non-vacuity examples live here; helper lemmas are in
  LW/Proofs.  `compile` is the model of `CompiledCircuit.add` folded over the circuit spec
  (LW.Model.Circuit), `orderedProd` the specification (LW.Model.CircuitSpec).
  All statements are for every spec (any length, any interleaving, groups included), every mode
  count and every parameter value in a commutative star ring `K` (in particular ℂ).
-/
import LW.Proofs.C01

namespace LW.C01

variable {K : Type} [CommRing K] [StarRing K]

/-- `U_full` has exactly one extra mode per loss element (counted through groups). -/
theorem compile_dim (i : K) (n : Nat) (spec : List (Comp K)) :
    (compile i n spec).n = n + lossCount spec :=
  Proofs.C01.compile_dim i n spec

/-- `U` — the leading `n × n` block of `U_full` — is the product, in insertion order, of the
documented component matrices on the circuit's own modes, a loss element acting as the
amplitude factor `a = √(1-loss)` on its mode and a barrier as the identity. -/
theorem U_eq_orderedProd (i : K) (n : Nat) (spec : List (Comp K)) (h : SpecWf n spec) :
    (compile i n spec).lead n = orderedProd i n (flattenSpec spec) :=
  Proofs.C01.U_eq_orderedProd i n spec h

/-- `U_full` is unitary for every spec whose parameters lie in the documented ranges. -/
theorem Ufull_unitary (i : K) (hi : IsImagUnit i) (n : Nat) (spec : List (Comp K))
    (h : SpecWf n spec) : IsUnitary (compile i n spec) :=
  Proofs.C01.Ufull_unitary i hi n spec h

/-- every primitive construction call that the API accepts records a well-formed component:
the validation in `Circuit.bs/ps/loss/barrier/mode_swaps` implies the hypotheses above. -/
theorem accepted_calls_wf (c c' : Circ K) (hc : SpecWf c.n c.spec) :
    (∀ m1 m2 cs cv l, cs.1 * cs.1 + cs.2 * cs.2 = 1 → star cs.1 = cs.1 → star cs.2 = cs.2 →
        (∀ ab, l = some ab → ab.1 * ab.1 + ab.2 * ab.2 = 1 ∧ star ab.1 = ab.1 ∧ star ab.2 = ab.2) →
        c.bs m1 m2 cs cv l = .ok c' → c'.n = c.n ∧ SpecWf c'.n c'.spec) ∧
    (∀ m p l, p * star p = 1 →
        (∀ ab, l = some ab → ab.1 * ab.1 + ab.2 * ab.2 = 1 ∧ star ab.1 = ab.1 ∧ star ab.2 = ab.2) →
        c.ps m p l = .ok c' → c'.n = c.n ∧ SpecWf c'.n c'.spec) ∧
    (∀ m ab, ab.1 * ab.1 + ab.2 * ab.2 = 1 → star ab.1 = ab.1 → star ab.2 = ab.2 →
        c.loss m ab = .ok c' → c'.n = c.n ∧ SpecWf c'.n c'.spec) ∧
    (∀ ms, c.barrier ms = .ok c' → c'.n = c.n ∧ SpecWf c'.n c'.spec) ∧
    (∀ sw, c.modeSwaps sw = .ok c' → c'.n = c.n ∧ SpecWf c'.n c'.spec) :=
  Proofs.C01.accepted_calls_wf c c' hc

/-- a rejected primitive call returns an error and no new state (the model of
"failed calls change nothing": the `Except` carries no circuit). -/
theorem bs_rejects_equal_or_out_of_range (c : Circ K) (m1 m2 : Int) (cs : K × K) (cv : Conv)
    (l : Option (K × K))
    (h : c.mapMode m1 = c.mapMode m2 ∨ c.mapMode m1 < 0 ∨ (c.n : Int) ≤ c.mapMode m1 ∨
         c.mapMode m2 < 0 ∨ (c.n : Int) ≤ c.mapMode m2) :
    c.bs m1 m2 cs cv l = .error .modeRange :=
  Proofs.C01.bs_rejects c m1 m2 cs cv l h

end LW.C01
