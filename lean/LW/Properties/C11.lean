/-
  C11 — Results depend only on the current configuration, not on history.

  Model: LW.Model.Cache.  The refinement theorem: if the computed value factors through the
  snapshot, then after ANY history of reconfigurations and reads every read returns exactly what a
  fresh object with the current configuration computes.  The repaired snapshot determines the
  whole configuration, so every computation factors through it; the pinned snapshot (without
  heralds / mode count) does not, with a concrete witness.
-/
import LW.Model.Cache
import LW.Proofs.C11

namespace LW.C11

open Cached

variable {Cfg Snap Val : Type} [DecidableEq Snap]

/-- cache invariant: a stored value is the computation of some configuration with that snapshot -/
def Inv (snap : Cfg → Snap) (compute : Cfg → Val) (s : Cached Cfg Snap Val) : Prop :=
  ∀ k v, s.cache = some (k, v) → ∃ c, snap c = k ∧ v = compute c

theorem read_correct (snap : Cfg → Snap) (compute : Cfg → Val)
    (hf : ∀ c1 c2, snap c1 = snap c2 → compute c1 = compute c2)
    (s : Cached Cfg Snap Val) (hs : Inv snap compute s) :
    (s.read snap compute).1 = compute s.cfg ∧ Inv snap compute (s.read snap compute).2 ∧
    (s.read snap compute).2.cfg = s.cfg := by
  cases hc : s.cache with
  | none =>
    have hr : s.read snap compute = (compute s.cfg, { s with cache := some (snap s.cfg, compute s.cfg) }) := by
      simp [Cached.read, hc]
    rw [hr]
    refine ⟨rfl, ?_, rfl⟩
    intro k v h
    simp only [Option.some.injEq, Prod.mk.injEq] at h
    exact ⟨s.cfg, h.1, h.2.symm⟩
  | some kv =>
    obtain ⟨k, v⟩ := kv
    by_cases hk : k = snap s.cfg
    · have hr : s.read snap compute = (v, s) := by simp [Cached.read, hc, hk]
      rw [hr]
      obtain ⟨c, hc1, hc2⟩ := hs k v hc
      refine ⟨?_, hs, rfl⟩
      rw [hc2]
      exact hf c s.cfg (hc1.trans hk)
    · have hr : s.read snap compute = (compute s.cfg, { s with cache := some (snap s.cfg, compute s.cfg) }) := by
        simp [Cached.read, hc, hk]
      rw [hr]
      refine ⟨rfl, ?_, rfl⟩
      intro k' v' h
      simp only [Option.some.injEq, Prod.mk.injEq] at h
      exact ⟨s.cfg, h.1, h.2.symm⟩

/-- REFINEMENT: for every history, every read returns what a freshly created object with the
configuration current at that read computes. -/
theorem history_independent (snap : Cfg → Snap) (compute : Cfg → Val)
    (hf : ∀ c1 c2, snap c1 = snap c2 → compute c1 = compute c2)
    (ops : List (Op Cfg)) (s : Cached Cfg Snap Val) (hs : Inv snap compute s) :
    ∀ cv ∈ run snap compute s ops, cv.2 = compute cv.1 := by
  induction ops generalizing s with
  | nil => intro cv h; simp [run] at h
  | cons op ops ih =>
    intro cv h
    cases op with
    | reconfig f =>
      simp only [run, step] at h
      exact ih _ (by intro k v hkv; exact hs k v hkv) cv h
    | read =>
      simp only [run, step] at h
      obtain ⟨h1, h2, h3⟩ := read_correct snap compute hf s hs
      rcases List.mem_cons.mp h with h | h
      · rw [h]; simp only; rw [h1, h3]
      · exact ih _ h2 cv h

/-- a fresh object satisfies the invariant (sampling works without a prior read: the first read
computes) -/
theorem fresh_inv (snap : Cfg → Snap) (compute : Cfg → Val) (c : Cfg) :
    Inv snap compute ({ cfg := c } : Cached Cfg Snap Val) := by
  intro k v h; simp at h

theorem fresh_read (snap : Cfg → Snap) (compute : Cfg → Val) (c : Cfg) :
    (({ cfg := c } : Cached Cfg Snap Val).read snap compute).1 = compute c := rfl

/-- the repaired snapshot determines the configuration, so EVERY computation factors through it -/
theorem snapFixed_factors {U : Type} {V : Type} (compute : SamplerCfg U → V)
    (c1 c2 : SamplerCfg U) (h : snapFixed c1 = snapFixed c2) : compute c1 = compute c2 := by
  have : c1 = c2 := by
    cases c1; cases c2
    simp only [snapFixed, SnapF.mk.injEq] at h
    obtain ⟨h1, h2, h3, h4, h5, h6, h7⟩ := h
    subst h1 h2 h3 h4 h5 h6 h7
    rfl
  rw [this]

/-- hence a Sampler with the repaired snapshot is history independent for any `compute` -/
theorem sampler_history_independent {U V : Type} [DecidableEq U] (compute : SamplerCfg U → V)
    (ops : List (Op (SamplerCfg U))) (c : SamplerCfg U) :
    ∀ cv ∈ run snapFixed compute ({ cfg := c } : Cached (SamplerCfg U) _ V) ops,
      cv.2 = compute cv.1 :=
  history_independent snapFixed compute (snapFixed_factors compute) ops _ (fresh_inv _ _ c)

/-- the pinned snapshot does not determine the distribution: two configurations that differ only
in the herald photon number have the same pinned snapshot (finding F10) -/
theorem F10_pinned_counterexample :
    ∃ c1 c2 : SamplerCfg Nat, snapPinned c1 = snapPinned c2 ∧ c1.inHer ≠ c2.inHer :=
  ⟨⟨0, 3, [(2, 0)], [(2, 0)], [1, 0], 0, []⟩, ⟨0, 3, [(2, 1)], [(2, 1)], [1, 0], 0, []⟩, rfl, by decide⟩

/-- … and with it a stale read really happens: reading, switching the herald photon number and
reading again returns the OLD value although a fresh object computes a different one. -/
theorem F10_pinned_stale_read :
    let c1 : SamplerCfg Nat := ⟨0, 3, [(2, 0)], [(2, 0)], [1, 0], 0, []⟩
    let c2 : SamplerCfg Nat := ⟨0, 3, [(2, 1)], [(2, 1)], [1, 0], 0, []⟩
    let compute : SamplerCfg Nat → List (Nat × Nat) := fun c => c.inHer
    run snapPinned compute ({ cfg := c1 } : Cached (SamplerCfg Nat) _ _)
        [.read, .reconfig (fun _ => c2), .read] = [(c1, [(2, 0)]), (c2, [(2, 0)])] := by
  decide

/-! ## the QuickSampler (finding F30) -/

/-- the repaired QuickSampler snapshot determines the configuration (object identity AND the
rules the object holds now), so every computation factors through it -/
theorem snapQuickFixed_factors {U : Type} {V : Type} (compute : QuickCfg U → V)
    (c1 c2 : QuickCfg U) (h : snapQuickFixed c1 = snapQuickFixed c2) : compute c1 = compute c2 := by
  have : c1 = c2 := by
    cases c1; cases c2
    simp only [snapQuickFixed, SnapQ.mk.injEq] at h
    obtain ⟨h1, h2, h3, h4, h5, h6, h7, h8⟩ := h
    subst h1 h2 h3 h4 h5 h6 h7 h8
    rfl
  rw [this]

/-- hence a QuickSampler with the repaired snapshot is history independent for any `compute` -/
theorem quick_history_independent {U V : Type} [DecidableEq U] (compute : QuickCfg U → V)
    (ops : List (Op (QuickCfg U))) (c : QuickCfg U) :
    ∀ cv ∈ run snapQuickFixed compute ({ cfg := c } : Cached (QuickCfg U) _ V) ops,
      cv.2 = compute cv.1 :=
  history_independent snapQuickFixed compute (snapQuickFixed_factors compute) ops _ (fresh_inv _ _ c)

example : run snapQuickFixed (fun c : QuickCfg Nat => c.psRules)
    ({ cfg := ⟨0, 3, [], [], [1, 1, 0], 7, [([0], [1])], true⟩ } : Cached (QuickCfg Nat) _ _)
    [.read, .reconfig (fun c => { c with psRules := c.psRules ++ [([2], [0])] }), .read, .read] =
    [(⟨0, 3, [], [], [1, 1, 0], 7, [([0], [1])], true⟩, [([0], [1])]),
     (⟨0, 3, [], [], [1, 1, 0], 7, [([0], [1]), ([2], [0])], true⟩, [([0], [1]), ([2], [0])]),
     (⟨0, 3, [], [], [1, 1, 0], 7, [([0], [1]), ([2], [0])], true⟩, [([0], [1]), ([2], [0])])] := by
  decide

/-- the snapshot before ab07a40 does not determine the distribution: the same PostSelection object
with another rule added in place has the same pinned snapshot (finding F30) -/
theorem F30_pinned_counterexample :
    ∃ c1 c2 : QuickCfg Nat, snapQuickPinned c1 = snapQuickPinned c2 ∧ c1.psId = c2.psId ∧
      c1.psRules ≠ c2.psRules :=
  ⟨⟨0, 3, [], [], [1, 1, 0], 7, [([0], [1])], true⟩,
   ⟨0, 3, [], [], [1, 1, 0], 7, [([0], [1]), ([2], [0])], true⟩, rfl, rfl, by decide⟩

/-- … and with it a stale read really happens: read, add a rule in place to the held object, read
again — the OLD value comes back although a fresh object computes a different one. -/
theorem F30_pinned_stale_read :
    let c1 : QuickCfg Nat := ⟨0, 3, [], [], [1, 1, 0], 7, [([0], [1])], true⟩
    let c2 : QuickCfg Nat := ⟨0, 3, [], [], [1, 1, 0], 7, [([0], [1]), ([2], [0])], true⟩
    let compute : QuickCfg Nat → List PSRule := fun c => c.psRules
    run snapQuickPinned compute ({ cfg := c1 } : Cached (QuickCfg Nat) _ _)
        [.read, .reconfig (fun c => { c with psRules := c.psRules ++ [([2], [0])] }), .read] =
      [(c1, [([0], [1])]), (c2, [([0], [1])])] ∧ compute c2 ≠ [([0], [1])] := by
  decide

/-! ## the staleness test; computations that raise -/

/-- a read recomputes exactly when `_check_parameter_updates` (`stale`) says so -/
theorem read_recomputes_iff_stale (snap : Cfg → Snap) (compute : Cfg → Val)
    (s : Cached Cfg Snap Val) :
    s.read snap compute =
      if s.stale snap then (compute s.cfg, { s with cache := some (snap s.cfg, compute s.cfg) })
      else match s.cache with
        | some (_, v) => (v, s)
        | none => (compute s.cfg, s) :=
  C11P.read_eq_of_stale snap compute s

/-- `stale` is false exactly when a value for the current snapshot is stored -/
theorem stale_eq_false_iff (snap : Cfg → Snap) (s : Cached Cfg Snap Val) :
    s.stale snap = false ↔ ∃ v, s.cache = some (snap s.cfg, v) :=
  C11P.stale_eq_false_iff snap s

/-- for a computation that never raises the raising read is the plain read -/
theorem readE_ok {E : Type} (snap : Cfg → Snap) (compute : Cfg → Val) (s : Cached Cfg Snap Val) :
    s.readE snap (fun c => (Except.ok (compute c) : Except E Val)) =
      (Except.ok (s.read snap compute).1, (s.read snap compute).2) :=
  C11P.readE_ok snap compute s

/-- the record of a read in `runE`: the configuration, the `stale` flag just before the read, the
outcome of `readE` -/
theorem runE_read {E : Type} (snap : Cfg → Snap) (compute : Cfg → Except E Val)
    (s : Cached Cfg Snap Val) (ops : List (Op Cfg)) :
    runE snap compute s (.read :: ops) =
      (s.cfg, s.stale snap, (s.readE snap compute).1) ::
        runE snap compute (s.readE snap compute).2 ops :=
  C11P.runE_flag snap compute s ops

/-- REFINEMENT with exceptions: a computation may raise (the exception leaves the stored pair
untouched); for every history every read returns the value OR the exception that a freshly created
object with the configuration current at that read produces. -/
theorem history_independent_raising {E : Type} (snap : Cfg → Snap) (compute : Cfg → Except E Val)
    (hf : ∀ c1 c2, snap c1 = snap c2 → compute c1 = compute c2)
    (ops : List (Op Cfg)) (c : Cfg) :
    ∀ r ∈ runE snap compute ({ cfg := c } : Cached Cfg Snap Val) ops, r.2.2 = compute r.1 :=
  C11P.history_independentE snap compute hf ops _ (by intro k v h; simp at h)

theorem sampler_history_independent_raising {U V E : Type} [DecidableEq U]
    (compute : SamplerCfg U → Except E V) (ops : List (Op (SamplerCfg U))) (c : SamplerCfg U) :
    ∀ r ∈ runE snapFixed compute ({ cfg := c } : Cached (SamplerCfg U) _ V) ops,
      r.2.2 = compute r.1 :=
  history_independent_raising snapFixed compute (snapFixed_factors compute) ops c

theorem quick_history_independent_raising {U V E : Type} [DecidableEq U]
    (compute : QuickCfg U → Except E V) (ops : List (Op (QuickCfg U))) (c : QuickCfg U) :
    ∀ r ∈ runE snapQuickFixed compute ({ cfg := c } : Cached (QuickCfg U) _ V) ops,
      r.2.2 = compute r.1 :=
  history_independent_raising snapQuickFixed compute (snapQuickFixed_factors compute) ops c

/-- a raising read in the middle: the configuration whose computation raises is read twice (both
reads recompute and raise), then the first configuration again (still stored: no recomputation) -/
example :
    let c1 : QuickCfg Nat := ⟨0, 3, [], [], [1, 1, 0], 7, [([0], [1])], true⟩
    let c2 : QuickCfg Nat := ⟨0, 3, [], [], [1, 1, 0], 7, [([0], [5])], true⟩
    let compute : QuickCfg Nat → Except Unit Nat :=
      fun c => if c.psRules = [([0], [5])] then .error () else .ok c.psRules.length
    (runE snapQuickFixed compute ({ cfg := c1 } : Cached (QuickCfg Nat) _ _)
        [.read, .reconfig (fun _ => c2), .read, .read, .reconfig (fun _ => c1), .read]).map
        (fun r => (r.1, r.2.1, r.2.2.toOption)) =
      [(c1, true, some 1), (c2, true, none), (c2, true, none), (c1, false, some 1)] := by
  decide

/-! ## components shared by several long-lived objects, changed in place -/

/-- a fresh object's read computes (or raises what the computation raises) -/
theorem fresh_readE {E : Type} (snap : Cfg → Snap) (compute : Cfg → Except E Val) (c : Cfg) :
    (({ cfg := c } : Cached Cfg Snap Val).readE snap compute).1 = compute c := by
  cases h : compute c <;> simp [Cached.readE, Cached.stale, h]

/-- GENERIC: any number of holders (the initial ones and those created on the way), a heap of
shared components that every holder sees, arbitrary interleavings of creation, reassignment,
in-place change of the heap and reads; computations may raise.  If `compute` factors through the
snapshot of the RESOLVED configuration, the cached world returns, read for read, exactly what the
cache-free world returns, in which every read builds a fresh object from the holder's settings and
the then-current heap. -/
theorem shared_history_independent {H Own E : Type} (resolve : H → Own → Cfg) (snap : Cfg → Snap)
    (compute : Cfg → Except E Val) (hf : ∀ c1 c2, snap c1 = snap c2 → compute c1 = compute c2)
    (heap : H) (owns : List Own) (ops : List (WOp H Own)) :
    CWorld.run resolve snap compute ⟨heap, owns.map (fun o => { cfg := o })⟩ ops =
      CWorld.specRun resolve compute (heap, owns) ops := by
  have h := C11P.shared_history_independent resolve snap compute hf ops
    ⟨heap, owns.map (fun o => ({ cfg := o } : Cached Own Snap Val))⟩
    (by
      intro s hs
      obtain ⟨o, _, rfl⟩ := List.mem_map.mp hs
      intro k v hkv; simp at hkv)
  simpa [C11P.forget, Function.comp_def] using h

/-- every record of the cache-free world is the computation on the configuration of that moment -/
theorem specRun_computes {H Own E : Type} (resolve : H → Own → Cfg) (compute : Cfg → Except E Val)
    (ops : List (WOp H Own)) (w : H × List Own) :
    ∀ r ∈ CWorld.specRun resolve compute w ops, r.2.2 = compute r.2.1 :=
  C11P.specRun_computes resolve compute ops w

/-- QuickSamplers sharing PostSelection objects (heap `psId ↦ rules`; `WOp.mutatePS psId newRules`
changes the rules seen by every holder of that object, and is one of the `WOp.mutate` steps): with
the repaired snapshot every holder's every read equals the fresh computation on the then-current
heap, for every interleaving over any number of holders. -/
theorem shared_component_history_independent {U V E : Type} [DecidableEq U]
    (compute : QuickCfg U → Except E V) (heap : PSHeap) (owns : List (QuickOwn U))
    (ops : List (WOp PSHeap (QuickOwn U))) :
    CWorld.run QuickOwn.resolve snapQuickFixed compute ⟨heap, owns.map (fun o => { cfg := o })⟩ ops =
      CWorld.specRun QuickOwn.resolve compute (heap, owns) ops :=
  shared_history_independent QuickOwn.resolve snapQuickFixed compute
    (snapQuickFixed_factors compute) heap owns ops

/-- the same, read by read: the outcome is `compute` of the holder's configuration seen through
the heap of that moment, which is also what a fresh object with that configuration returns -/
theorem shared_component_reads_fresh {U V E : Type} [DecidableEq U]
    (compute : QuickCfg U → Except E V) (heap : PSHeap) (owns : List (QuickOwn U))
    (ops : List (WOp PSHeap (QuickOwn U))) :
    ∀ r ∈ CWorld.run QuickOwn.resolve snapQuickFixed compute
        ⟨heap, owns.map (fun o => { cfg := o })⟩ ops,
      r.2.2 = compute r.2.1 ∧
      r.2.2 = (({ cfg := r.2.1 } : Cached (QuickCfg U) (SnapQ U) V).readE snapQuickFixed compute).1 := by
  intro r hr
  rw [shared_component_history_independent] at hr
  have := specRun_computes QuickOwn.resolve compute ops (heap, owns) r hr
  exact ⟨this, this.trans (fresh_readE snapQuickFixed compute r.2.1).symm⟩

/-- Samplers sharing Backend and Source objects that are changed in place -/
theorem shared_sampler_history_independent {U V E : Type} [DecidableEq U]
    (compute : SamplerCfg U → Except E V) (heap : SHeap) (owns : List (SamplerOwn U))
    (ops : List (WOp SHeap (SamplerOwn U))) :
    CWorld.run SamplerOwn.resolve snapFixed compute ⟨heap, owns.map (fun o => { cfg := o })⟩ ops =
      CWorld.specRun SamplerOwn.resolve compute (heap, owns) ops :=
  shared_history_independent SamplerOwn.resolve snapFixed compute
    (snapFixed_factors compute) heap owns ops

/-- two QuickSamplers hold the SAME PostSelection object 7; holder 0 is read, a rule is added in
place, both are read, a third holder of the object is created and read (holder 5 does not exist) -/
example :
    let o : QuickOwn Nat := ⟨0, 3, [], [], [1, 1, 0], 7, true⟩
    let heap : PSHeap := fun _ => [([0], [1])]
    let heap' : PSHeap := PSHeap.mutate 7 [([0], [1]), ([2], [0])] heap
    (CWorld.run QuickOwn.resolve snapQuickFixed
        (fun c : QuickCfg Nat => (Except.ok c.psRules.length : Except Unit Nat))
        ⟨heap, [{ cfg := o }, { cfg := o }]⟩
        [.read 0, .mutatePS 7 [([0], [1]), ([2], [0])], .read 0, .read 1, .new o, .read 2, .read 5]).map
        (fun r => (r.1, r.2.1, r.2.2.toOption)) =
      [(0, o.resolve heap, some 1), (0, o.resolve heap', some 2), (1, o.resolve heap', some 2),
       (2, o.resolve heap', some 2)] := by
  decide

/-- with the snapshot before ab07a40 the holder that was read before the in-place change returns
the stale value, while a second holder of the same object (not read before) is right: the
disagreement between two holders of one component is finding F30 in its shared form -/
theorem F30_shared_pinned_stale_read :
    let o : QuickOwn Nat := ⟨0, 3, [], [], [1, 1, 0], 7, true⟩
    let heap : PSHeap := fun _ => [([0], [1])]
    (CWorld.run QuickOwn.resolve snapQuickPinned
        (fun c : QuickCfg Nat => (Except.ok c.psRules.length : Except Unit Nat))
        ⟨heap, [{ cfg := o }, { cfg := o }]⟩
        [.read 0, .mutatePS 7 [([0], [1]), ([2], [0])], .read 0, .read 1]).map
        (fun r => (r.1, r.2.2.toOption)) =
      [(0, some 1), (0, some 1), (1, some 2)] := by
  decide

end LW.C11
