/-
  C11 — Results depend only on the current configuration, not on history.

  Model: LW.Model.Cache.  The refinement theorem: if the computed value factors through the
  snapshot, then after ANY history of reconfigurations and reads every read returns exactly what a
  fresh object with the current configuration computes.  The repaired snapshot determines the
  whole configuration, so every computation factors through it; the pinned snapshot (without
  heralds / mode count) does not, with a concrete witness.
-/
import LW.Model.Cache

namespace LW.C11

open Cached

variable {Cfg Snap Val : Type} [DecidableEq Snap]

/-- cache invariant: a stored value is the computation of some configuration with that snapshot -/
def Inv (snap : Cfg → Snap) (compute : Cfg → Val) (s : Cached Cfg Snap Val) : Prop :=
  ∀ k v, s.cache = some (k, v) → ∃ c, snap c = k ∧ v = compute c

theorem read_correct (snap : Cfg → Snap) (compute : Cfg → Val)
    (hf : ∀ c1 c2, snap c1 = snap c2 → compute c1 = compute c2)
    (s : Cached Cfg Snap Val) (hs : Inv snap compute s) :
    (s.read snap compute).1 = compute s.cfg ∧ Inv snap compute (s.read snap compute).2 ∧
    (s.read snap compute).2.cfg = s.cfg := by
  cases hc : s.cache with
  | none =>
    have hr : s.read snap compute = (compute s.cfg, { s with cache := some (snap s.cfg, compute s.cfg) }) := by
      simp [Cached.read, hc]
    rw [hr]
    refine ⟨rfl, ?_, rfl⟩
    intro k v h
    simp only [Option.some.injEq, Prod.mk.injEq] at h
    exact ⟨s.cfg, h.1, h.2.symm⟩
  | some kv =>
    obtain ⟨k, v⟩ := kv
    by_cases hk : k = snap s.cfg
    · have hr : s.read snap compute = (v, s) := by simp [Cached.read, hc, hk]
      rw [hr]
      obtain ⟨c, hc1, hc2⟩ := hs k v hc
      refine ⟨?_, hs, rfl⟩
      rw [hc2]
      exact hf c s.cfg (hc1.trans hk)
    · have hr : s.read snap compute = (compute s.cfg, { s with cache := some (snap s.cfg, compute s.cfg) }) := by
        simp [Cached.read, hc, hk]
      rw [hr]
      refine ⟨rfl, ?_, rfl⟩
      intro k' v' h
      simp only [Option.some.injEq, Prod.mk.injEq] at h
      exact ⟨s.cfg, h.1, h.2.symm⟩

/-- REFINEMENT: for every history, every read returns what a freshly created object with the
configuration current at that read computes. -/
theorem history_independent (snap : Cfg → Snap) (compute : Cfg → Val)
    (hf : ∀ c1 c2, snap c1 = snap c2 → compute c1 = compute c2)
    (ops : List (Op Cfg)) (s : Cached Cfg Snap Val) (hs : Inv snap compute s) :
    ∀ cv ∈ run snap compute s ops, cv.2 = compute cv.1 := by
  induction ops generalizing s with
  | nil => intro cv h; simp [run] at h
  | cons op ops ih =>
    intro cv h
    cases op with
    | reconfig f =>
      simp only [run, step] at h
      exact ih _ (by intro k v hkv; exact hs k v hkv) cv h
    | read =>
      simp only [run, step] at h
      obtain ⟨h1, h2, h3⟩ := read_correct snap compute hf s hs
      rcases List.mem_cons.mp h with h | h
      · rw [h]; simp only; rw [h1, h3]
      · exact ih _ h2 cv h

/-- a fresh object satisfies the invariant (sampling works without a prior read: the first read
computes) -/
theorem fresh_inv (snap : Cfg → Snap) (compute : Cfg → Val) (c : Cfg) :
    Inv snap compute ({ cfg := c } : Cached Cfg Snap Val) := by
  intro k v h; simp at h

theorem fresh_read (snap : Cfg → Snap) (compute : Cfg → Val) (c : Cfg) :
    (({ cfg := c } : Cached Cfg Snap Val).read snap compute).1 = compute c := rfl

/-- the repaired snapshot determines the configuration, so EVERY computation factors through it -/
theorem snapFixed_factors {U : Type} {V : Type} (compute : SamplerCfg U → V)
    (c1 c2 : SamplerCfg U) (h : snapFixed c1 = snapFixed c2) : compute c1 = compute c2 := by
  have : c1 = c2 := by
    cases c1; cases c2
    simp only [snapFixed, SnapF.mk.injEq] at h
    obtain ⟨h1, h2, h3, h4, h5, h6, h7⟩ := h
    subst h1 h2 h3 h4 h5 h6 h7
    rfl
  rw [this]

/-- hence a Sampler with the repaired snapshot is history independent for any `compute` -/
theorem sampler_history_independent {U V : Type} [DecidableEq U] (compute : SamplerCfg U → V)
    (ops : List (Op (SamplerCfg U))) (c : SamplerCfg U) :
    ∀ cv ∈ run snapFixed compute ({ cfg := c } : Cached (SamplerCfg U) _ V) ops,
      cv.2 = compute cv.1 :=
  history_independent snapFixed compute (snapFixed_factors compute) ops _ (fresh_inv _ _ c)

/-- the pinned snapshot does not determine the distribution: two configurations that differ only
in the herald photon number have the same pinned snapshot (finding F10) -/
theorem F10_pinned_counterexample :
    ∃ c1 c2 : SamplerCfg Nat, snapPinned c1 = snapPinned c2 ∧ c1.inHer ≠ c2.inHer :=
  ⟨⟨0, 3, [(2, 0)], [(2, 0)], [1, 0], 0, []⟩, ⟨0, 3, [(2, 1)], [(2, 1)], [1, 0], 0, []⟩, rfl, by decide⟩

/-- … and with it a stale read really happens: reading, switching the herald photon number and
reading again returns the OLD value although a fresh object computes a different one. -/
theorem F10_pinned_stale_read :
    let c1 : SamplerCfg Nat := ⟨0, 3, [(2, 0)], [(2, 0)], [1, 0], 0, []⟩
    let c2 : SamplerCfg Nat := ⟨0, 3, [(2, 1)], [(2, 1)], [1, 0], 0, []⟩
    let compute : SamplerCfg Nat → List (Nat × Nat) := fun c => c.inHer
    run snapPinned compute ({ cfg := c1 } : Cached (SamplerCfg Nat) _ _)
        [.read, .reconfig (fun _ => c2), .read] = [(c1, [(2, 0)]), (c2, [(2, 0)])] := by
  decide

end LW.C11
