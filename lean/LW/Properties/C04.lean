/-
  C04 (part A) — structure of the sampler distribution: non-negativity, photon bound, one entry per
  pattern, and "each pattern gets its total probability summed over every way the remaining
  photons can have been lost".  Model: LW.Model.Dist.
-/
import LW.Proofs.C04a
import LW.Proofs.C04b

namespace LW.C04

variable {K Q : Type} [CommRing K] [Field Q] [LinearOrder Q] [IsStrictOrderedRing Q]

/-- every probability in the distribution is non-negative (both backends, any truncation ≥ 0) -/
theorem fullDist_nonneg (b : BackendKind) (nsq : K → Q) (hn : ∀ z, 0 ≤ nsq z) (eps : Q) (heps : 0 ≤ eps)
    (U : M K) (nReal : Nat) (input : FState) :
    ∀ x ∈ fullDist b nsq eps U nReal input, 0 ≤ x.2 :=
  Proofs.C04a.fullDist_nonneg b nsq hn eps heps U nReal input

/-- every pattern lives on the circuit's own modes and holds at most the injected photons -/
theorem fullDist_keys (b : BackendKind) (nsq : K → Q) (eps : Q) (U : M K) (nReal : Nat)
    (input : FState) (hlen : input.length = nReal) (hU : nReal ≤ U.n) (hpos : 0 < nReal) :
    ∀ x ∈ fullDist b nsq eps U nReal input, x.1.length = nReal ∧ photons x.1 ≤ photons input :=
  Proofs.C04a.fullDist_keys b nsq eps U nReal input hlen hU hpos

/-- each pattern occurs once -/
theorem fullDist_keys_nodup (b : BackendKind) (nsq : K → Q) (eps : Q) (U : M K) (nReal : Nat)
    (input : FState) : ((fullDist b nsq eps U nReal input).map (·.1)).Nodup :=
  Proofs.C04a.fullDist_keys_nodup b nsq eps U nReal input

/-- MARGINALISATION (permanent backend): a pattern with at least one photon on the circuit's modes
gets the sum, over all configurations of the loss modes, of the transition probabilities that
survive the truncation -/
theorem fullDistPermanent_marginal (nsq : K → Q) (eps : Q) (U : M K) (nReal : Nat) (input : FState)
    (hin : photons input ≠ 0) (r : FState) (hr : photons r ≠ 0) :
    let inS := input ++ List.replicate (U.n - nReal) 0
    ((fullDistPermanent nsq eps U nReal input).get? r).getD 0 =
      (((fockBasis inS.length (photons inS)).filter fun o =>
          o.take nReal = r ∧ eps < transProb nsq U inS o).map (transProb nsq U inS)).sum :=
  Proofs.C04a.fullDistPermanent_marginal nsq eps U nReal input hin r hr

/-- … and the all-lost pattern gets exactly the remaining probability when the circuit has loss
modes, so the distribution of a lossy circuit sums to one for every truncation threshold -/
theorem fullDistPermanent_total_lossy (nsq : K → Q) (hn : ∀ z, 0 ≤ nsq z) (eps : Q) (U : M K)
    (nReal : Nat) (input : FState) (hloss : nReal < U.n)
    (hlt : (((fockBasis (input.length + (U.n - nReal)) (photons input)).filter fun o =>
            photons (o.take nReal) ≠ 0 ∧
            eps < transProb nsq U (input ++ List.replicate (U.n - nReal) 0) o).map
          (transProb nsq U (input ++ List.replicate (U.n - nReal) 0))).sum < 1) :
    (fullDistPermanent nsq eps U nReal input).total = 1 :=
  Proofs.C04a.fullDistPermanent_total_lossy nsq hn eps U nReal input hloss hlt

/-- mixing over source inputs keeps non-negativity -/
theorem pdistCalc_nonneg (b : BackendKind) (nsq : K → Q) (hn : ∀ z, 0 ≤ nsq z) (eps : Q) (heps : 0 ≤ eps)
    (U : M K) (nReal : Nat) (inputs : List (FState × Q)) (hw : ∀ x ∈ inputs, 0 ≤ x.2) :
    ∀ x ∈ pdistCalc b nsq eps U nReal inputs, 0 ≤ x.2 :=
  Proofs.C04a.pdistCalc_nonneg b nsq hn eps heps U nReal inputs hw

/-! ## part B: the backends agree; exact normalisation -/

section PartB

variable {K Q : Type}

/-- SLOS = PERMANENT at amplitude level: the layer recursion computes, for every output `t` of the
right photon number, the permanent divided by `t!` (`φ(t)·t! = perm U[t|s]`) -/
theorem slos_eq_permanent [CommRing K] (U : M K) (hN : 0 < U.n) (s t : FState)
    (hs : s.length = U.n) (ht : t.length = U.n) (hp : photons t = photons s) :
    ampNum U s t = ((factProd t : Nat) : K) * slosGet (slosPhi U s) t :=
  Proofs.C04b.slos_eq_permanent U hN s t hs ht hp

/-- … hence both backends assign the same probability to every pattern that keeps at least one
photon on the circuit's modes, for every truncation threshold.  `nsq` is a multiplicative
squared modulus (`|ab|² = |a|²|b|²`, `|n|² = n²`). -/
theorem backends_agree [CommRing K] [Field Q] [LinearOrder Q] [IsStrictOrderedRing Q]
    (nsq : K → Q) (hmul : ∀ a b, nsq (a * b) = nsq a * nsq b) (hnat : ∀ n : Nat, nsq (n : K) = (n : Q) * (n : Q))
    (eps : Q) (U : M K) (nReal : Nat) (input : FState) (hlen : input.length = nReal) (hU : nReal ≤ U.n)
    (hpos : 0 < nReal) (r : FState) (hr : photons r ≠ 0) :
    ((fullDistSlos nsq eps U nReal input).get? r).getD 0 =
      ((fullDistPermanent nsq eps U nReal input).get? r).getD 0 :=
  Proofs.C04b.backends_agree nsq hmul hnat eps U nReal input hlen hU hpos r hr

/-- NORMALISATION: without truncation the distribution of a unitary circuit sums to exactly one
(both backends).  `ι` embeds probabilities into amplitudes with `ι |z|² = z·z̄`. -/
theorem fullDist_total_one [Field K] [StarRing K] [CharZero K] [Field Q] [LinearOrder Q]
    [IsStrictOrderedRing Q] (nsq : K → Q) (ι : Q →+* K) (hι : Function.Injective ι)
    (hnsq : ∀ z, ι (nsq z) = z * star z) (hn : ∀ z, 0 ≤ nsq z)
    (b : BackendKind) (U : M K) (hU : IsUnitary U) (nReal : Nat) (input : FState)
    (hlen : input.length = nReal) (hle : nReal ≤ U.n) (hpos : 0 < nReal) :
    (fullDist b nsq 0 U nReal input).total = 1 :=
  Proofs.C04b.fullDist_total_one nsq ι hι hnsq hn b U hU nReal input hlen hle hpos

/-- a mixture over source inputs whose weights sum to one is normalised as well -/
theorem pdistCalc_total_one [Field K] [StarRing K] [CharZero K] [Field Q] [LinearOrder Q]
    [IsStrictOrderedRing Q] (nsq : K → Q) (ι : Q →+* K) (hι : Function.Injective ι)
    (hnsq : ∀ z, ι (nsq z) = z * star z) (hn : ∀ z, 0 ≤ nsq z)
    (b : BackendKind) (U : M K) (hU : IsUnitary U) (nReal : Nat) (hle : nReal ≤ U.n) (hpos : 0 < nReal)
    (inputs : List (FState × Q)) (hin : ∀ x ∈ inputs, x.1.length = nReal ∧ 0 ≤ x.2)
    (hw : (inputs.map (·.2)).sum = 1) :
    (pdistCalc b nsq 0 U nReal inputs).total = 1 :=
  Proofs.C04b.pdistCalc_total_one nsq ι hι hnsq hn b U hU nReal hle hpos inputs hin hw


end PartB

end LW.C04
