import LW.Model.Dist

namespace LW.C04

/-- interim (replaced by the real theorems): the vacuum input gives the vacuum with certainty -/
theorem fullDist_vacuum (U : M GQ) (n : Nat) (s : FState) (h : photons s = 0) (eps : Rat) :
    fullDistPermanent GQ.normSq eps U n s = [(List.replicate n 0, 1)] := by
  simp [fullDistPermanent, h]

end LW.C04
