import LW.Model.Rewrite

namespace LW.C09

/-- interim (replaced by the real theorems): unpacking an empty spec gives the empty spec -/
theorem unpack_nil {K : Type} : unpackSpec ([] : List (Comp K)) = [] := rfl

end LW.C09
