/-
  C09 — Circuit rewrites preserve the transformation.

  `compile` is the model of the circuit compiler, `unpackSpec`, `compressSwaps`, `convertNonAdj`
  the models of the three rewrites (LW.Model.Circuit / LW.Model.Rewrite).  Heralds, `n` and the
  input size are fields of `Circ` that the rewrites do not touch (`*_keeps_heralds`), so equality
  of `compile` is equality of `U_full` and of every heralded transition amplitude.
  `copy` is the identity on the model: model values are immutable, so a copy shares no mutable
  structure by construction; the aliasing clause is checked on the implementation by the harness.
-/
import LW.Proofs.C09

namespace LW.C09

variable {K : Type} [CommRing K] [StarRing K]

/-- unpacking groups leaves `U_full` unchanged, for every spec -/
theorem unpack_compile (i : K) (n : Nat) (spec : List (Comp K)) :
    compile i n (unpackSpec spec) = compile i n spec :=
  Proofs.C09.unpack_compile i n spec

/-- after unpacking no group remains -/
theorem unpack_no_group (spec : List (Comp K)) :
    ∀ c ∈ unpackSpec spec, ∃ p, c = .prim p :=
  Proofs.C09.unpack_no_group spec

/-- `unpack_groups` keeps mode count and heralds (ancillas become ordinary heralded modes) -/
theorem unpackGroups_keeps (c : Circ K) :
    c.unpackGroups.n = c.n ∧ c.unpackGroups.inHer = c.inHer ∧ c.unpackGroups.outHer = c.outHer ∧
    c.unpackGroups.inputModes = c.inputModes :=
  Proofs.C09.unpackGroups_keeps c

/-- replacing non-adjacent beam splitters leaves `U_full` unchanged -/
theorem convertNonAdj_compile (i : K) (n : Nat) (spec : List (Comp K)) (h : SpecWf n spec) :
    compile i n (convertNonAdj spec) = compile i n spec :=
  Proofs.C09.convertNonAdj_compile i n spec h

/-- afterwards every beam splitter, also inside groups, acts on adjacent modes -/
theorem convertNonAdj_adjacent (spec : List (Comp K)) :
    ∀ c ∈ convertNonAdj spec, ∀ p ∈ c.toPrims, ∀ m1 m2 cc ss cv, p = Prim.bs m1 m2 cc ss cv →
      m1 + 1 = m2 ∨ m2 + 1 = m1 :=
  Proofs.C09.convertNonAdj_adjacent spec

/-- swap compression never increases the number of components -/
theorem compress_length_le (spec : List (Comp K)) :
    (compressSwaps spec).length ≤ spec.length :=
  Proofs.C09.compress_length_le spec

/-- combining two swap dictionaries composes the permutations: `P(combine σ τ) = P(τ) · P(σ)` -/
theorem combine_permMat (n : Nat) (σ τ : Dict) (hσ : SwapsOk n σ) (hτ : SwapsOk n τ) :
    (permMat (combineSwapDicts σ τ) n : M K) = (permMat τ n).mul (permMat σ n) :=
  Proofs.C09.combine_permMat n σ τ hσ hτ

/-- ORIGINAL statement of `compress_compile`, kept for the record.  It is FALSE as stated
(`compress_compile_statement_false`): `SpecWf` does not confine the leaf components of a group to
the group's declared mode range `[m1, m2]`, which is all that `Comp.blocked` looks at.  Witness
(`Proofs.C09.cexSpec`, `K = ℤ`, `n = 4`):
`[swaps {0:1,1:0}, group [ps 0 (-1)] 2 3, swaps {0:1,1:0}]`. -/
def compress_compile_statement : Prop :=
  ∀ {K : Type} [CommRing K] [StarRing K] (i : K) (n : Nat) (spec : List (Comp K)),
    SpecWf n spec → compile i n (compressSwaps spec) = compile i n spec

theorem compress_compile_statement_false : ¬ compress_compile_statement :=
  Proofs.C09.compress_compile_statement_false

/-- swap compression leaves `U_full` unchanged, provided the leaf components of every group act
inside the group's declared mode range (`SpecGroupOk`, LW/Proofs/GroupWf.lean; the intended
invariant of groups built by `Circuit.add`, not proved here) -/
theorem compress_compile_partial (i : K) (n : Nat) (spec : List (Comp K)) (h : SpecWf n spec)
    (hg : SpecGroupOk spec) :
    compile i n (compressSwaps spec) = compile i n spec :=
  Proofs.C09.compress_compile_partial i n spec h hg

/-- the rewrites do not touch heralds, mode count or input size -/
theorem rewrites_keep_heralds (c : Circ K) :
    (c.compress.n = c.n ∧ c.compress.inHer = c.inHer ∧ c.compress.outHer = c.outHer) ∧
    (c.removeNonAdj.n = c.n ∧ c.removeNonAdj.inHer = c.inHer ∧ c.removeNonAdj.outHer = c.outHer) ∧
    c.copy = c :=
  Proofs.C09.rewrites_keep_heralds c

end LW.C09
