/-
  C16 (continued) — the maximum-likelihood tomography "returns a positive, trace-preserving Choi
  matrix": the projection steps and the outer loop of `MLETomographyAlgorithm`
  (`_tp_proj`, `_cp_proj`, `_cptp_proj`, the update rule of `pgdb`), model LW.Model.MLEProj.
  Proofs: LW/Proofs/C16Proj.lean (TP step, any field), LW/Proofs/C16ProjCP.lean (CP step and the
  loops, over ℂ with Mathlib's `Matrix.PosSemidef`).

  Proved, for every dimension `d` (`d = 2ⁿ` in the code), every input matrix, every data set
  (= every gradient), every accepted step size in `[0,1]`, every number of iterations of either
  loop and every stopping rule:
    * `_tp_proj` returns a matrix whose partial trace is the identity (`tp_proj_trace_preserving`),
      changes nothing on a matrix that already has this property (`tp_proj_fixes_trace_preserving`,
      hence idempotent), keeps Hermitian matrices Hermitian (`tp_proj_keeps_hermitian`) and is the
      ORTHOGONAL (Frobenius-nearest) projection onto that set (`tp_proj_orthogonal`);
    * `_cp_proj` returns a positive semi-definite matrix whatever `eigh` returned
      (`cp_proj_positive`); with the documented contract of `eigh` the part removed is negative
      semi-definite and orthogonal to the part kept (`cp_proj_moreau`: the result is the nearest
      positive semi-definite matrix), and a matrix with non-negative spectrum is returned unchanged;
    * `_cptp_proj` returns an output of `_cp_proj`, hence a positive semi-definite matrix
      (`cptp_proj_positive`);
    * `pgdb` returns a positive semi-definite matrix (`pgdb_returns_positive`) — the "positive"
      half of the property's MLE clause, with no assumption on convergence;
    * trace preservation is an invariant of `pgdb` as soon as the projection is exactly trace
      preserving (`pgdb_trace_preserving_invariant`), and in general the deviation of an iterate
      from trace preservation is the convex combination of the deviations of the previous iterate
      and of the projected point (`pgdb_tp_defect_affine`).
  PARTIAL: `_cptp_proj` ends on the CP step, so its result is trace preserving only up to the
  stopping tolerance of Dykstra's iteration (1e-4 on the squared increments); convergence of
  Dykstra's iteration and of the projected gradient descent (the 0.99 fidelity bound) is analysis
  outside this model and is checked on the implementation by the correspondence check only.
-/
import LW.Proofs.C16ProjCP

open scoped BigOperators ComplexOrder

namespace LW.C16

open LW.Tomo

section AnyField
variable {K : Type} [Field K] [StarRing K] [DecidableEq K]

/-- `_tp_proj` lands in the trace-preserving matrices: `Σ_b out[a·d+b, c·d+b] = δ_{ac}`. -/
theorem tp_proj_trace_preserving (d : Nat) (A : M K) (hA : A.n = d * d) (hd : (d : K) ≠ 0)
    {a c : Nat} (ha : a < d) (hc : c < d) :
    (partialTrace d (tpProj d A)).get a c = if a = c then 1 else 0 :=
  tpProj_tracePreserving d A hA hd ha hc

/-- `_tp_proj` is the identity on trace-preserving matrices. -/
theorem tp_proj_fixes_trace_preserving (d : Nat) (A : M K) (hA : A.n = d * d)
    (hTP : ∀ a c, a < d → c < d → (partialTrace d A).get a c = if a = c then 1 else 0)
    {a b c e : Nat} (ha : a < d) (hb : b < d) (hc : c < d) (he : e < d) :
    (tpProj d A).get (a * d + b) (c * d + e) = A.get (a * d + b) (c * d + e) :=
  tpProj_fixes_tp d A hA hTP ha hb hc he

theorem tp_proj_idempotent (d : Nat) (A : M K) (hA : A.n = d * d) (hd : (d : K) ≠ 0)
    {a b c e : Nat} (ha : a < d) (hb : b < d) (hc : c < d) (he : e < d) :
    (tpProj d (tpProj d A)).get (a * d + b) (c * d + e) = (tpProj d A).get (a * d + b) (c * d + e) :=
  tpProj_idempotent d A hA hd ha hb hc he

theorem tp_proj_keeps_hermitian (d : Nat) (A : M K) (hA : A.n = d * d)
    (hH : ∀ r k, r < A.n → k < A.n → star (A.get r k) = A.get k r)
    {a b c e : Nat} (ha : a < d) (hb : b < d) (hc : c < d) (he : e < d) :
    star ((tpProj d A).get (a * d + b) (c * d + e)) = (tpProj d A).get (c * d + e) (a * d + b) :=
  tpProj_hermitian d A hA hH ha hb hc he

/-- `_tp_proj` is the ORTHOGONAL projection onto the trace-preserving matrices: for every
trace-preserving `T` the part removed, `A − _tp_proj(A)`, is Frobenius-orthogonal to
`T − _tp_proj(A)` (so `_tp_proj(A)` is the trace-preserving matrix nearest to `A`, which is what
Dykstra's iteration in `_cptp_proj` requires of its two projections). -/
theorem tp_proj_orthogonal (d : Nat) (A T : M K) (hA : A.n = d * d) (hT : T.n = d * d)
    (hd : (d : K) ≠ 0)
    (hTP : ∀ a c, a < d → c < d → (partialTrace d T).get a c = if a = c then 1 else 0) :
    ∑ r ∈ Finset.range (d * d), ∑ k ∈ Finset.range (d * d),
        star ((msub A (tpProj d A)).get r k) * (msub T (tpProj d A)).get r k = 0 :=
  tpProj_orthogonal d A T hA hT hd hTP

/-- the TP defect of `choi + α·(proj − choi)` is the convex combination of the two defects -/
theorem pgdb_tp_defect_affine (d : Nat) (A B : M K) (alpha : K) (hA : A.n = d * d) (hB : B.n = d * d)
    {a c : Nat} (ha : a < d) (hc : c < d) :
    (partialTrace d (madd A (scale alpha (msub B A)))).get a c
      = (partialTrace d A).get a c
        + alpha * ((partialTrace d B).get a c - (partialTrace d A).get a c) :=
  partialTrace_affine d A B alpha hA hB ha hc

/-- with an exactly trace-preserving projection every `pgdb` iterate is trace preserving -/
theorem pgdb_trace_preserving_invariant (d : Nat) (hd : (d : K) ≠ 0) (proj grad : M K → M K)
    (muInv : K)
    (hproj : ∀ X, X.n = d * d → (proj X).n = d * d ∧
      ∀ a c, a < d → c < d → (partialTrace d (proj X)).get a c = if a = c then 1 else 0)
    (alphas : List K) {a c : Nat} (ha : a < d) (hc : c < d) :
    (partialTrace d (pgdbRun proj grad muInv alphas (pgdbInit d))).get a c
      = if a = c then 1 else 0 :=
  (pgdbRun_tracePreserving d proj grad muInv hproj alphas (pgdbInit d) (by simp [pgdbInit])
    (fun _ _ ha' hc' => pgdbInit_tracePreserving d hd ha' hc')).2 a c ha hc

end AnyField

/-- `_cp_proj` returns a positive semi-definite matrix for ANY `(vals, vecs)`. -/
theorem cp_proj_positive (vals : List ℂ) (V : M ℂ) (n : Nat) (hV : V.n = n) (hl : vals.length = n) :
    ((cpProjFrom clipC vals V).toMatN n).PosSemidef :=
  cpProj_posSemidef vals V n hV hl

/-- Moreau decomposition of `A = vecs·diag(vals)·vecs†` (`vals` real, `vecs` unitary):
`A = P + N`, `P = _cp_proj(A) ⪰ 0`, `N ⪯ 0`, `P·N = 0` — `P` is the nearest PSD matrix. -/
theorem cp_proj_moreau (vals : List ℂ) (hre : ∀ v ∈ vals, v.im = 0) (V : M ℂ) (n : Nat)
    (hV : V.n = n) (hl : vals.length = n)
    (hU : (V.toMatN n).conjTranspose * V.toMatN n = 1) :
    (cpProjFrom clipC vals V).toMatN n + (cpProjFrom clipNegC vals V).toMatN n
        = (cpProjFrom id vals V).toMatN n ∧
      ((cpProjFrom clipC vals V).toMatN n).PosSemidef ∧
      (-(cpProjFrom clipNegC vals V).toMatN n).PosSemidef ∧
      (cpProjFrom clipC vals V).toMatN n * (cpProjFrom clipNegC vals V).toMatN n = 0 :=
  ⟨cpProj_decomposition vals hre V n hV hl, cpProj_posSemidef vals V n hV hl,
    cpProj_removed_negSemidef vals V n hV hl, cpProj_orthogonal vals V n hV hl hU⟩

theorem cp_proj_fixes_positive (vals : List ℂ) (hre : ∀ v ∈ vals, v.im = 0 ∧ 0 ≤ v.re) (V : M ℂ) :
    cpProjFrom clipC vals V = cpProjFrom id vals V :=
  cpProj_fixes_psd vals hre V

/-- `_cptp_proj` returns a positive semi-definite matrix of the right size. -/
theorem cptp_proj_positive (d : Nat) (eigh : M ℂ → List ℂ × M ℂ) (he : EighShapes eigh (d * d))
    (iters : Nat) (A : M ℂ) (hA : A.n = d * d) :
    (cptpProj (tpProj d) (cpProjWith eigh) (d * d) iters A).n = d * d ∧
      ((cptpProj (tpProj d) (cpProjWith eigh) (d * d) iters A).toMatN (d * d)).PosSemidef :=
  cptpProj_posSemidef d eigh he iters A hA

/-- **`pgdb` returns a positive semi-definite Choi matrix.** -/
theorem pgdb_returns_positive (d : Nat) (eigh : M ℂ → List ℂ × M ℂ) (he : EighShapes eigh (d * d))
    (stop : M ℂ → Nat) (grad : M ℂ → M ℂ) (muInv : ℂ) (alphas : List ℝ)
    (hal : ∀ a ∈ alphas, 0 ≤ a ∧ a ≤ 1) :
    ((pgdbRun (fun X => cptpProj (tpProj d) (cpProjWith eigh) (d * d) (stop X) X) grad muInv
        (alphas.map Complex.ofReal) (pgdbInit d)).toMatN (d * d)).PosSemidef :=
  pgdb_posSemidef d eigh he stop grad muInv alphas hal

/-- … in particular with the step sizes the code's line search produces: `alpha = 0.5`, halved `j`
more times (`0.5^(j+1)`), whatever the numbers `j` of halvings the cost comparisons decide -/
theorem pgdb_returns_positive_halvings (d : Nat) (eigh : M ℂ → List ℂ × M ℂ)
    (he : EighShapes eigh (d * d)) (stop : M ℂ → Nat) (grad : M ℂ → M ℂ) (muInv : ℂ)
    (halvings : List Nat) :
    ((pgdbRun (fun X => cptpProj (tpProj d) (cpProjWith eigh) (d * d) (stop X) X) grad muInv
        ((halvings.map fun j => ((1 / 2 : ℝ) ^ (j + 1))).map Complex.ofReal)
        (pgdbInit d)).toMatN (d * d)).PosSemidef := by
  apply pgdb_returns_positive d eigh he stop grad muInv
  intro a ha
  simp only [List.mem_map] at ha
  obtain ⟨j, _, rfl⟩ := ha
  exact ⟨by positivity, pow_le_one₀ (by norm_num) (by norm_num)⟩

/-! ### non-vacuity -/

/-- the hypotheses of `cp_proj_moreau` are met by a concrete indefinite matrix:
`vals = [-1, 2]`, `vecs = [[3, -4],[4, 3]]/5` -/
example :
    let V : M ℂ := mat2 (3 / 5) (-4 / 5) (4 / 5) (3 / 5)
    (∀ v ∈ ([-1, 2] : List ℂ), v.im = 0) ∧ V.n = 2 ∧ ([-1, 2] : List ℂ).length = 2 ∧
      (V.toMatN 2).conjTranspose * V.toMatN 2 = 1 := by
  refine ⟨by simp, rfl, rfl, ?_⟩
  ext r k
  fin_cases r <;> fin_cases k <;>
    simp [Matrix.mul_apply, Fin.sum_univ_two, M.toMatN, mat2, M.get, M.ofFn, Complex.conj_ofNat] <;> norm_num

/-- an `eigh` of the right shapes exists (e.g. the one returning zeros), and `[1/2, 1/4]` are
admissible step sizes: `pgdb_returns_positive` is not vacuous -/
example : EighShapes (fun Y => (List.replicate Y.n 0, Y)) 4 ∧
    ∀ a ∈ ([1 / 2, 1 / 4] : List ℝ), 0 ≤ a ∧ a ≤ 1 := by
  refine ⟨fun Y hY => ⟨hY, by simp [hY]⟩, ?_⟩
  intro a ha
  simp only [List.mem_cons, List.not_mem_nil, or_false] at ha
  rcases ha with rfl | rfl <;> norm_num

end LW.C16
