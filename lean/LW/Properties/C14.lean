/-
  C14 — Reck mapping reproduces any unitary; noise enters only through the error model.

  Only the property theorems and their non-vacuity examples live here; helper lemmas are in
  LW/Proofs/C14*.lean.  Model: LW.Model.Reck (`reckDecomposition`, `bsMatrix`, `Reck.map` through the
  Circuit construction API of LW.Model.Circuit, specification `mapSpec`), LW.Model.ReckNoise
  (distributions as tape functions, `setRandomSeed`, `program`).

  The float operations of the code are the fields of `Reck.Num K`; `NumOk` / `ChecksOk` state
  what the real functions they approximate satisfy, and `real_functions_satisfy_contracts` proves
  it for arctan / cos / sin / exp / arg over ℂ written exactly as in the code, so that
  `map_U_eq_complex` has no hypothesis on them.  All statements are for every number of modes,
  every unitary, every herald dictionary of a circuit; nothing is bounded.
  Not covered by proof (trusted, exercised by the check): IEEE rounding (F16: `(-tiny) % 2π`
  rounds to `2π`), the numerical thresholds 1e-20 / 1e-10, numpy's generators.
-/
import LW.Proofs.C14

open Matrix

namespace LW.C14

open LW.Reck LW.Proofs.C14

variable {K : Type} [CommRing K] [StarRing K]

/-! ### mechanisms -/

/-- **Unit cell** (`Reck.map`: barrier, ps(φ) on mode+1, bs(½), ps(θ) on mode, bs(½)): the ordered
product of the five components on `n` modes is `bs_matrix(j, j+1, θ, φ)` of the decomposition read
in flipped mode order (`mode = n-j-2`).  `h = √½`, `x = (cos θ/2, sin θ/2, e^{iθ/2}, e^{iφ})`. -/
theorem unit_cell_identity {n j : Nat} (hj : j + 1 < n) {i h : K} (hi : IsImagUnit i)
    (hh : 2 * (h * h) = 1) {x : Cell K} (hx : CellOk i x) (a : Nat) (r k : Nat) (hr : r < n)
    (hk : k < n) :
    (orderedProd i n (flattenSpec (cellSpec (EM.ideal h) n x a j))).get r k =
      (bsMatrix i n j (j + 1) x).get (n - 1 - r) (n - 1 - k) :=
  Proofs.C14.unit_cell_identity hj hi hh hx a r k hr hk

example : CellOk Complex.I exCell := exCell_ok

/-- **Nulling step** (`unitary @ conj(tr_ij.T)`): with settings that satisfy
`cos(θ/2)·u_{ij+1} = e^{-iφ}·sin(θ/2)·u_{ij}` the entry `(loc, j)` becomes zero. -/
theorem null_step_zeroes_entry {n loc j : Nat} {i : K} (U : M K) (hU : U.n = n) (hloc : loc < n)
    (hj : j < loc) {x : Cell K} (hx : CellOk i x)
    (hnull : x.c * U.get loc (j + 1) = star x.p * x.s * U.get loc j) :
    (nullStep i U j x).get loc j = 0 :=
  Proofs.C14.null_step_zeroes_entry U hU hloc hj hx hnull

/-- both branches of the code (`abs(u_ij) < 1e-20` → `(π, 0)`, else arctan / angle) choose settings
that satisfy the nulling relation for the entries they were computed from. -/
theorem chosen_settings_null {i : K} {N : Num K} (hN : NumOk i N) (U : M K) (a j : Nat) :
    (stepCell N i U a j).c * U.get (U.n - 1 - a) (j + 1) =
      star (stepCell N i U a j).p * (stepCell N i U a j).s * U.get (U.n - 1 - a) j :=
  Proofs.C14.chosen_settings_null hN U a j

/-- after the double loop of `reck_decomposition` every entry below the diagonal is zero
(each step zeroes its entry and keeps the entries nulled before; no unitarity needed). -/
theorem nulling_loop_lower_zero {i : K} (hi : IsImagUnit i) {N : Num K} (hN : NumOk i N)
    (U : M K) (r c : Nat) (hr : r < U.n) (hcr : c < r) :
    (decompLoop N i U).U.get r c = 0 :=
  Proofs.C14.nulling_loop_lower_zero hi hN U r c hr hcr

/-- **A triangular unitary is diagonal**, with unimodular diagonal entries (the residual phases). -/
theorem nulled_unitary_diagonal {n : Nat} (X : Matrix (Fin n) (Fin n) K)
    (hX : X ∈ Matrix.unitaryGroup (Fin n) K) (hlow : ∀ r c : Fin n, c < r → X r c = 0) :
    (∀ r c : Fin n, r ≠ c → X r c = 0) ∧ ∀ r, X r r * star (X r r) = 1 :=
  Proofs.C14.nulled_unitary_diagonal X hX hlow

/-! ### the property -/

/-- **Mapping with the default error model reproduces the unitary and the heralds.**
For every circuit (`src` = its `n_modes`, `U`, `heralds`) whose `U` is unitary, `Reck().map` is
accepted by every Circuit API call it makes and returns a circuit on the same modes with the same
heralds whose `U` equals the original entry by entry. -/
theorem map_U_eq {i h : K} (hi : IsImagUnit i) (hh : 2 * (h * h) = 1) (hhr : star h = h)
    {N : Num K} (hN : NumOk i N) (hC : ChecksOk N) (src : Src K) (hn : src.U.n = src.n)
    (hU : src.U.toMatN src.n ∈ Matrix.unitaryGroup (Fin src.n) K)
    (hH : HeraldsOk src.n src.inHer src.outHer) :
    ∃ c', Reck.map N (EM.ideal h) i src = .ok c' ∧ c'.n = src.n ∧ c'.inHer = src.inHer ∧
      c'.outHer = src.outHer ∧
      ∀ r k, r < src.n → k < src.n → (c'.U i).get r k = src.U.get r k :=
  Proofs.C14.map_U_eq hi hh hhr hN hC src hn hU hH

/-- the same over ℂ with the real functions the code calls (`2*arctan(|u1|/|u0|)`,
`angle(u0)-angle(u1)`, `cos`, `sin`, `exp(1j·)`): no hypothesis on the numerics is left. -/
theorem map_U_eq_complex (src : Src ℂ) (hn : src.U.n = src.n)
    (hU : src.U.toMatN src.n ∈ Matrix.unitaryGroup (Fin src.n) ℂ)
    (hH : HeraldsOk src.n src.inHer src.outHer) :
    ∃ c', Reck.map complexNum (EM.ideal rtHalfC) Complex.I src = .ok c' ∧ c'.n = src.n ∧
      c'.inHer = src.inHer ∧ c'.outHer = src.outHer ∧
      ∀ r k, r < src.n → k < src.n → (c'.U Complex.I).get r k = src.U.get r k :=
  Proofs.C14.map_U_eq_complex src hn hU hH

/-- non-vacuity: a heralded 2-mode unitary (herald in ≠ out) meets every hypothesis -/
example : ∃ c', Reck.map complexNum (EM.ideal rtHalfC) Complex.I exSrc = .ok c' ∧ c'.n = 2 ∧
    c'.inHer = [(0, 1)] ∧ c'.outHer = [(1, 1)] ∧
    ∀ r k, r < 2 → k < 2 → (c'.U Complex.I).get r k = exU.get r k :=
  map_U_eq_complex exSrc rfl exSrc_unitary exSrc_heralds

/-- the real functions satisfy the algebraic contracts the model assumes of the float calls -/
theorem real_functions_satisfy_contracts : NumOk Complex.I complexNum ∧ ChecksOk complexNum :=
  ⟨Proofs.C14.complexNum_ok, Proofs.C14.complexNum_checks⟩

/-- the mapped circuit is exactly the Reck mesh: unit cells of adjacent-mode beam splitters and
phase shifters in loop order, a barrier, the residual phases — for every valid error model. -/
theorem map_builds_mesh {i : K} (hi : IsImagUnit i) {N : Num K} (hN : NumOk i N) (hC : ChecksOk N)
    {em : EM K} (hem : EMOk em) (src : Src K) (hn : src.U.n = src.n)
    (hU : src.U.toMatN src.n ∈ Matrix.unitaryGroup (Fin src.n) K)
    (hH : HeraldsOk src.n src.inHer src.outHer) :
    ∃ c', Reck.map N em i src = .ok c' ∧ c'.n = src.n ∧ c'.internal = [] ∧
      c'.inHer = src.inHer ∧ c'.outHer = src.outHer ∧
      c'.spec = mapSpec em src.n ((steps src.n).zip (cellsGo N i (steps src.n) (flip src.U)))
        ((List.range src.n).map fun k =>
          N.ang ((finalGo N i (steps src.n) (flip src.U)).get k k)) :=
  Proofs.C14.map_ok hi hN hC hem src hn hU hH

/-- **Noise enters only through the error model, and the result is still a valid circuit**: for
every error model whose values are valid component parameters the mapping is accepted, keeps the
heralds, every component is in its documented range and `U_full` is unitary (so `U` is a
sub-unitary block of it). -/
theorem map_valid_any_error_model {i : K} (hi : IsImagUnit i) {N : Num K} (hN : NumOk i N)
    (hC : ChecksOk N) {em : EM K} (hem : EMOk em) (src : Src K) (hn : src.U.n = src.n)
    (hU : src.U.toMatN src.n ∈ Matrix.unitaryGroup (Fin src.n) K)
    (hH : HeraldsOk src.n src.inHer src.outHer) :
    ∃ c', Reck.map N em i src = .ok c' ∧ c'.n = src.n ∧ c'.inHer = src.inHer ∧
      c'.outHer = src.outHer ∧ SpecWf c'.n c'.spec ∧ IsUnitary (c'.Ufull i) :=
  Proofs.C14.map_valid hi hN hC hem src hn hU hH

example : EMOk (EM.ideal rtHalfC) := EMOk_ideal rtHalfC_sq rtHalfC_real

/-- a circuit whose `U` fails `check_unitary` (a lossy circuit) is rejected with `ValueError`. -/
theorem map_rejects_nonunitary {N : Num K} (em : EM K) (i : K) (src : Src K)
    (h : N.isUnitary (flip src.U) = false) : Reck.map N em i src = .error .value :=
  Proofs.C14.map_rejects em i src h

/-! ### programmed numbers, bounds, seeds -/

/-- every programmed phase `(v + offset) % 2π` lies in `[0, 2π)` (exact arithmetic; the float
operation can round a tiny negative input up to `2π` — finding F16, caught by the check). -/
theorem phase_in_range (x y : Rat) (hy : 0 < y) : 0 ≤ pmod x y ∧ pmod x y < y :=
  Proofs.C14.pmod_range x y hy

/-- **Every drawn value lies within the distribution's declared bounds** (Constant: the value,
TopHat: `[min, max]`, Gaussian: the resampling loop's exit condition), and drawing only advances
the generator. -/
theorem draws_within_bounds (d : Dist) (t t' : Tape) (v : Rat) (ht : TapeOk d t)
    (h : d.value t = some (v, t')) : d.within v ∧ t' <:+ t :=
  Proofs.C14.value_within d t t' v ht h

example : (Dist.topHat (2 / 5) (3 / 5)).value [1 / 2, 1 / 4] = some (1 / 2, [1 / 4]) := by
  decide +kernel

example : (Dist.gaussian 0 (1 / 10) (some (-1 / 5)) (some (1 / 5))).value [3 / 10, 1 / 10] =
    some (1 / 10, []) := by decide +kernel

/-- `TopHat(min, max)` / `Gaussian(…, min, max)` with `max < min` raise `ValueError`. -/
theorem distribution_rejects_inverted_bounds (c dv lo hi : Rat) (h : hi < lo) :
    mkTopHat lo hi = .error .value ∧ mkGaussian c dv (some lo) (some hi) = .error .value :=
  Proofs.C14.constructors_reject c dv lo hi h

/-- everything `Reck.map` programs from an error model: phases in `[0, 2π)`, reflectivities and
losses inside the declared bounds, one parameter set per unit cell. -/
theorem programmed_bounds (twoPi : Rat) (h2 : 0 < twoPi) (e e' : EMS) (A : Angles) (P : Programmed)
    (hb : TapeOk e.bs e.tBs) (hl : TapeOk e.loss e.tLoss)
    (h : program twoPi e A = some (P, e')) :
    (∀ c ∈ P.cells, (0 ≤ c.phi ∧ c.phi < twoPi) ∧ (0 ≤ c.theta ∧ c.theta < twoPi) ∧
      e.bs.within c.r1 ∧ e.bs.within c.r2 ∧ e.loss.within c.loss) ∧
    (∀ p ∈ P.ends, 0 ≤ p ∧ p < twoPi) ∧ P.cells.length = A.cells.length :=
  Proofs.C14.program_bounds twoPi h2 e e' A P hb hl h

example : ((program (44 / 7) exEMS ⟨[(1, 2)], [3]⟩).map fun r => r.1.cells.length) = some 1 := by
  decide +kernel

/-- **The same seed gives the same mapped circuit**: two error models with equal distributions,
whatever their generators did before, program the same parameters when mapped with the same
integer seed (`_set_random_seed` re-seeds every distribution that has a generator, Constant has
none and reads none). -/
theorem seed_determinism (gen : Nat → Dist → Tape) (seedInts : Nat → List Nat) (twoPi : Rat)
    (e1 e2 : EMS) (hbs : e1.bs = e2.bs) (hloss : e1.loss = e2.loss) (hoff : e1.off = e2.off)
    (seed : Nat) (A : Angles) :
    (mapParams gen seedInts twoPi e1 seed A).map Prod.fst =
      (mapParams gen seedInts twoPi e2 seed A).map Prod.fst :=
  Proofs.C14.seed_determinism gen seedInts twoPi e1 e2 hbs hloss hoff seed A

end LW.C14
