/-
  Reachability: every circuit that can be built through the construction API satisfies the
  hypotheses under which the C01 / C02 / C09 theorems are stated, so those theorems hold for
  "any constructible circuit" without side conditions.
-/
import LW.Proofs.Reach

namespace LW.Reachable

variable {K : Type} [CommRing K] [StarRing K]

/-- every constructible circuit satisfies the bookkeeping invariant (C02) -/
theorem reach_WF (c : Circ K) (h : Reach c) : c.WF := Proofs.Reach.reach_WF c h

/-- … its components lie in the documented parameter ranges (hypothesis of C01/C09) -/
theorem reach_SpecWf (c : Circ K) (h : Reach c) : SpecWf c.n c.spec := Proofs.Reach.reach_SpecWf c h

/-- … and every group spans the modes of its members (hypothesis of C09 swap compression) -/
theorem reach_SpecGroupOk (c : Circ K) (h : Reach c) : SpecGroupOk c.spec :=
  Proofs.Reach.reach_SpecGroupOk c h

/-- hence: `U_full` of every constructible circuit is unitary … -/
theorem reach_unitary (i : K) (hi : IsImagUnit i) (c : Circ K) (h : Reach c) :
    IsUnitary (c.Ufull i) := Proofs.Reach.reach_unitary i hi c h

/-- … and swap compression never changes it. -/
theorem reach_compress (i : K) (c : Circ K) (h : Reach c) :
    c.compress.Ufull i = c.Ufull i := Proofs.Reach.reach_compress i c h

end LW.Reachable
