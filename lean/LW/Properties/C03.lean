import LW.Model.Fock

namespace LW.C03

/-- interim (replaced by the real theorems): the one-mode Fock basis is the single state `[n]` -/
theorem fockBasis_one (n : Nat) : fockBasis 1 n = [[n]] := rfl

end LW.C03
