/-
  C03 — Simulator amplitudes are the bosonic Fock-space amplitudes of the circuit.

  Model: LW.Model.Fock.  `ampNum U s t` is the numerator of the amplitude ⟨t|Φ(U)|s⟩ and
  `ampNormSq s t = ∏ s! ∏ t!` the square of its denominator (the model never takes square roots).
-/
import LW.Proofs.C03
import LW.Proofs.FockIso
import LW.Proofs.C03Bunch

namespace LW.C03

open Matrix
open scoped BigOperators

variable {K : Type}

/-- `fock_basis(N, n)` enumerates exactly the occupations of `N ≥ 1` modes with `n` photons … -/
theorem fockBasis_complete (N n : Nat) (hN : 0 < N) (s : FState) :
    s ∈ fockBasis N n ↔ s.length = N ∧ photons s = n :=
  Proofs.C03.fockBasis_complete N n hN s

/-- … each exactly once -/
theorem fockBasis_nodup (N n : Nat) : (fockBasis N n).Nodup := Proofs.C03.fockBasis_nodup N n

/-- the model's recursive permanent is Mathlib's permanent of the row/column-selected matrix -/
theorem permRC_eq_permanent [CommRing K] (U : M K) (k : Nat) (rows cols : Fin k → Nat) :
    permRC U (List.ofFn rows) (List.ofFn cols) =
      Matrix.permanent (Matrix.of fun a b => U.get (rows a) (cols b)) :=
  Proofs.C03.permRC_eq_permanent U k rows cols

/-- the index list of a state repeats each mode by its occupation: it has one entry per photon
and contains mode `m` exactly `s[m]` times -/
theorem partitionIdx_spec (s : FState) :
    (partitionIdx s).length = photons s ∧ ∀ m, (partitionIdx s).count m = s.getD m 0 :=
  Proofs.C03.partitionIdx_spec s

/-- every amplitude the simulator returns is the permanent of the photon-indexed sub-matrix of
`U_full` with herald photons inserted on the heralded input/output modes and vacuum on the loss
modes, together with the product of all occupation factorials -/
theorem simulate_eq_formula [CommRing K] (i : K) (c : Circ K) (ins : List (List Occ))
    (outs : Option (List (List Occ))) (r : SimResult K) (h : simulate i c ins outs = .ok r) :
    let U := c.Ufull i
    let z := List.replicate (U.n - c.n) 0
    r.amps = r.inputs.map fun s => r.outputs.map fun t =>
      (ampNum U (addHeralds s c.inHer ++ z) (addHeralds t c.outHer ++ z),
       ampNormSq (addHeralds s c.inHer ++ z) (addHeralds t c.outHer ++ z)) :=
  Proofs.C03.simulate_eq_formula i c ins outs r h

/-- input validation: a state is accepted iff it has the right length and every entry is a
non-negative integer; otherwise the error class is decided by the first offence in the order
length, then per entry type before sign -/
theorem validateState_ok_iff (im : Nat) (s : List Occ) (t : FState) :
    validateState im s = .ok t ↔ s.length = im ∧ s = t.map fun k => Occ.int (k : Int) :=
  Proofs.C03.validateState_ok_iff im s t

theorem validateState_wrong_length (im : Nat) (s : List Occ) (h : s.length ≠ im) :
    validateState im s = .error .modeMismatch :=
  Proofs.C03.validateState_wrong_length im s h

/-- a simulation is refused (never computed) when an input is malformed, and when photon numbers
of inputs/outputs differ -/
theorem simulate_rejects [CommRing K] (i : K) (c : Circ K) (ins : List (List Occ))
    (outs : Option (List (List Occ)))
    (h : (∃ s ∈ ins, ∀ t, validateState c.inputModes s ≠ .ok t) ∨
         (∃ os, outs = some os ∧ ∃ s ∈ os, ∀ t, validateState c.inputModes s ≠ .ok t)) :
    ∃ e, simulate i c ins outs = .error e :=
  Proofs.C03.simulate_rejects i c ins outs h

theorem simulate_rejects_photon_mismatch [CommRing K] (i : K) (c : Circ K) (s1 s2 : FState)
    (h1 : s1.length = c.inputModes) (h2 : s2.length = c.inputModes) (hne : photons s1 ≠ photons s2) :
    simulate i c [s1.map fun k => Occ.int k, s2.map fun k => Occ.int k] none = .error .photonNumber :=
  Proofs.C03.simulate_rejects_photon_mismatch i c s1 s2 h1 h2 hne

/-- FOCK ISOMETRY: for a unitary `U` the squared amplitudes from one input to all outputs of the
same photon number sum to one (`|amp|² = ampNum·star ampNum / ampNormSq`) -/
theorem amplitudes_unit_vector [Field K] [StarRing K] [CharZero K] (U : M K) (hU : IsUnitary U)
    (hN : 0 < U.n) (s : FState) (hs : s.length = U.n) :
    ((fockBasis U.n (photons s)).map fun t =>
        ampNum U s t * star (ampNum U s t) / ((ampNormSq s t : Nat) : K)).sum = 1 :=
  Proofs.FockIso.amplitudes_unit_vector U hU hN s hs

/-- permanent of a rank-one matrix: `perm(a bᵀ) = k! · ∏ a · ∏ b` -/
theorem permanent_rank_one [CommRing K] {k : Nat} (a b : Fin k → K) :
    Matrix.permanent (Matrix.of fun i j => a i * b j)
      = (k.factorial : K) * (∏ i, a i) * ∏ j, b j :=
  Proofs.C03.permanent_rank_one a b

/-- all `k` photons enter through one mode `c` (any `k`, e.g. far beyond the photon numbers an
`n!`-term permanent can be evaluated for): the amplitude numerator towards an output whose photons
sit in modes `rows` is `k! · ∏ᵣ U[rowsᵣ, c]`; with the denominator `√(k! · ∏ tⱼ!)` this is the
multinomial closed form `√(k!/∏ tⱼ!) · ∏ⱼ U[j,c]^{tⱼ}` the many-photon stream of the check uses -/
theorem bunched_input_amplitude [CommRing K] (U : M K) (s t : FState) (k : Nat) (rows : Fin k → Nat)
    (c : Nat) (hs : partitionIdx s = List.ofFn fun _ : Fin k => c)
    (ht : partitionIdx t = List.ofFn rows) :
    ampNum U s t = (k.factorial : K) * ∏ r, U.get (rows r) c := by
  unfold ampNum
  rw [hs, ht]
  exact Proofs.C03.permRC_bunched_input U k rows c

/-- … and symmetrically when all photons leave through one mode -/
theorem bunched_output_amplitude [CommRing K] (U : M K) (s t : FState) (k : Nat) (cols : Fin k → Nat)
    (r : Nat) (hs : partitionIdx s = List.ofFn cols)
    (ht : partitionIdx t = List.ofFn fun _ : Fin k => r) :
    ampNum U s t = (k.factorial : K) * ∏ c, U.get r (cols c) := by
  unfold ampNum
  rw [hs, ht]
  exact Proofs.C03.permRC_bunched_output U k r cols

/-- the hypotheses are met, e.g. `|3,0⟩ → |1,2⟩` -/
example : partitionIdx [3, 0] = List.ofFn (fun _ : Fin 3 => 0) ∧
    partitionIdx [1, 2] = List.ofFn (![0, 1, 1] : Fin 3 → Nat) := by
  constructor <;> rfl

end LW.C03
