/-
  C13 — The qubit gate library implements the gates it names.

  Only the property theorems and their non-vacuity examples live here; helper lemmas are in
  LW/Proofs/C13*.lean.  The gates are the models of the constructors in
  lightworks/qubit/gates/*.py (LW.Model.Gates): each multi-qubit gate is built through the `Circ`
  model of `Circuit.add` / `herald` exactly as its constructor does (hard-coded unitary, herald
  placement, `add(..., group=True)`, H-conjugation on the chosen target).

  `HasTable rel i g nq k G leakFree` (LW/Proofs/C13.lean) is the table statement: the constructor
  `g` succeeds with `2·nq` user modes and, with the gate's heralds on input and output, from every
  dual-rail basis input the amplitude to every dual-rail output is the common scalar `k` times
  the named gate's entry `G out in`; with `leakFree`, the amplitude to every other state of the
  user modes with the same photon number — every other output the heralds accept — is 0.

  The theorems are for ANY field `R` and any constants `c : GC R` satisfying the defining
  equations `GC.Valid` of the numbers the constructors compute (`√2² = 2`, `w² = 3/√2 − 2`, …);
  `cComplex_valid` shows the complex numbers `√2, 3^(-1/2), 2^(-1/4), √(3/√2−2), √7, i, e^{±iπ/4}`
  satisfy them.  Proof: kernel decision (`decide +kernel`) of each table over an exact tower
  `ℤ[1/6][√2, …]`, transported along the evaluation map tower → R.
-/
import LW.Proofs.C13Field
import LW.Proofs.C13Complex
import LW.Proofs.C13FullSwap

namespace LW.C13

open LW.Gates LW.QF

variable {R : Type} [Field R] (c : GC R)

/-! ### single-qubit gates: every gate, every rotation parameter, scalar 1 -/

/-- the heralded amplitude of `I, H, X, Y, Z, S, S†, T, T†, SX, P(θ), Rx(θ), Ry(θ), Rz(θ)` between
dual-rail basis states is exactly the entry of the gate's 2×2 matrix, for every value of the
rotation parameters (any commutative ring); with one photon on two modes there is no output
outside the qubit subspace. -/
theorem single_qubit_amp {R : Type} [CommRing R] (c : GC R) (g : SQ R) (b b' : Bool) :
    gateAmp c.i (sqCirc c g) (dualRail [b]) (dualRail [b']) = sqEntry c g b'.toNat b.toNat :=
  Gates.single_qubit_amp c g b b'

example : gateAmp cComplex.i (sqCirc cComplex (.Rx (3 / 5) (4 / 5))) (dualRail [false]) (dualRail [true])
    = -(Complex.I * (4 / 5)) := by
  have := single_qubit_amp cComplex (.Rx (3 / 5) (4 / 5)) false true
  simpa [sqEntry, m2, cComplex] using this

/-! ### post-selected CZ / CNOT: scalar −1/3, squared 1/9 -/

theorem CZ_table (hv : c.Valid) : HasTable Eq c.i (CZ c) 2 (-c.third) namedCZ false :=
  Gates.CZ_table_field c hv
theorem CNOT_target0_table (hv : c.Valid) : HasTable Eq c.i (CNOT c 0) 2 (-c.third) (namedCNOT 0) false :=
  Gates.CNOT0_table_field c hv
theorem CNOT_target1_table (hv : c.Valid) : HasTable Eq c.i (CNOT c 1) 2 (-c.third) (namedCNOT 1) false :=
  Gates.CNOT1_table_field c hv

/-! ### heralded CZ / CNOT: scalar 1/4, squared 1/16, no accepted output outside the qubit
subspace (all ten two-photon outputs of each basis input are covered) -/

theorem CZ_Heralded_table (hv : c.Valid) : HasTable Eq c.i (CZH c) 2 (c.half * c.half) namedCZ true :=
  Gates.CZH_table_field c hv
theorem CNOT_Heralded_target0_table (hv : c.Valid) :
    HasTable Eq c.i (CNOTH c 0) 2 (c.half * c.half) (namedCNOT 0) true :=
  Gates.CNOTH0_table_field c hv
theorem CNOT_Heralded_target1_table (hv : c.Valid) :
    HasTable Eq c.i (CNOTH c 1) 2 (c.half * c.half) (namedCNOT 1) true :=
  Gates.CNOTH1_table_field c hv

/-! ### post-selected CCZ / CCNOT: scalar i/(6√2), squared modulus 1/72 -/

theorem CCZ_table (hv : c.Valid) : HasTable Eq c.i (CCZ c) 3 (kCCZf c) namedCZ false :=
  Gates.CCZ_table_field c hv
theorem CCNOT_target0_table (hv : c.Valid) : HasTable Eq c.i (CCNOT c 0) 3 (kCCZf c) (namedCNOT 0) false :=
  Gates.CCNOT0_table_field c hv
theorem CCNOT_target1_table (hv : c.Valid) : HasTable Eq c.i (CCNOT c 1) 3 (kCCZf c) (namedCNOT 1) false :=
  Gates.CCNOT1_table_field c hv
theorem CCNOT_target2_table (hv : c.Valid) : HasTable Eq c.i (CCNOT c 2) 3 (kCCZf c) (namedCNOT 2) false :=
  Gates.CCNOT2_table_field c hv

/-- squared moduli of the three scalars: `(−1/3)² = 1/9`, `(1/4)² = 1/16`, and for the purely
imaginary `k = i/(6√2)`: `k·conj k = k·(−k) = 1/72` -/
theorem scalar_squares (hv : c.Valid) :
    (-c.third) * (-c.third) * 9 = 1 ∧ (c.half * c.half) * (c.half * c.half) * 16 = 1 ∧
      (kCCZf c * -(kCCZf c)) * 72 = 1 :=
  Gates.scalar_sq_field c hv

/-- the hypotheses are met by the complex numbers the Python floats approximate -/
theorem complex_constants_valid : cComplex.Valid := Gates.cComplex_valid

example : HasTable Eq cComplex.i (CNOTH cComplex 0) 2 (cComplex.half * cComplex.half) (namedCNOT 0) true :=
  CNOT_Heralded_target0_table cComplex complex_constants_valid

/-! ### target options outside the gate are refused -/

theorem target_rejected {K : Type} [Add K] [Mul K] [Neg K] [Zero K] [One K] (c : GC K) (t : Int) :
    (¬ (0 ≤ t ∧ t < 2) → CNOT c t = .error .value ∧ CNOTH c t = .error .value) ∧
    (¬ (0 ≤ t ∧ t < 3) → CCNOT c t = .error .value) :=
  Gates.target_rejected c t

/-! ### the same tables in the exact towers the driver computes with

These are the statements the kernel decides; the objects (`CZ cCZ`, …) are literally the ones the
correspondence check compares with the code's `U_full`, heralds and Simulator amplitudes.
`eqvRel` is semantic equality of the non-canonical representation `n/6^e` of `ℤ[1/6]`. -/

theorem CZ_Heralded_table_tower : HasTable eqvRel cCZH.i (CZH cCZH) 2 kCZH namedCZ true :=
  Gates.CZH_table_tower
theorem CCZ_table_tower : HasTable eqvRel cCCZ.i (CCZ cCCZ) 3 kCCZ namedCZ false :=
  Gates.CCZ_table_tower

/-! ### SWAP

`SWAP(q1, q2)` is `mode_swaps({a0: b0, b0: a0, a1: b1, b1: a1})` on `max + 1` modes.  Its
statement for all mode pairs — the two-photon amplitude of a permutation matrix is 1 exactly on
the permuted state — is the `Prop` `SWAP_statement`, proved as `SWAP_all_pairs` below (the
permanent of a 2×2 sub-matrix of `permMat` for symbolic modes and the insertion-sort invariance used
by `ModeSwaps`' validation are in LW/Proofs/C13Full*.lean).  The constructor and its amplitudes
are also compared with the code on random mode pairs on every run (harness/props/c13.py), and
instances are decided by the kernel in `SWAP_partial`. -/

def SWAP_statement : Prop :=
  ∀ (R : Type) [CommRing R] (i : R) (a0 a1 b0 b1 : Nat), [a0, a1, b0, b1].Nodup →
    ∃ circ : Circ R, SWAP (K := R) [a0, a1] [b0, b1] = .ok circ ∧ circ.inHer = [] ∧
      circ.n = max (max a0 a1) (max b0 b1) + 1 ∧
      ∀ x y : Bool, ∀ o ∈ fockStates circ.n 2,
        gateAmp i circ (occ circ.n [if x then a1 else a0, if y then b1 else b0]) o =
          if o = occ circ.n [if x then b1 else b0, if y then a1 else a0] then 1 else 0

/-- proved restriction: the two adjacent-qubit layouts the converter uses and a scattered one,
over the exact ring `T1` (kernel decision; `swapOK` is the executable form of the body of
`SWAP_statement` for one pair of qubits) -/
theorem SWAP_partial :
    swapOK [0, 1] [2, 3] = true ∧ swapOK [2, 3] [0, 1] = true ∧ swapOK [4, 1] [0, 3] = true :=
  Gates.SWAP_instances

/-- **SWAP for all mode pairs**: the full statement, for every commutative ring of scalars and every
four distinct modes (LW/Proofs/C13FullStruct.lean, C13FullFock.lean, C13FullSwap.lean: the
constructor evaluated symbolically, `U_full` = the permutation matrix of the dictionary, and the
permanent of its 2×2 sub-matrix between two-photon states by case analysis) -/
theorem SWAP_all_pairs : SWAP_statement := Gates.SWAP_all_pairs

end LW.C13
