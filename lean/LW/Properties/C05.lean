import LW.Model.Analysis

namespace LW.C05

/-- interim (replaced by the real theorems): without rules every state is accepted -/
theorem psValidate_nil (s : FState) : psValidate [] s = true := rfl

end LW.C05
