/-
  C05 — Simulator, Sampler, Analyzer and QuickSampler tell one consistent story.

  Model: LW.Model.Analysis (analyze, analyzerProb, analyzerOutputs, quickDist, psValidate) on top of
  LW.Model.Dist / Fock.  The sampler's distribution for an ideal source is `fullDistPermanent`
  (`Sampler.probability_distribution` = `pdistCalc` of a single input of weight one).
-/
import LW.Proofs.C05

namespace LW.C05

variable {K Q : Type} [CommRing K] [Field Q] [LinearOrder Q] [IsStrictOrderedRing Q]

/-- an analyzer entry is the transition probability of the heralded output summed over every
configuration of the lost photons on the loss modes -/
theorem analyzerProb_eq_marginal (nsq : K → Q) (U : M K) (lossModes : Nat) (fin fo : FState)
    (hle : photons fo ≤ photons fin) :
    analyzerProb nsq U lossModes fin fo =
      .ok (((fockBasis lossModes (photons fin - photons fo)).map fun ls =>
              transProb nsq U fin (fo ++ ls)).sum) ∨
    (lossModes = 0 ∧ analyzerProb nsq U lossModes fin fo = .ok (transProb nsq U fin fo)) :=
  Proofs.C05.analyzerProb_eq_marginal nsq U lossModes fin fo hle

/-- an output holding more photons than the input is refused -/
theorem analyzerProb_rejects (nsq : K → Q) (U : M K) (lossModes : Nat) (fin fo : FState)
    (hl : lossModes ≠ 0) (hgt : photons fin < photons fo) :
    analyzerProb nsq U lossModes fin fo = .error .photonNumber :=
  Proofs.C05.analyzerProb_rejects nsq U lossModes fin fo hl hgt

/-- ANALYZER = SAMPLER: for a pattern that keeps at least one photon on the circuit's modes the
analyzer's probability equals the sampler's (untruncated) probability of that full pattern -/
theorem analyzer_eq_sampler (nsq : K → Q) (hn : ∀ z, 0 ≤ nsq z) (U : M K) (nReal : Nat)
    (input fo : FState) (hin : input.length = nReal) (hfo : fo.length = nReal) (hU : nReal < U.n)
    (hpos : 0 < nReal) (hp : photons fo ≠ 0) (hle : photons fo ≤ photons input) :
    analyzerProb nsq U (U.n - nReal) (input ++ List.replicate (U.n - nReal) 0) fo =
      .ok (((fullDistPermanent nsq 0 U nReal input).get? fo).getD 0) :=
  Proofs.C05.analyzer_eq_sampler nsq hn U nReal input fo hin hfo hU hpos hp hle

/-- the outputs the analyzer reports are exactly the candidate outputs that satisfy every
post-selection rule, in enumeration order -/
theorem analyzerOutputs_spec (rules : List Rule) (im n : Nat) (lossy : Bool) (t : FState) :
    t ∈ analyzerOutputs rules im n lossy ↔
      psValidate rules t = true ∧
      (if lossy then ∃ k ≤ n, t ∈ fockBasis im k else t ∈ fockBasis im n) :=
  Proofs.C05.analyzerOutputs_spec rules im n lossy t

/-- performance is the mean accepted total and the error rate one minus the mean
accepted-and-expected fraction -/
theorem analyze_performance_def (i : K) (nsq : K → Q) (c : Circ K) (rules : List Rule)
    (inputs : List (List Occ)) (ex : Option (List (List FState))) (r : AnalysisResult Q)
    (h : analyze i nsq c rules inputs ex = .ok r) :
    r.performance = sumQ (r.probs.map sumQ) / ((r.probs.length : Nat) : Q) ∧
    r.probs.length = inputs.length ∧
    (∀ row ∈ r.probs, row.length = r.outputs.length) ∧
    (r.errorRate.isSome ↔ ex.isSome) :=
  Proofs.C05.analyze_performance_def i nsq c rules inputs ex r h

theorem analyze_error_rate_def (i : K) (nsq : K → Q) (c : Circ K) (rules : List Rule)
    (inputs : List (List Occ)) (ex : List (List FState)) (r : AnalysisResult Q)
    (h : analyze i nsq c rules inputs (some ex) = .ok r) :
    r.errorRate = some (sumQ ((r.probs.zip ex).map fun (row, exps) =>
        exps.eraseDups.foldl (fun e o => match r.outputs.idxOf? o with
          | some k => e - row.getD k 0 / sumQ row
          | none => e) 1) / (((r.probs.zip ex).length : Nat) : Q)) :=
  Proofs.C05.analyze_error_rate_def i nsq c rules inputs ex r h

/-! ### the error rate, semantically (repair F31) -/

omit [LinearOrder Q] [IsStrictOrderedRing Q] in
/-- THE ERROR RATE IS ONE MINUS THE ACCEPTED-AND-EXPECTED FRACTION: for pairwise distinct reported
outputs the per-input fold of `analyze` equals `1 - (Σ of the row entries whose output occurs in
exps) / Σ row`.  The expected list enters only through membership (`exps.contains`): every
accepted-and-expected output is counted exactly once, however often it is listed. -/
theorem error_fold_eq_set_sum (row : List Q) (outs exps : List FState) (hnd : outs.Nodup) :
    exps.eraseDups.foldl (fun e o => match outs.idxOf? o with
        | some k => e - row.getD k 0 / sumQ row
        | none => e) 1 =
      1 - (((outs.zip row).filter fun x => exps.contains x.1).map (·.2)).sum / sumQ row :=
  Proofs.C05.error_fold_eq_set_sum row outs exps hnd

omit [LinearOrder Q] [IsStrictOrderedRing Q] in
/-- two expected lists with the same members (any order, any multiplicities) give the same value -/
theorem error_fold_perm_dup_invariant (row : List Q) (outs e₁ e₂ : List FState) (hnd : outs.Nodup)
    (h : ∀ o, o ∈ e₁ ↔ o ∈ e₂) :
    e₁.eraseDups.foldl (fun e o => match outs.idxOf? o with
        | some k => e - row.getD k 0 / sumQ row
        | none => e) 1 =
    e₂.eraseDups.foldl (fun e o => match outs.idxOf? o with
        | some k => e - row.getD k 0 / sumQ row
        | none => e) 1 :=
  Proofs.C05.error_fold_perm_dup_invariant row outs e₁ e₂ hnd h

/-- for a non-negative row of positive total and pairwise distinct reported outputs the per-input
error rate lies in `[0, 1]` -/
theorem error_fold_in_unit_interval (row : List Q) (outs exps : List FState)
    (hrow : ∀ p ∈ row, 0 ≤ p) (hs : 0 < sumQ row) (hnd : outs.Nodup) :
    0 ≤ exps.eraseDups.foldl (fun e o => match outs.idxOf? o with
        | some k => e - row.getD k 0 / sumQ row
        | none => e) 1 ∧
    exps.eraseDups.foldl (fun e o => match outs.idxOf? o with
        | some k => e - row.getD k 0 / sumQ row
        | none => e) 1 ≤ 1 :=
  Proofs.C05.error_fold_in_unit_interval row outs exps hrow hs hnd

/-- the outputs `analyze` reports are pairwise distinct and its table is non-negative -/
theorem analyze_outputs_nodup_probs_nonneg (i : K) (nsq : K → Q) (hn : ∀ z, 0 ≤ nsq z) (c : Circ K)
    (rules : List Rule) (inputs : List (List Occ)) (ex : Option (List (List FState)))
    (r : AnalysisResult Q) (h : analyze i nsq c rules inputs ex = .ok r) :
    r.outputs.Nodup ∧ ∀ row ∈ r.probs, ∀ p ∈ row, 0 ≤ p :=
  ⟨Proofs.C05.analyze_outputs_nodup i nsq c rules inputs ex r h,
    Proofs.C05.analyze_probs_nonneg i nsq hn c rules inputs ex r h⟩

/-- the error rate `analyze` reports lies in `[0, 1]` whenever every input has a positive accepted
total and one list of expected outputs is given per input -/
theorem analyze_error_rate_in_unit_interval (i : K) (nsq : K → Q) (hn : ∀ z, 0 ≤ nsq z)
    (c : Circ K) (rules : List Rule) (inputs : List (List Occ)) (ex : List (List FState))
    (r : AnalysisResult Q) (h : analyze i nsq c rules inputs (some ex) = .ok r)
    (hpos : ∀ row ∈ r.probs, 0 < sumQ row) (hlen : ex.length = inputs.length) :
    ∃ e, r.errorRate = some e ∧ 0 ≤ e ∧ e ≤ 1 :=
  Proofs.C05.analyze_error_rate_in_unit_interval i nsq hn c rules inputs ex r h hpos hlen

/-- F31: WITHOUT the deduplication (the code before the repair) the fold can be negative: one output
of probability one, listed twice as expected, gives `1 - 1 - 1 < 0` (and `0` after the repair) -/
theorem error_fold_without_dedup_can_be_negative :
    ∃ (row : List Rat) (outs exps : List FState), outs.Nodup ∧
      exps.foldl (fun e o => match outs.idxOf? o with
        | some k => e - row.getD k 0 / sumQ row
        | none => e) 1 < 0 ∧
      exps.eraseDups.foldl (fun e o => match outs.idxOf? o with
        | some k => e - row.getD k 0 / sumQ row
        | none => e) 1 = 0 :=
  Proofs.C05.error_fold_without_dedup_can_be_negative

/-- QUICK SAMPLER = CONDITIONAL: every entry of the quick sampler's distribution is the probability
of that output with heralds satisfied and no photon lost, divided by the total over all outputs
that satisfy the post-selection (and, for threshold detection, hold at most one photon per mode)
and survive the truncation; the entries sum to one. -/
theorem quickDist_spec (i : K) (nsq : K → Q) (eps : Q) (heps : 0 ≤ eps) (c : Circ K) (rules : List Rule)
    (pnr : Bool) (input : FState) (d : PDist Q) (h : quickDist i nsq eps c rules pnr input = .ok d) :
    let U := c.Ufull i
    let z := List.replicate (U.n - c.n) 0
    let p := fun (o : FState) => transProb nsq U (addHeralds input c.inHer ++ z) (addHeralds o c.outHer ++ z)
    let acc := ((fockBasis input.length (photons input)).filter fun o =>
                  (pnr || o.all (· ≤ 1)) && psValidate rules o && decide (eps < p o))
    d.map (·.1) = acc ∧
    (∀ x ∈ d, x.2 = p x.1 / (acc.map p).sum) ∧
    (d.map (·.2)).sum = 1 :=
  Proofs.C05.quickDist_spec i nsq eps heps c rules pnr input d h

/-- squared simulator amplitudes are sampler probabilities for lossless circuits -/
theorem sim_sq_eq_sampler (nsq : K → Q) (U : M K) (nReal : Nat) (input t : FState)
    (hU : U.n = nReal) (hin : input.length = nReal) (ht : t.length = nReal) (hpos : 0 < nReal)
    (hp : photons t = photons input) (hne : photons input ≠ 0) (hpp : 0 < transProb nsq U input t) :
    ((fullDistPermanent nsq 0 U nReal input).get? t).getD 0 =
      nsq (ampNum U input t) / ((ampNormSq input t : Nat) : Q) :=
  Proofs.C05.sim_sq_eq_sampler nsq U nReal input t hU hin ht hpos hp hne hpp

end LW.C05
