/-
  C02 — Adding a sub-circuit wires it in order; heralded modes become private ancillas.

  Theorems about the bookkeeping model `Circ` (LW.Model.Circuit: mapMode, herald, add, …) and the
  specification model `Optic` (LW.Model.Optic).  Statements hold for every circuit state
  satisfying the invariant `Circ.WF`, which every reachable state does (`*_preserves_WF`).
-/
import LW.Proofs.C02

namespace LW.C02

variable {K : Type}

/-- the user-mode map never lands on an ancilla (later mode numbering skips ancillas) -/
theorem mapMode_not_internal (c : Circ K) (m : Int) (hm : 0 ≤ m) :
    ∀ a ∈ c.internal, c.mapMode m ≠ (a : Int) :=
  Proofs.C02.mapMode_not_internal c m hm

/-- … it preserves order … -/
theorem mapMode_strictMono (c : Circ K) (m m' : Int) (h : m < m') : c.mapMode m < c.mapMode m' :=
  Proofs.C02.mapMode_strictMono c m m' h

/-- … and it reaches exactly the non-ancilla modes: user mode `m` is in range iff `m < ports` -/
theorem mapMode_lt_iff (c : Circ K) (hwf : c.WF) (m : Int) (hm : 0 ≤ m) :
    c.mapMode m < (c.n : Int) ↔ m < (c.ports : Int) :=
  Proofs.C02.mapMode_lt_iff c hwf m hm

/-- a fresh circuit satisfies the invariant -/
theorem new_WF (n : Nat) : (Circ.new n : Circ K).WF := Proofs.C02.new_WF n

/-- `herald` preserves the invariant -/
theorem herald_preserves_WF (c c' : Circ K) (hwf : c.WF) (k : Nat) (i o : Int)
    (h : c.herald k i o = .ok c') : c'.WF ∧ c'.n = c.n ∧ c'.internal = c.internal :=
  Proofs.C02.herald_preserves_WF c c' hwf k i o h

/-- every accepted primitive call preserves the invariant and touches no ancilla mode:
the modes of the appended components are never internal modes. -/
theorem prim_calls_avoid_ancillas (c c' : Circ K) (hwf : c.WF) :
    (∀ m1 m2 cs cv l, c.bs m1 m2 cs cv l = .ok c' →
        c'.WF ∧ ∃ added, c'.spec = c.spec ++ added ∧ ∀ x ∈ added, ∀ m ∈ x.modes, m ∉ c.internal) ∧
    (∀ m p l, c.ps m p l = .ok c' →
        c'.WF ∧ ∃ added, c'.spec = c.spec ++ added ∧ ∀ x ∈ added, ∀ m ∈ x.modes, m ∉ c.internal) ∧
    (∀ m ab, c.loss m ab = .ok c' →
        c'.WF ∧ ∃ added, c'.spec = c.spec ++ added ∧ ∀ x ∈ added, ∀ m ∈ x.modes, m ∉ c.internal) ∧
    (∀ ms, c.barrier ms = .ok c' →
        c'.WF ∧ ∃ added, c'.spec = c.spec ++ added ∧ ∀ x ∈ added, ∀ m ∈ x.modes, m ∉ c.internal) ∧
    (∀ sw, c.modeSwaps sw = .ok c' →
        c'.WF ∧ ∃ added, c'.spec = c.spec ++ added ∧ ∀ x ∈ added, ∀ m ∈ x.modes, m ∉ c.internal) :=
  Proofs.C02.prim_calls_avoid_ancillas c c' hwf

/-- `add` preserves the invariant; the parent gains exactly one ancilla per herald of the added
circuit, its number of user-visible modes is unchanged, and every ancilla it already had is still
an ancilla carrying the same photon number (at its possibly shifted position). -/
theorem add_preserves_WF [Zero K] [One K] (self sub self' : Circ K) (hs : self.WF) (hsub : sub.WF)
    (m : Int) (g : Bool) (h : self.add sub m g = .ok self') :
    self'.WF ∧
    self'.internal.length = self.internal.length + sub.inHer.length ∧
    self'.ports = self.ports ∧
    (∀ a ∈ self.internal, ∃ a' ∈ self'.internal, a ≤ a' ∧ self'.inHer.get? a' = self.inHer.get? a
        ∧ self'.outHer.get? a' = self.outHer.get? a) :=
  Proofs.C02.add_preserves_WF self sub self' hs hsub m g h

/-- an addition whose user-visible span does not fit is rejected (and, `Except` carrying no
state, leaves everything unchanged) -/
theorem add_rejects_oversize [Zero K] [One K] (self sub : Circ K) (hs : self.WF) (hsub : sub.WF)
    (m : Int) (g : Bool)
    (h : m < 0 ∨ (self.ports : Int) < m + ((sub.n - sub.inHer.length : Nat) : Int)) :
    self.add sub m g = .error .modeRange :=
  Proofs.C02.add_rejects_oversize self sub hs hsub m g h

/-! ### specification level -/

section
variable [Add K] [Mul K] [Neg K] [Zero K] [One K]

/-- composing on the specification level keeps the parent's ports, keeps its heralds as a prefix
(existing ancillas are never touched) and appends one private ancilla per herald of the added
circuit, with the same photon number at input and output. -/
theorem compose_heralds (x : Optic K) (s : Closed K) (m : Nat) :
    (x.compose s m).p = x.p ∧
    (x.compose s m).a = x.a + s.hn.length ∧
    (x.compose s m).l = x.l + s.l ∧
    (x.compose s m).her.take x.her.length = x.her ∧
    ((x.compose s m).her.drop x.her.length).map (·.n) = s.hn ∧
    ∀ h ∈ (x.compose s m).her.drop x.her.length, h.i = h.o ∧ x.p + x.a ≤ h.i :=
  Proofs.C02.compose_heralds x s m

/-- the closed form of an optic lists every herald's photon number, in declaration order, and
its dimension is free ports + heralds + loss -/
theorem closed_shape (x : Optic K) :
    x.closed.hn = x.her.map (·.n) ∧ x.closed.l = x.l ∧
    x.closed.W.n = x.closed.q + x.her.length + x.l :=
  Proofs.C02.closed_shape x

end

end LW.C02
