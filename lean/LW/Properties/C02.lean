import LW.Model.Optic

namespace LW.C02

/-- interim: a fresh specification optic has no ancillas (replaced by the real theorems) -/
theorem new_no_ancillas {K : Type} [Add K] [Mul K] [Neg K] [Zero K] [One K] (n : Nat) :
    (Optic.new n : Optic K).a = 0 := rfl

end LW.C02
