/-
  C12 — Qiskit conversion preserves the circuit's unitary, or refuses.

  Only the property theorems and their non-vacuity examples live here; helper lemmas are in
  LW/Proofs/C12.lean (decision logic) and LW/Proofs/C12Full*.lean (amplitude-level clause).  The
  model (LW.Model.QConvert) mirrors qiskit_convert.py: `toAdjacent` is
  `convert_two_qubits_to_adjacent`, `psAnalyze true` is `post_selection_analyzer` with the repaired
  rule (F2; `psAnalyze false` is the rule of the pinned code), `convert` is
  `QiskitConverter.convert`.  All statements are for every instruction list (any length, any
  qubits, any number of qubits).

  What is proved:
  * the decision logic — adjacency swaps, safety of the post-selection analysis in the per-qubit
    photon-number semantics, the refusal paths;
  * the amplitude-level clause `convert_correct` (= `convert_correct_statement`, fully proved, no
    extra hypotheses): for every field with valid gate constants, all rotation parameters, either
    mode and every accepted instruction list on distinct in-range qubits, the circuit assembled
    from the library's gates maps each dual-rail basis input to accepted outputs whose amplitudes
    are one common non-zero scalar times the ideal action of the instruction list, and 0 outside
    the qubit subspace.  Proof (LW/Proofs/C12Full.lean): the Fock functor in polynomial form
    (substitution homomorphisms of `MvPolynomial ℕ R`, characteristic-free, multiplicative by
    construction), a refinement of `Circuit.add` without unitarity hypotheses, the C13 amplitude
    tables per gate, `ps_analysis_safe` for the post-selection rules, and a forward induction
    over the instruction list.
  The agreement of `idealRun` with `qiskit.quantum_info.Operator` (little-endian) is what the
  harness checks on every run (harness/props/c12.py, `oracle:`); it is not a Lean statement.
-/
import LW.Proofs.C12
import LW.Proofs.C13Field
import LW.Model.QConvertSem
import LW.Proofs.C12Inst
import LW.Proofs.C12Full

namespace LW.C12

open LW.QC LW.Gates LW.QF

/-- `convert_two_qubits_to_adjacent`, for any two distinct qubits: the returned qubits are
adjacent, in the same order as the arguments, inside their span; the swaps move the two argument
qubits exactly onto them, stay inside the span, and applying them a second time (as the converter
does after the gate) restores every qubit. -/
theorem adjacent_swaps_conjugate (q0 q1 : Nat) (h : q0 ≠ q1) :
    ((toAdjacent q0 q1).1 + 1 = (toAdjacent q0 q1).2.1 ∨ (toAdjacent q0 q1).2.1 + 1 = (toAdjacent q0 q1).1) ∧
    (q0 < q1 ↔ (toAdjacent q0 q1).1 < (toAdjacent q0 q1).2.1) ∧
    min q0 q1 ≤ min (toAdjacent q0 q1).1 (toAdjacent q0 q1).2.1 ∧
    max (toAdjacent q0 q1).1 (toAdjacent q0 q1).2.1 ≤ max q0 q1 ∧
    applySwaps (toAdjacent q0 q1).2.2 q0 = (toAdjacent q0 q1).1 ∧
    applySwaps (toAdjacent q0 q1).2.2 q1 = (toAdjacent q0 q1).2.1 ∧
    (∀ q, applySwaps (toAdjacent q0 q1).2.2 (applySwaps (toAdjacent q0 q1).2.2 q) = q) ∧
    (∀ p ∈ (toAdjacent q0 q1).2.2, min q0 q1 ≤ min p.1 p.2 ∧ max p.1 p.2 ≤ max q0 q1) :=
  QC.toAdjacent_spec q0 q1 h

example : toAdjacent 5 0 = (3, 2, [(0, 2), (5, 3)]) := by decide

/-- **Safety of the (repaired) post-selection analysis.**  Run the instruction list with the
analyser's flags from one photon per qubit, in the semantics where a post-selected gate may
redistribute photons among its qubits arbitrarily and a heralded gate is only known to map
all-ones to all-ones.  If at the end every qubit that carries a post-selection rule holds one
photon, then after *every* instruction every qubit held exactly one photon. -/
theorem ps_analysis_safe (nq : Nat) (gs : List Instr) (c0 : Config) (tr : List Config)
    (hwf : ∀ g ∈ gs, ∀ q ∈ g.qubits, q < nq) (h0 : AllOne nq c0)
    (hrun : Run gs (psAnalyze true gs).1 c0 tr)
    (hfin : ∀ q ∈ (psAnalyze true gs).2, finalOf c0 tr q = 1) :
    ∀ c ∈ tr, AllOne nq c :=
  QC.ps_analysis_safe nq gs c0 tr hwf h0 hrun hfin

/-- the hypotheses are met by a run through a post-selected `cx` followed by a heralded one -/
example : ∃ tr, Run [⟨"cx", [0, 1]⟩, ⟨"cx", [1, 2]⟩] (psAnalyze true [⟨"cx", [0, 1]⟩, ⟨"cx", [1, 2]⟩]).1
    (fun _ => 1) tr ∧ (psAnalyze true [⟨"cx", [0, 1]⟩, ⟨"cx", [1, 2]⟩]).1 = [true, true] := by
  refine ⟨[fun _ => 1, fun _ => 1], ?_, by decide⟩
  have : (psAnalyze true [⟨"cx", [0, 1]⟩, ⟨"cx", [1, 2]⟩]).1 = [true, true] := by decide
  rw [this]
  refine Run.cons _ _ _ _ _ _ _ ?_ (Run.cons _ _ _ _ _ _ _ ?_ (Run.nil _)) <;>
    (unfold stepRel redistributes; simp)

/-- F2: under the rule of the pinned code `ccx(0,1,2); cx(0,1)` is converted with both gates
post-selected … -/
theorem F2_pinned_converts :
    (psAnalyze false [⟨"ccx", [0, 1, 2]⟩, ⟨"cx", [0, 1]⟩]).1 = [true, true] :=
  QC.F2_pinned_converts

/-- … although with those flags there is a run from one photon per qubit to one photon per qubit
through the configuration (2, 0, 1): the conclusion of `ps_analysis_safe` fails for the pinned
rule. -/
theorem F2_pinned_unsafe :
    ∃ (c0 c1 c2 : Config), AllOne 3 c0 ∧ AllOne 3 c2 ∧ ¬ AllOne 3 c1 ∧
      Run [⟨"ccx", [0, 1, 2]⟩, ⟨"cx", [0, 1]⟩]
        (psAnalyze false [⟨"ccx", [0, 1, 2]⟩, ⟨"cx", [0, 1]⟩]).1 c0 [c1, c2] :=
  QC.F2_pinned_unsafe

/-- the repaired analyser makes the converter refuse that circuit -/
theorem F2_fixed_refuses :
    (convert true true 3 [⟨"ccx", [0, 1, 2]⟩, ⟨"cx", [0, 1]⟩]).toOption.isNone = true :=
  QC.F2_fixed_refuses

/-- **The converter returns a circuit only if every instruction is placeable**: each gate is a
supported one on 1–3 qubits, and every three-qubit gate is `ccx`/`ccz` on three adjacent qubits
with post-selection allowed and that gate flagged post-selectable by the analyser.  In every
other case `convert` returns an error. -/
theorem refuses_otherwise (aps fixed : Bool) (nq : Nat) (gs : List Instr) (o : ConvOut)
    (h : convert aps fixed nq gs = .ok o) :
    ∀ k g, gs[k]? = some g →
      allowed.contains g.name = true ∧ 1 ≤ g.qubits.length ∧ g.qubits.length ≤ 3 ∧
      (g.qubits.length = 3 →
        aps = true ∧ (psAnalyze fixed gs).1.getD k false = true ∧ (g.name = "ccx" ∨ g.name = "ccz") ∧
        ∃ q0 q1 q2, g.qubits = [q0, q1, q2] ∧ max q0 (max q1 q2) - min q0 (min q1 q2) = 2) :=
  QC.convert_ok_only_if aps fixed nq gs o h

example : (convert true true 3 [⟨"h", [0]⟩, ⟨"cx", [2, 0]⟩, ⟨"ccz", [0, 1, 2]⟩]).toOption.isSome = true := by
  decide

/-- heralded-only mode refuses every circuit that contains a three-qubit gate -/
theorem heralded_only_refuses_three (fixed : Bool) (nq : Nat) (gs : List Instr) (g : Instr)
    (hg : g ∈ gs) (h3 : g.qubits.length = 3) : ∃ e, convert false fixed nq gs = .error e :=
  QC.heralded_only_refuses_three fixed nq gs g hg h3

/-! ### the amplitude-level clause

The full property: for every field `R` with valid gate constants, every rotation parameters and
every instruction list on distinct in-range qubits that the converter accepts (either mode), the
converted circuit assembled from the library's gates maps each dual-rail basis input to accepted
outputs (heralds of the circuit + the returned post-selection rules) whose amplitudes are one
common non-zero scalar times the ideal action of the instruction list, and 0 outside the qubit
subspace.  `idealRun` is the textbook action of the instructions on basis amplitudes (first bit =
qubit 0); its agreement with `qiskit.quantum_info.Operator` (little-endian) is what the harness
checks.

The statement is kept as a `def` (it predates its proof); `convert_correct` below proves it as
written.  The scalar is the product of the per-gate scalars (1 for single-qubit gates and SWAP,
−1/3 for post-selected `cx`/`cz`, 1/4 for heralded `cx`/`cz`, i/(6√2) for `ccx`/`ccz`). -/
def convert_correct_statement : Prop :=
  ∀ (R : Type) [Field R] (c : GC R), c.Valid →
  ∀ (par : Nat → R × R) (aps : Bool) (nq : Nat) (gs : List Instr) (o : ConvOut),
    (∀ g ∈ gs, g.qubits.Nodup ∧ ∀ q ∈ g.qubits, q < nq) →
    convert aps true nq gs = .ok o →
    ∃ circ, buildCirc c par nq o.plan = .ok circ ∧ circ.n - circ.inHer.length = 2 * nq ∧
      ∃ k : R, k ≠ 0 ∧
        ∀ ib ∈ bitStrings nq, ∀ out ∈ fockStates (2 * nq) nq, accepted o.psQubits out = true →
          gateAmp c.i circ (dualRail ib) out =
            if isDualRail out then k * idealRun c par 0 gs (delta ib) (unDualRail out) else 0

/-- **Amplitude-level correctness of the converter**, for every instruction list, either mode,
every field with valid gate constants (`convert_correct_statement` as written). -/
theorem convert_correct : convert_correct_statement :=
  LW.C12F.convert_correct_full

/-- the hypotheses of `convert_correct` are met, e.g. by `h(0); cx(2,0); ccz(0,1,2)` on three
qubits with post-selection allowed -/
example : ∃ o, convert true true 3 [⟨"h", [0]⟩, ⟨"cx", [2, 0]⟩, ⟨"ccz", [0, 1, 2]⟩] = .ok o ∧
    ∀ g ∈ ([⟨"h", [0]⟩, ⟨"cx", [2, 0]⟩, ⟨"ccz", [0, 1, 2]⟩] : List Instr),
      g.qubits.Nodup ∧ ∀ q ∈ g.qubits, q < 3 := by
  have h : (convert true true 3 [⟨"h", [0]⟩, ⟨"cx", [2, 0]⟩, ⟨"ccz", [0, 1, 2]⟩]).toOption.isSome
      = true := by decide
  cases hc : convert true true 3 [⟨"h", [0]⟩, ⟨"cx", [2, 0]⟩, ⟨"ccz", [0, 1, 2]⟩] with
  | error e => rw [hc] at h; simp [Except.toOption] at h
  | ok o => exact ⟨o, rfl, by decide⟩

/-- the photon-number part of that clause on its own (`convert_correct_partial`, kept from before
the full proof existed): under the hypotheses of the statement the run of the accepted instruction
list keeps one photon in every qubit after every instruction (so every gate sees and produces
dual-rail encoded states), for the analyser's flags — this is `ps_analysis_safe`, restated for a
converted circuit. -/
theorem convert_correct_partial (aps : Bool) (nq : Nat) (gs : List Instr) (o : ConvOut)
    (hc : convert aps true nq gs = .ok o) (haps : aps = true)
    (hwf : ∀ g ∈ gs, ∀ q ∈ g.qubits, q < nq) (c0 : Config) (tr : List Config) (h0 : AllOne nq c0)
    (hrun : Run gs o.flags c0 tr) (hfin : ∀ q ∈ (psAnalyze true gs).2, finalOf c0 tr q = 1) :
    ∀ c ∈ tr, AllOne nq c :=
  QC.convert_correct_partial aps nq gs o hc haps hwf c0 tr h0 hrun hfin

/-- instances of the amplitude-level clause decided by the kernel over the exact towers
(`convertCorrectB` is the executable body of `convert_correct_statement` for one circuit):
`h(0); cx(0,1); cx(2,1)` with both `cx` post-selected (scalar 1/9) … -/
theorem convert_correct_instance_ps :
    convertCorrectB cCZ (fun _ => (0, 0)) true 3 [⟨"h", [0]⟩, ⟨"cx", [0, 1]⟩, ⟨"cx", [2, 1]⟩]
      (TCZ.ofT2 (T2.ofS ⟨4, 2⟩)) = true :=
  QC.convert_correct_instance_ps

/-- … and `h(0); cx(1,0)` heralded-only (scalar 1/4, every accepted output covered) -/
theorem convert_correct_instance_heralded :
    convertCorrectB cCZH (fun _ => (0, 0)) false 2 [⟨"h", [0]⟩, ⟨"cx", [1, 0]⟩]
      (TCZH.ofT2 (T2.ofS ⟨9, 2⟩)) = true :=
  QC.convert_correct_instance_heralded

end LW.C12
