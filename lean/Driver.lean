/-
  Driver — line protocol over LW.Model.  One JSON request per input line, one JSON response per
  output line: `{"ok": <value>}` or `{"error": "<message>"}` (a malformed request, never a model
  outcome).  Built as the `lwdriver` executable (imports nothing from Mathlib).
-/
import LW.Driver.Common
import LW.Driver.Circuit
import LW.Driver.Fock
import LW.Driver.Sampling
import LW.Driver.C18
import LW.Driver.C17
import LW.Driver.C19
import LW.Driver.C10
import LW.Driver.C15
import LW.Driver.C16
import LW.Driver.C13
import LW.Driver.C12
import LW.Driver.C14
import LW.Driver.C06
import LW.Driver.C11
import LW.Driver.PostSel

open Lean LW.Driver

/-- protocol handlers by request name; one entry per handler module (LW/Driver/*.lean) -/
def handlers : List (String × (Json → R Json)) :=
  [("ping", fun _ => pure (Json.str "pong")),
   ("circ", handleCirc),
   ("fock", handleFock),
   ("samp", handleSamp),
   ("sv", handleC18),
   ("res", handleC17),
   ("display", handleC19),
   ("c10", LW.Driver.C10.handleC10),
   ("tomo", handleTomo),
   ("ptomo", handlePtomo),
   ("gate", handleC13),
   ("qconv", handleC12),
   ("reck", LW.Driver.C14.handleC14),
   ("c06", handleC06),
   ("cache", LW.Driver.C11.handleC11),
   ("postsel", handlePostSel)]

def dispatch (req : Json) : R Json := do
  let op ← asStr (← fld req "op")
  match handlers.find? (·.1 == op) with
  | some h => h.2 req
  | none => .error s!"unknown op {op}"

partial def loop (h : IO.FS.Stream) (out : IO.FS.Stream) : IO Unit := do
  let line ← h.getLine
  if line.isEmpty then return ()
  let resp : Json :=
    match Json.parse line with
    | .error e => Json.mkObj [("error", Json.str s!"parse: {e}")]
    | .ok req =>
      match dispatch req with
      | .ok v => Json.mkObj [("ok", v)]
      | .error e => Json.mkObj [("error", Json.str e)]
  out.putStrLn resp.compress
  out.flush
  loop h out

def main : IO Unit := do loop (← IO.getStdin) (← IO.getStdout)
