import Mathlib.GroupTheory.Perm.DomMulAct
import Mathlib.Algebra.BigOperators.Ring.Finset
import Mathlib.Logic.Equiv.Fintype

open Equiv Finset

variable {α ι : Type*} [Fintype α] [DecidableEq α] [Fintype ι] [DecidableEq ι]

/-- occupation of `z` under `f` -/
def occ (f : α → ι) (z : ι) : ℕ := Fintype.card {a // f a = z}

/-- two functions with the same occupations differ by a permutation of the domain -/
theorem exists_perm_of_occ_eq (f g : α → ι) (h : occ f = occ g) : ∃ τ : Perm α, g ∘ τ = f := by
  classical
  have e : ∀ z, {a // f a = z} ≃ {a // g a = z} := fun z =>
    Fintype.equivOfCardEq (by simpa [occ] using congrFun h z)
  refine ⟨(Equiv.sigmaFiberEquiv f).symm.trans ((Equiv.sigmaCongrRight e).trans (Equiv.sigmaFiberEquiv g)), ?_⟩
  funext a
  simp only [Function.comp_apply, Equiv.trans_apply]
  have := ((e (f a)) ⟨a, rfl⟩).2
  simpa [Equiv.sigmaFiberEquiv, Equiv.sigmaCongrRight] using this

theorem occ_comp_perm (g : α → ι) (τ : Perm α) : occ (g ∘ τ) = occ g := by
  funext z
  unfold occ
  apply Fintype.card_congr
  exact
    { toFun := fun a => ⟨τ a.1, a.2⟩
      invFun := fun a => ⟨τ.symm a.1, by simpa using a.2⟩
      left_inv := fun a => by simp
      right_inv := fun a => by simp }

theorem card_perm_comp_eq (g f : α → ι) :
    Fintype.card {τ : Perm α // g ∘ τ = f} = if occ f = occ g then ∏ z, (occ g z).factorial else 0 := by
  classical
  split_ifs with h
  · obtain ⟨τ0, hτ0⟩ := exists_perm_of_occ_eq f g h
    show _ = ∏ z, (Fintype.card {a // g a = z}).factorial
    rw [← DomMulAct.stabilizer_card g]
    apply Fintype.card_congr
    exact
      { toFun := fun τ => ⟨τ.1 * τ0⁻¹, by
          have := τ.2
          funext a
          have h2 : f (τ0⁻¹ a) = g a := by
            have := congrFun hτ0 (τ0⁻¹ a); simpa using this.symm
          have h3 := congrFun τ.2 (τ0⁻¹ a)
          simp only [Function.comp_apply, Perm.coe_mul] at *
          rw [h3, h2]⟩
        invFun := fun σ => ⟨σ.1 * τ0, by
          funext a
          have h3 := congrFun σ.2 (τ0 a)
          have h2 := congrFun hτ0 a
          simp only [Function.comp_apply, Perm.coe_mul] at *
          rw [h3, h2]⟩
        left_inv := fun τ => by ext; simp
        right_inv := fun σ => by ext; simp }
  · rw [Fintype.card_eq_zero_iff]
    constructor
    rintro ⟨τ, hτ⟩
    exact h (by rw [← hτ, occ_comp_perm])


/-- fibre-sum lemma: summing over the orbit of `g` counts each equal-occupation function
`∏ occ!` times -/
theorem fibre_sum {R : Type*} [CommSemiring R] (g : α → ι) (F : (α → ι) → R) :
    ∑ τ : Perm α, F (g ∘ τ) =
      (∏ z, (occ g z).factorial : ℕ) • ∑ f ∈ univ.filter (fun f : α → ι => occ f = occ g), F f := by
  classical
  have : ∑ τ : Perm α, F (g ∘ τ) = ∑ f : α → ι, (Fintype.card {τ : Perm α // g ∘ τ = f}) • F f := by
    rw [← Finset.sum_fiberwise (s := univ) (g := fun τ : Perm α => g ∘ (τ : α → α)) (f := fun τ => F (g ∘ τ))]
    apply Finset.sum_congr rfl
    intro f _
    rw [Finset.sum_congr rfl (g := fun _ => F f), Finset.sum_const, Fintype.card_subtype]
    intro τ hτ
    simp only [Finset.mem_filter] at hτ
    rw [hτ.2]
  rw [this, ← Finset.sum_nsmul, Finset.sum_filter]
  apply Finset.sum_congr rfl
  intro f _
  rw [card_perm_comp_eq]
  split_ifs <;> simp
