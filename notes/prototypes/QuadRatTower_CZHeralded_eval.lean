-- core only
class Fld (K : Type) extends Add K, Mul K, Neg K, Inv K where
  zero : K
  one : K
instance {K} [Fld K] : OfNat K 0 := ⟨Fld.zero⟩
instance {K} [Fld K] : OfNat K 1 := ⟨Fld.one⟩
instance : Fld Rat := { zero := 0, one := 1 }

structure Quad (K : Type) [Fld K] (d : K) where
  a : K
  b : K
deriving DecidableEq, Repr

namespace Quad
variable {K : Type} [Fld K] {d : K}
instance : Add (Quad K d) := ⟨fun x y => ⟨x.a + y.a, x.b + y.b⟩⟩
instance : Neg (Quad K d) := ⟨fun x => ⟨-x.a, -x.b⟩⟩
instance : Mul (Quad K d) := ⟨fun x y => ⟨x.a*y.a + d*(x.b*y.b), x.a*y.b + x.b*y.a⟩⟩
instance : Inv (Quad K d) := ⟨fun x =>
  let nrm := (x.a*x.a + -(d*(x.b*x.b)))⁻¹
  ⟨x.a*nrm, -(x.b*nrm)⟩⟩
instance : Fld (Quad K d) := { zero := ⟨0,0⟩, one := ⟨1,0⟩ }
def root : Quad K d := ⟨0, 1⟩
def lift (x : K) : Quad K d := ⟨x, 0⟩
end Quad

abbrev Q2 := Quad Rat 2                      -- √2
abbrev Q4 := Quad Q2 (Quad.root : Q2)        -- 2^(1/4)
def r2 : Q4 := Quad.lift Quad.root           -- √2 in Q4
def q4 : Q4 := Quad.root                     -- 2^(1/4)
def three : Q4 := Quad.lift (Quad.lift 3)
def two : Q4 := Quad.lift (Quad.lift 2)
def wArg : Q4 := three * r2⁻¹ + -two
abbrev W := Quad Q4 wArg                     -- √(3/√2 − 2)
def negOneW : W := Quad.lift (-(1:Q4))
abbrev C := Quad W negOneW                   -- i
def I : C := Quad.root
def ofW (x : W) : C := Quad.lift x
def ofQ4 (x : Q4) : C := ofW (Quad.lift x)
def ofRat (x : Rat) : C := ofQ4 (Quad.lift (Quad.lift x))
def sqrt2 : C := ofQ4 r2
def fourthRoot2 : C := ofQ4 q4
def w : C := ofW Quad.root

def mat (n : Nat) (f : Nat → Nat → C) : Array (Array C) := Array.ofFn (n:=n) fun i => Array.ofFn (n:=n) fun j => f i j
def get (A : Array (Array C)) (i j : Nat) : C := (A.getD i #[]).getD j 0
def mmul (n : Nat) (A B : Array (Array C)) := mat n fun i j => (List.range n).foldl (fun acc k => acc + get A i k * get B k j) 0

-- u_ns
def half : C := ofRat (1/2)
def uns : Nat → Nat → C := fun i j =>
  let a00 := 1 + -sqrt2
  let a01 := fourthRoot2⁻¹
  let a02 := w
  let a11 := half
  let a12 := half + -(sqrt2⁻¹)
  let a22 := sqrt2 + -half
  match i, j with
  | 0,0 => a00 | 0,1 => a01 | 0,2 => a02
  | 1,0 => a01 | 1,1 => a11 | 1,2 => a12
  | 2,0 => a02 | 2,1 => a12 | 2,2 => a22
  | _,_ => 0
def ua : Array (Array C) := mat 8 fun i j =>
  let v := if 1 ≤ i ∧ i < 4 ∧ 1 ≤ j ∧ j < 4 then uns (3 - i) (3 - j)
    else if 4 ≤ i ∧ i < 7 ∧ 4 ≤ j ∧ j < 7 then uns (i-4) (j-4)
    else if i = j then 1 else 0
  if j = 3 then -v else v
def ubs : Array (Array C) := mat 8 fun i j =>
  let s := sqrt2⁻¹
  if (i = 3 ∧ j = 3) ∨ (i = 4 ∧ j = 4) then s
  else if (i = 3 ∧ j = 4) ∨ (i = 4 ∧ j = 3) then I * s
  else if i = j then 1 else 0
def swp : Nat → Nat := fun m => match m with | 2 => 0 | 0 => 1 | 1 => 2 | 5 => 7 | 7 => 6 | 6 => 5 | m => m
def p1 : Array (Array C) := mat 8 fun j i => if swp i = j then 1 else 0
def p2 : Array (Array C) := mat 8 fun i j => if swp i = j then 1 else 0
def ufull := mmul 8 p2 (mmul 8 ubs (mmul 8 ua (mmul 8 ubs p1)))

-- permanent by expansion
def permL : List (List C) → C
  | [] => 1
  | row :: rest =>
    (List.range row.length).foldl (fun acc j =>
      acc + row.getD j 0 * permL (rest.map fun r => r.eraseIdx j)) 0
termination_by l => l.length

-- heralds: modes 0:0, 1:1, 6:1, 7:0 ; qubit modes 2,3,4,5
def fullState (s : List Nat) : List Nat := [0,1] ++ s ++ [1,0]
def idxs (s : List Nat) : List Nat := (s.zipIdx.map fun (k,i) => List.replicate k i).flatten
def amp (ins outs : List Nat) : C :=
  let x := idxs (fullState outs); let y := idxs (fullState ins)
  permL (x.map fun r => y.map fun c => get ufull r c)

def basis : List (List Nat) := [[1,0,1,0],[1,0,0,1],[0,1,1,0],[0,1,0,1]]
#eval basis.map fun i => basis.map fun o => (amp i o == ofRat (1/4), amp i o == ofRat (-1/4), amp i o == 0)
#eval amp [1,0,1,0] [2,0,0,0] == 0
