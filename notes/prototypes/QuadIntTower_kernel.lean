structure Quad (K : Type) (d : K) where
  a : K
  b : K
deriving DecidableEq, Repr
namespace Quad
variable {K : Type} [Add K] [Mul K] [Neg K] [OfNat K 0] [OfNat K 1] {d : K}
instance : Add (Quad K d) := ⟨fun x y => ⟨x.a + y.a, x.b + y.b⟩⟩
instance : Neg (Quad K d) := ⟨fun x => ⟨-x.a, -x.b⟩⟩
instance : Mul (Quad K d) := ⟨fun x y => ⟨x.a*y.a + d*(x.b*y.b), x.a*y.b + x.b*y.a⟩⟩
instance : OfNat (Quad K d) 0 := ⟨⟨0,0⟩⟩
instance : OfNat (Quad K d) 1 := ⟨⟨1,0⟩⟩
def root : Quad K d := ⟨0, 1⟩
def lift (x : K) : Quad K d := ⟨x, 0⟩
end Quad
abbrev Z2 := Quad Int 2
abbrev Z4 := Quad Z2 (Quad.root : Z2)
def r2 : Z4 := Quad.lift Quad.root
def vArg : Z4 := Quad.lift (⟨-8, 6⟩ : Z2)      -- 6√2 − 8
abbrev V := Quad Z4 vArg
abbrev C := Quad V (Quad.lift (Quad.lift (Quad.lift (-1 : Int))))
def I : C := Quad.root
def v : C := Quad.lift Quad.root
def q : C := Quad.lift (Quad.lift Quad.root)
def s2 : C := Quad.lift (Quad.lift r2)
def x : C := 1 + s2 + q + v + I
def pw : Nat → C → C
  | 0, _ => 1
  | n+1, y => y * pw n y
-- a 4x4 permanent of entries made from x powers
def permN : (n : Nat) → (Nat → Nat → C) → C
  | 0, _ => 1
  | n+1, M => (List.range (n+1)).foldl (fun acc j =>
      acc + M 0 j * permN n (fun r c => M (r+1) (if c < j then c else c+1))) 0
def ent (r c : Nat) : C := pw (r + 2*c) x + I * pw c x
theorem t : (permN 4 ent == permN 4 (fun r c => ent r c)) = true := by decide +kernel
theorem t2 : (pw 8 x * pw 8 x == pw 16 x) = true := by decide +kernel
#print axioms t
