import Mathlib.LinearAlgebra.Matrix.Permanent
import Mathlib.Algebra.BigOperators.Ring.Finset

open Equiv Finset Matrix

variable {n : Type*} [Fintype n] [DecidableEq n] {ι : Type*} [Fintype ι] [DecidableEq ι]
  {R : Type*} [CommSemiring R]

/-- first half of Cauchy–Binet for permanents -/
theorem permanent_mul_expand (A : Matrix n ι R) (B : Matrix ι n R) :
    (A * B).permanent = ∑ f : n → ι, (∏ k, A k (f k)) * (Matrix.of fun r c => B (f r) c).permanent := by
  classical
  simp only [Matrix.permanent, Matrix.mul_apply, Matrix.of_apply]
  -- expand product of sums
  have h1 : ∀ σ : Perm n, ∏ i, ∑ z, A (σ i) z * B z i
      = ∑ f : n → ι, ∏ i, A (σ i) (f i) * B (f i) i := by
    intro σ
    rw [Finset.prod_univ_sum]
    simp [Fintype.piFinset_univ]
  simp_rw [h1]
  rw [Finset.sum_comm]
  -- reindex f ↦ f ∘ σ⁻¹ inside
  have h2 : ∀ σ : Perm n, ∑ f : n → ι, ∏ i, A (σ i) (f i) * B (f i) i
      = ∑ f : n → ι, (∏ k, A k (f k)) * ∏ i, B (f (σ i)) i := by
    intro σ
    rw [← (Equiv.arrowCongr σ.symm (Equiv.refl ι)).sum_comp]
    apply Finset.sum_congr rfl
    intro f _
    simp only [Equiv.arrowCongr_apply, Equiv.refl_apply, Function.comp_apply, Equiv.symm_symm,
      Finset.prod_mul_distrib, Function.id_comp]
    congr 1
    exact Equiv.prod_comp σ (fun k => A k (f k))
  rw [Finset.sum_comm]
  simp_rw [h2]
  rw [Finset.sum_comm]
  simp_rw [Finset.mul_sum]
