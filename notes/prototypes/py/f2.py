import lightworks as lw, numpy as np, itertools
from lightworks import emulator as emu, qubit
from qiskit import QuantumCircuit
from qiskit.quantum_info import Operator
def conv_matrix(qc, aps):
    circ, ps = qubit.qiskit_converter(qc, allow_post_selection=aps)
    n=qc.num_qubits
    basis=list(itertools.product([0,1],repeat=n))
    def st(b):
        s=[]
        for x in b: s+= [1,0] if x==0 else [0,1]
        return lw.State(s)
    sim=emu.Simulator(circ)
    # all outputs for the photon number
    res=sim.simulate([st(b) for b in basis])
    A=np.zeros((2**n,2**n),dtype=complex); leak=0
    for i,b in enumerate(basis):
        for o,a in res[st(b)].items():
            if ps is not None and not ps.validate(o): continue
            pairs=[tuple(o[2*k:2*k+2]) for k in range(n)]
            if all(p in [(1,0),(0,1)] for p in pairs):
                ob=tuple(0 if p==(1,0) else 1 for p in pairs)
                A[basis.index(ob),i]=a
            else: leak+=abs(a)**2
    return A,leak,basis
def qiskit_mat(qc,basis):
    U=Operator(qc).data; n=qc.num_qubits
    # qiskit little-endian: index = sum b_k 2^k
    idx=[sum(b[k]<<k for k in range(n)) for b in basis]
    return U[np.ix_(idx,idx)]
def compare(qc,aps):
    try: A,leak,basis=conv_matrix(qc,aps)
    except Exception as e: return 'raise '+type(e).__name__+': '+str(e)[:60]
    V=qiskit_mat(qc,basis)
    k=np.vdot(V.flatten(),A.flatten())/np.vdot(V.flatten(),V.flatten())
    err=np.abs(A-k*V).max()
    return dict(scalar2=abs(k)**2, err=err, leak=leak)
qc=QuantumCircuit(3); qc.ccx(0,1,2); qc.cx(0,1)
print('ccx;cx ps', compare(qc,True))
qc=QuantumCircuit(3); qc.h(0); qc.cz(0,1); qc.h(1); qc.cx(1,2)
print('cz;cx ps', compare(qc,True)); print('cz;cx her', compare(qc,False))
qc=QuantumCircuit(3); qc.h(0);qc.cx(0,2); qc.ry(0.3,2); qc.cz(2,0)
print('nonadj', compare(qc,True), compare(qc,False))
qc=QuantumCircuit(2); qc.h(0);qc.cx(1,0); qc.t(1); qc.sx(0); qc.rx(0.7,1); qc.y(0); qc.p(0.3,1); qc.sdg(0); qc.tdg(1); qc.rz(1.1,0); qc.swap(0,1)
print('single', compare(qc,True), compare(qc,False))
