import lightworks as lw, numpy as np, sys, warnings
from lightworks import emulator as emu
from c02 import fock
rng=np.random.default_rng(int(sys.argv[1]) if len(sys.argv)>1 else 0)
bad={}
for t in range(120):
    n=int(rng.integers(2,5)); nh=int(rng.integers(0,3)); N=n+nh
    c=lw.Circuit(N); c.add(lw.Unitary(lw.random_unitary(N,seed=int(rng.integers(1e6)))))
    lossy=rng.random()<0.5
    if lossy:
        for _ in range(int(rng.integers(1,3))): c.loss(int(rng.integers(N)),float(rng.uniform(0.1,0.6)))
        c.add(lw.Unitary(lw.random_unitary(N,seed=int(rng.integers(1e6)))))
    hm=[int(x) for x in rng.permutation(N)[:nh]]
    for m in hm: c.herald(int(rng.integers(0,2)),m,m)
    k=int(rng.integers(1,3))
    ins=[s for s in fock(n,k)]; inp=ins[int(rng.integers(len(ins)))]
    ps=lw.PostSelection()
    if rng.random()<0.5: ps.add(int(rng.integers(n)),(0,1))
    try:
        a=emu.Analyzer(c); a.post_selection=ps; r=a.analyze(lw.State(inp))
    except Exception as e:
        bad.setdefault(('analyzer',type(e).__name__,str(e)[:40]),[]).append(t); continue
    s=emu.Sampler(c,lw.State(inp)); pd=s.probability_distribution
    hv=c.heralds['output']
    # sampler prob of heralded outputs
    acc={}
    for st,p in pd.items():
        if all(st[m]==v for m,v in hv.items()):
            red=lw.State([st[i] for i in range(N) if i not in hv])
            if ps.validate(red): acc[red]=acc.get(red,0)+p
    for o in r.outputs:
        if abs(r[lw.State(inp),o]-acc.get(o,0))>1e-7: bad.setdefault('analyzer!=sampler',[]).append((t,lossy,str(o),r[lw.State(inp),o],acc.get(o,0))); break
    miss=[o for o in acc if o not in r.outputs and acc[o]>1e-7]
    if miss: bad.setdefault('analyzer missing outputs',[]).append(t)
    if abs(r.performance-sum(acc.values()))>1e-7: bad.setdefault('performance',[]).append((t,r.performance,sum(acc.values())))
    # quick sampler: conditional on no loss
    try:
        q=emu.QuickSampler(c,lw.State(inp),post_select=ps); qd=q.probability_distribution
        cond={o:p for o,p in acc.items() if o.n_photons==k}
        tot=sum(cond.values())
        for o,p in qd.items():
            if abs(p-cond.get(o,0)/tot)>1e-6: bad.setdefault('quick!=cond',[]).append((t,lossy)); break
    except Exception as e:
        bad.setdefault(('quick',type(e).__name__,str(e)[:40]),[]).append(t)
for k,v in bad.items(): print(k,len(v),v[:3])
print('finished')
