import lightworks as lw, numpy as np
def mk():
    P=lw.Circuit(3)
    h=lw.Unitary(lw.random_unitary(2,seed=1)); h.herald(0,0)
    P.add(h,0)   # ancilla at full 0
    return P
A=mk(); A.bs(0,1,loss=0.3)
B=mk(); B.bs(0,1); B.loss(0,0.3); B.loss(1,0.3)
print(A._internal_modes, np.allclose(A.U_full,B.U_full))
print([ (type(s).__name__, getattr(s,'mode',None)) for s in A._get_circuit_spec()])
print([ (type(s).__name__, getattr(s,'mode',None)) for s in B._get_circuit_spec()])
A=mk(); A.ps(0,1.0,loss=0.3)
B=mk(); B.ps(0,1.0); B.loss(0,0.3)
print(np.allclose(A.U_full,B.U_full))
A=mk()
try: A.bs(1,2,loss=0.3); print('ok', [ (type(s).__name__, getattr(s,'mode',None)) for s in A._get_circuit_spec()])
except Exception as e: print(type(e).__name__, e, [ (type(s).__name__) for s in A._get_circuit_spec()])
