import lightworks as lw, numpy as np
from lightworks import qubit
# F3: argument mutated when a parent's ancilla lies strictly inside span of ungrouped addition
P=lw.Circuit(4)
P.add(qubit.CZ(),0)      # ancillas at full 0 and 5
print(P.n_modes,P._internal_modes)
P2=lw.Circuit(4)
h=lw.Unitary(lw.random_unitary(3,seed=1)); h.herald(0,1)
P2.add(h,1)   # ancilla inside at full index 2
print(P2.n_modes,P2._internal_modes)
sub=lw.Circuit(3); sub.bs(0); sub.bs(1)
print('before',sub.n_modes)
P2.add(sub,0)   # span user 0..2 => full 0..3 includes ancilla 2
print('after',sub.n_modes, sub.U.shape)
# shared gate instance
from lightworks.qubit.converter.qiskit_convert import SINGLE_QUBIT_GATES_MAP
print(SINGLE_QUBIT_GATES_MAP['h'].n_modes)
