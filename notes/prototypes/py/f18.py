import lightworks as lw, numpy as np
P=lw.Circuit(2)
h=lw.Unitary(lw.random_unitary(4,seed=1)); h.herald(0,0); h.herald(1,3)
P.add(h,0)   # full: [A, p0, p1, B]
print(P.n_modes, P._internal_modes, P.input_modes)
sub=lw.Circuit(2); sub.bs(0)
try:
    P.add(sub,1); print('accepted oversize add', [(type(s).__name__, getattr(s,'mode_1',None), getattr(s,'mode_2',None)) for s in P._get_circuit_spec()])
except Exception as e: print(type(e).__name__, e)
try:
    P.bs(1); print('bs(1) accepted', [(type(s).__name__, getattr(s,'mode_1',None), getattr(s,'mode_2',None)) for s in P._get_circuit_spec()])
except Exception as e: print(type(e).__name__, e)
