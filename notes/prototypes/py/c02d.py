from c02 import *
rng=np.random.default_rng(11)
stats={}
def mk(rng,nP,maxh=2, same=None, group=None, sort=True):
    nu=int(rng.integers(1,nP+1)); nh=int(rng.integers(0,maxh+1)); N=nu+nh
    V=lw.random_unitary(N,seed=int(rng.integers(1e6)))
    hin=list(rng.permutation(N)[:nh])
    if sort: hin=sorted(hin)
    hout=hin if same else list(rng.permutation(N)[:nh])
    heralds=[(int(rng.integers(0,2)),int(i),int(o)) for i,o in zip(hin,hout)]
    mode=int(rng.integers(0,nP-nu+1))
    g = bool(rng.random()<0.5) if group is None else group
    return ('sub',mode,V,heralds,g)
for trial in range(3000):
    nP=int(rng.integers(1,5))
    s1=bool(rng.random()<0.5); s2=bool(rng.random()<0.5); so1=bool(rng.random()<0.5); so2=bool(rng.random()<0.5)
    o1=mk(rng,nP,same=s1,group=True,sort=so1); o2=mk(rng,nP,same=s2,sort=so2)
    if not o1[3]: continue
    r=check([o1,o2],nP)
    same1=all(h[1]==h[2] for h in o1[3]); same2=all(h[1]==h[2] for h in o2[3])
    sorted1=[h[1] for h in o1[3]]==sorted(h[1] for h in o1[3]); sorted2=[h[1] for h in o2[3]]==sorted(h[1] for h in o2[3])
    key=('same1',same1,'sorted1',sorted1,'same2',same2,'sorted2',sorted2,'h2',len(o2[3])>0, None if r is None else r[0])
    d=(nP,[('sub',o[1],o[2].shape[0],o[3],o[4]) for o in (o1,o2)])
    stats.setdefault(key,[]).append(d)
for k in sorted(stats,key=str): print(k,len(stats[k]), min(stats[k],key=lambda z:len(str(z))) if k[-1] is not None else '')
