import lightworks as lw, numpy as np, warnings
from lightworks import emulator as emu, qubit
from lightworks.tomography import LIProcessTomography, MLEProcessTomography, GateFidelity, StateTomography, choi_from_unitary, density_from_state
def exp_proc(circuits, inputs):
    out=[]
    for c,i in zip(circuits,inputs):
        s=emu.Sampler(c,i); out.append({k:v for k,v in s.probability_distribution.items()})
    return out
def exp_state_factory(inp):
    def f(circuits):
        return [dict(emu.Sampler(c,inp).probability_distribution) for c in circuits]
    return f
gates={'H':qubit.H(),'S':qubit.S(),'T':qubit.T(),'Ry':qubit.Ry(0.7),'Rx':qubit.Rx(0.7),'Y':qubit.Y(),'SX':qubit.SX()}
for name,g in gates.items():
    V=g.U
    ref=choi_from_unitary(V)
    li=LIProcessTomography(1,g,exp_proc); c=li.process()
    with warnings.catch_warnings():
        warnings.simplefilter('ignore')
        mle=MLEProcessTomography(1,g,exp_proc); cm=mle.process()
    gf=GateFidelity(1,g,exp_proc).process(V)
    print(name,'LI err',np.abs(c-ref).max().round(4),'LI err vs choi(V.T)',np.abs(c-choi_from_unitary(V.T)).max().round(4),'LIfid',round(li.fidelity(ref),4),'MLE fid',round(mle.fidelity(ref),4), 'MLE vs V.T', round(mle.fidelity(choi_from_unitary(V.T)),4),'gatefid',round(gf,6))
# state tomography Y basis
c=lw.Circuit(2); c.add(qubit.H()); c.add(qubit.S())   # |+i>
st=StateTomography(1,c,exp_state_factory(lw.State([1,0]))); rho=st.process()
psi=c.U[:,0]; print('state tomo err', np.abs(rho-density_from_state(psi)).max(), st.fidelity(density_from_state(psi)))
c=lw.Circuit(2); c.add(qubit.Ry(0.4)); c.add(qubit.T()); c.add(qubit.Rx(1.1))
st=StateTomography(1,c,exp_state_factory(lw.State([1,0]))); rho=st.process()
psi=c.U[:,0]; print('state tomo err', np.abs(rho-density_from_state(psi)).max(), st.fidelity(density_from_state(psi)))
