import lightworks as lw, numpy as np, warnings
from lightworks.interferometers import Reck, ErrorModel
from lightworks.interferometers.dists import Gaussian, TopHat, Constant
from lightworks.sdk.circuit.components import PhaseShifter, BeamSplitter
rng=np.random.default_rng(0)
def test(U,name):
    c=lw.Unitary(U)
    try:
        m=Reck().map(c)
    except Exception as e:
        print(name,'RAISE',type(e).__name__,e); return
    err=np.abs(m.U-U).max()
    ph=[s.phi for s in m._get_circuit_spec() if isinstance(s,PhaseShifter)]
    okph=all(0<=p<2*np.pi for p in ph)
    adj=all(abs(s.mode_1-s.mode_2)==1 for s in m._get_circuit_spec() if isinstance(s,BeamSplitter))
    if err>1e-8 or not okph or not adj: print(name,'err',err,'phases ok',okph,'adj',adj)
for n in range(1,7):
    test(np.eye(n,dtype=complex),f'id{n}')
    for k in range(10):
        test(lw.random_permutation(n,seed=k),f'perm{n}_{k}')
        U=lw.random_unitary(n,seed=k); test(U,f'haar{n}_{k}')
        # block diagonal
        if n>=3:
            B=np.eye(n,dtype=complex); a=int(rng.integers(1,n-1)); B[:a,:a]=lw.random_unitary(a,seed=k); B[a:,a:]=lw.random_unitary(n-a,seed=k+1); test(B,f'block{n}_{k}')
        # permutation with phases
        P=lw.random_permutation(n,seed=k)@np.diag(np.exp(1j*rng.uniform(0,6,n))); test(P,f'pperm{n}_{k}')
        # near zero entries
        U2=lw.random_unitary(n,seed=k); 
        if n>=2:
            G=np.eye(n,dtype=complex); e=10.0**(-rng.integers(8,19)); G[0,0]=np.cos(e);G[1,1]=np.cos(e);G[0,1]=np.sin(e);G[1,0]=-np.sin(e)
            test(lw.random_permutation(n,seed=k)@G,f'near{n}_{k}')
print('done')
# error model
em=ErrorModel(); em.bs_reflectivity=Gaussian(0.5,0.05,min_value=0,max_value=1); em.loss=TopHat(0,0.2); em.phase_offset=Gaussian(0,0.1)
r=Reck(em); c=lw.Unitary(lw.random_unitary(4,seed=1))
m1=r.map(c,seed=5); m2=r.map(c,seed=5); m3=r.map(c,seed=6)
print('same seed',np.allclose(m1.U_full,m2.U_full),'diff seed',np.allclose(m1.U_full,m3.U_full))
# herald circuit
c=lw.Unitary(lw.random_unitary(4,seed=1)); c.herald(1,0,2); c.herald(0,3,1)
m=Reck().map(c); print(m.heralds, c.heralds, np.abs(m.U-c.U).max())
# lossy circuit?
c=lw.Circuit(3); c.bs(0); c.loss(0,0.3)
try: Reck().map(c); print('lossy mapped')
except Exception as e: print('lossy',type(e).__name__,e)
