import lightworks as lw, numpy as np
from lightworks import emulator as emu, qubit
# F6
try:
    a=emu.Analyzer(qubit.CNOT_Heralded())
    r=a.analyze(lw.State([1,0,1,0]))
    print('F6 ok', r.array.sum())
except Exception as e: print('F6', type(e).__name__, e)
# F7
c=lw.Circuit(2); c.bs(0)
q=emu.QuickSampler(c, lw.State([1,0]))
try: print(q.sample())
except Exception as e: print('F7 fresh', type(e).__name__, e)
q.probability_distribution
print(q.sample())
c2=lw.Circuit(2)  # identity
q.circuit=c2
print('after change', [str(q.sample()) for _ in range(10)])
# analyzer stale error_rate
a=emu.Analyzer(c); a.analyze(lw.State([1,0]), expected={lw.State([1,0]):lw.State([1,0])})
r=a.analyze(lw.State([1,0])); print('stale error_rate', getattr(r,'error_rate',None))
# Sampler heralds staleness
c3=lw.Circuit(3); c3.bs(0); c3.bs(1); c3.herald(0,2)
s=emu.Sampler(c3, lw.State([1,0])); p1=dict(s.probability_distribution)
c4=lw.Circuit(3); c4.bs(0); c4.bs(1); c4.herald(1,2)
s.circuit=c4; p2=dict(s.probability_distribution)
p3=emu.Sampler(c4, lw.State([1,0])).probability_distribution
print('herald stale?', p2==p1, p2==p3)
