import lightworks as lw, numpy as np, itertools, sys
from lightworks import emulator as emu
from c02 import fock, amp
from collections import defaultdict
def single(nu,pur,ind):
    p_i=ind**0.5; p_d=1-p_i
    if pur<1:
        g2=1-pur; b=2*(1-1/g2); p2=(-b-(b*b-4)**0.5)/2; p1=1-p2
    else: p1,p2=1,0
    # independent derivation: emission: with prob: nothing c0; photon: main photon indist (label 0) or dist (fresh); plus maybe noise photon fresh
    return p1,p2,p_i,p_d
def ref_dist(U_full,n_modes,loss_modes,instate,nu,pur,ind):
    p1,p2,p_i,p_d=single(nu,pur,ind)
    # per photon outcomes: (list of label kinds, prob): kinds: 'I' indist, 'D' fresh distinct, 'N' fresh noise
    outs=[([],1-nu*(p1+p2*nu+2*(1-nu)*p2)),(['I'],p_i*nu*(p1+(1-nu)*p2)),(['D'],p_d*nu*(p1+(1-nu)*p2)),(['N'],nu*(1-nu)*p2),(['I','N'],nu**2*p_i*p2),(['D','N'],nu**2*p_d*p2)]
    photons=[m for m,k in enumerate(instate) for _ in range(k)]
    total=defaultdict(float)
    N=n_modes+loss_modes
    cache={}
    def bs_dist(occ):
        key=tuple(occ)
        if key in cache: return cache[key]
        n=sum(occ); d=defaultdict(float)
        full=list(occ)+[0]*loss_modes
        for o in fock(N,n):
            a=amp(U_full,full,o); d[tuple(o[:n_modes])]+=abs(a)**2
        cache[key]=d; return d
    for combo in itertools.product(outs,repeat=len(photons)):
        pr=1.0
        for c in combo: pr*=c[1]
        if pr==0: continue
        groups=[]  # list of occupation vectors
        ind_occ=[0]*n_modes
        for m,c in zip(photons,combo):
            for k in c[0]:
                if k=='I': ind_occ[m]+=1
                else:
                    v=[0]*n_modes; v[m]=1; groups.append(v)
        if sum(ind_occ): groups.append(ind_occ)
        dist={tuple([0]*n_modes):1.0}
        for g in groups:
            nd=defaultdict(float)
            for s1,q1 in dist.items():
                for s2,q2 in bs_dist(g).items():
                    nd[tuple(a+b for a,b in zip(s1,s2))]+=q1*q2
            dist=nd
        for s,q in dist.items(): total[s]+=pr*q
    return total
rng=np.random.default_rng(int(sys.argv[1]) if len(sys.argv)>1 else 0)
worst=0
for t in range(25):
    n=int(rng.integers(2,5)); c=lw.Circuit(n); c.add(lw.Unitary(lw.random_unitary(n,seed=int(rng.integers(1e6)))))
    lossy=rng.random()<0.5
    if lossy:
        c.loss(int(rng.integers(n)),float(rng.uniform(0.1,0.6))); c.add(lw.Unitary(lw.random_unitary(n,seed=int(rng.integers(1e6)))))
    ins=[int(x) for x in rng.integers(0,3,n)]
    while sum(ins)>3 or sum(ins)==0: ins=[int(x) for x in rng.integers(0,3,n)]
    nu,pur,ind=float(rng.choice([1,0.7,0.9])),float(rng.choice([1,0.8,0.95])),float(rng.choice([1,0,0.6,0.9]))
    for be in ['permanent','slos']:
        s=emu.Sampler(c,lw.State(ins),source=emu.Source(purity=pur,brightness=nu,indistinguishability=ind),backend=be)
        p=s.probability_distribution
        b=c._build(); r=ref_dist(b.U_full,n,b.loss_modes,ins,nu,pur,ind)
        keys=set(r)|{tuple(k.s) for k in p}
        err=max(abs(r.get(k,0)-p.get(lw.State(list(k)),0)) for k in keys)
        tot=sum(p.values())
        if err>1e-7 or abs(tot-1)>1e-7: print('MISMATCH',n,ins,nu,pur,ind,lossy,be,'err',err,'tot',tot)
        worst=max(worst,err)
print('worst',worst)
