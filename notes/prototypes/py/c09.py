import lightworks as lw, numpy as np, sys
from lightworks import emulator as emu
rng=np.random.default_rng(int(sys.argv[1]) if len(sys.argv)>1 else 0)
def rand_circ(rng, n, depth, allow_sub=True):
    c=lw.Circuit(n)
    for _ in range(depth):
        k=rng.choice(['bs','bs','ps','swap','swap','loss','barrier','unitary','sub','hsub'])
        vis=c.n_modes-len(c._internal_modes)
        try:
            if k=='bs':
                a,b=rng.choice(vis,2,replace=False); c.bs(int(a),int(b),reflectivity=float(rng.uniform()),convention=str(rng.choice(['Rx','H'])))
            elif k=='ps': c.ps(int(rng.integers(vis)), float(rng.uniform(0,6)))
            elif k=='swap':
                m=int(rng.integers(2,vis+1)); ms=rng.choice(vis,m,replace=False); pm=rng.permutation(ms)
                c.mode_swaps({int(a):int(b) for a,b in zip(ms,pm)})
            elif k=='loss': c.loss(int(rng.integers(vis)), float(rng.uniform(0,0.8)))
            elif k=='barrier': c.barrier([int(x) for x in rng.choice(vis,int(rng.integers(1,vis+1)),replace=False)])
            elif k=='unitary':
                m=int(rng.integers(1,vis+1)); c.add(lw.Unitary(lw.random_unitary(m,seed=int(rng.integers(1e6)))), int(rng.integers(0,vis-m+1)))
            elif k=='sub' and allow_sub:
                m=int(rng.integers(2,vis+1)); s=rand_circ(rng,m,3,False); c.add(s,int(rng.integers(0,vis-m+1)),group=bool(rng.random()<0.5))
            elif k=='hsub' and allow_sub:
                m=int(rng.integers(1,vis+1)); s=rand_circ(rng,m+1,3,False)
                hm=int(rng.integers(m+1)); s.herald(int(rng.integers(2)),hm,hm); c.add(s,int(rng.integers(0,vis-m+1)))
        except Exception as e:
            print('build err',k,type(e).__name__,e); raise
    return c
def snapshot(c): return (c.n_modes, c.U_full.copy(), c.heralds, c.input_modes)
def same(a,b): return a[0]==b[0] and a[1].shape==b[1].shape and np.allclose(a[1],b[1],atol=1e-9) and a[2]==b[2] and a[3]==b[3]
from lightworks.sdk.circuit.components import Group, BeamSplitter
def has_group(spec): return any(isinstance(s,Group) for s in spec)
def nonadj(spec):
    for s in spec:
        if isinstance(s,BeamSplitter) and abs(s.mode_1-s.mode_2)!=1: return True
        if isinstance(s,Group) and nonadj(s.circuit_spec): return True
    return False
bad={}
for t in range(300):
    n=int(rng.integers(2,6)); c=rand_circ(rng,n,int(rng.integers(1,8)))
    s0=snapshot(c)
    for name in ['unpack_groups','compress_mode_swaps','remove_non_adjacent_bs','copy','copyf']:
        c2=c.copy()
        l0=len(c2._get_circuit_spec())
        try:
            if name=='copy': c2=c.copy()
            elif name=='copyf': c2=c.copy(freeze_parameters=True)
            else: getattr(c2,name)()
        except Exception as e:
            bad.setdefault((name,'raise',type(e).__name__),[]).append(t); continue
        if not same(s0,snapshot(c2)): bad.setdefault((name,'changed'),[]).append(t)
        if not same(s0,snapshot(c)): bad.setdefault((name,'orig changed'),[]).append(t)
        sp=c2._get_circuit_spec()
        if name=='unpack_groups' and has_group(sp): bad.setdefault((name,'group remains'),[]).append(t)
        if name=='remove_non_adjacent_bs' and nonadj(sp): bad.setdefault((name,'nonadj remains'),[]).append(t)
        if name=='compress_mode_swaps' and len(sp)>l0: bad.setdefault((name,'grew'),[]).append(t)
for k,v in bad.items(): print(k,len(v),v[:5])
print('done')
