import lightworks as lw, numpy as np
c=lw.Circuit(6)
c.mode_swaps({0:1,1:0}); c.ps(2,1.0); c.mode_swaps({2:3,3:2}); c.mode_swaps({4:5,5:4})
U0=c.U.copy(); c.compress_mode_swaps(); print(np.allclose(U0,c.U)); print(c._get_circuit_spec())
