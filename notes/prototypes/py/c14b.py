import lightworks as lw, numpy as np
from lightworks.interferometers import Reck
from lightworks.sdk.circuit.components import PhaseShifter
m=Reck().map(lw.Unitary(np.eye(5,dtype=complex)))
ph=[s.phi for s in m._get_circuit_spec() if isinstance(s,PhaseShifter)]
print([p for p in ph if not (0<=p<2*np.pi)], 2*np.pi)
print((-1e-17)%(2*np.pi), (-1e-17)%(2*np.pi) < 2*np.pi)
