import numpy as np, random
p=np.array([0.1,0.25,0.05,0.6]); vals=np.zeros(4,dtype=object)
for i in range(4): vals[i]=('s',i)
for seed in [0,1,7]:
    rng=np.random.default_rng(seed); s=rng.choice(vals,p=list(p),size=20)
    rng2=np.random.default_rng(seed); u=rng2.random(20)
    cdf=np.cumsum(p); cdf/=cdf[-1]; idx=cdf.searchsorted(u,side='right')
    print(seed, [x[1] for x in s]==list(idx))
# detector tape
random.seed(5); a=[random.random() for _ in range(3)]
random.seed(5); b=[random.random() for _ in range(3)]; print(a==b)
# size=N with N int; also what happens for size given as numpy int; and rng.choice with object array of States
