import lightworks as lw, numpy as np, itertools, sys
from lightworks import emulator as emu
from thewalrus import perm
from math import factorial, prod

def fock(N,n):
    if N==0:
        if n==0: yield []
        return
    if N==1: yield [n]; return
    for v in range(n+1):
        for r in fock(N-1,n-v): yield [v]+r

def amp(U, ins, outs):
    x=[i for i,k in enumerate(outs) for _ in range(k)]
    y=[i for i,k in enumerate(ins) for _ in range(k)]
    if len(x)!=len(y): return 0
    if not x: return 1
    return perm(U[np.ix_(x,y)])/np.sqrt(prod(factorial(i) for i in ins)*prod(factorial(i) for i in outs))

class Ref:
    """reference: user modes 0..n-1, ancillas list of (photons); matrix over user+anc (in==out index)"""
    def __init__(s,n): s.n=n; s.anc=[]; s.U=np.eye(n,dtype=complex)
    def dim(s): return s.n+len(s.anc)
    def apply(s, M, modes):
        # M acts on listed indices
        d=s.dim(); E=np.eye(d,dtype=complex)
        for a,i in enumerate(modes):
            for b,j in enumerate(modes): E[i,j]=M[a,b]
        s.U=E@s.U
    def add_anc(s,k):
        d=s.dim(); U=np.eye(d+1,dtype=complex); U[:d,:d]=s.U; s.U=U; s.anc.append(k); return d
    def amps(s, ins, outs):
        return amp(s.U, list(ins)+s.anc, list(outs)+s.anc)

def ref_of_unitary_with_heralds(V, heralds):
    """heralds: list of (n,in_mode,out_mode) on a Unitary V. returns (M, user_in, user_out, anc) where M is V with rows/cols permuted so that user first"""
    N=V.shape[0]
    hin=[h[1] for h in heralds]; hout=[h[2] for h in heralds]
    uin=[i for i in range(N) if i not in hin]; uout=[i for i in range(N) if i not in hout]
    rows=uout+hout; cols=uin+hin
    return V[np.ix_(rows,cols)], [h[0] for h in heralds]

def check(parent_ops, nP, verbose=False):
    """parent_ops: list of ('ps',mode,phi) | ('sub',mode,V,heralds,group)"""
    P=lw.Circuit(nP); R=Ref(nP)
    for op in parent_ops:
        if op[0]=='ps':
            P.ps(op[1],op[2]); R.apply(np.array([[np.exp(1j*op[2])]]),[op[1]])
        elif op[0]=='bs':
            P.bs(op[1],op[2]); 
            th=np.arccos(0.5**0.5); R.apply(np.array([[np.cos(th),1j*np.sin(th)],[1j*np.sin(th),np.cos(th)]]),[op[1],op[2]])
        else:
            _,mode,V,heralds,group=op
            S=lw.Unitary(V)
            for h in heralds: S.herald(*h)
            M,anc=ref_of_unitary_with_heralds(V,heralds)
            nu=V.shape[0]-len(heralds)
            try:
                P.add(S,mode,group=group)
            except Exception as e:
                return ('raise',repr(e))
            idx=list(range(mode,mode+nu))+[R.add_anc(k) for k in anc]
            R.apply(M,idx)
    # compare
    if P.input_modes!=nP: return ('input_modes',P.input_modes)
    sim=emu.Simulator(P)
    for n in range(0,3):
        states=[s for s in fock(nP,n)]
        try:
            res=sim.simulate([lw.State(s) for s in states],[lw.State(s) for s in states]).array
        except Exception as e:
            return ('simraise',repr(e))
        for a,i in enumerate(states):
            for b,o in enumerate(states):
                r=R.amps(i,o)
                if abs(r-res[a,b])>1e-8: return ('amp',i,o,res[a,b],r)
    return None

if __name__=="__main__":
    rng=np.random.default_rng(int(sys.argv[1]) if len(sys.argv)>1 else 0)
    fails={}
    for trial in range(400):
        nP=int(rng.integers(2,5))
        ops=[]
        for k in range(int(rng.integers(1,4))):
            kind=rng.choice(['ps','bs','sub','sub'])
            if kind=='ps': ops.append(('ps',int(rng.integers(0,nP)),float(rng.uniform(0,6))))
            elif kind=='bs':
                a=int(rng.integers(0,nP-1)); ops.append(('bs',a,a+1))
            else:
                nu=int(rng.integers(1,nP+1)); nh=int(rng.integers(0,3)); N=nu+nh
                V=lw.random_unitary(N,seed=int(rng.integers(1e6)))
                hin=list(rng.permutation(N)[:nh]); 
                same=rng.random()<0.5
                hout=hin if same else list(rng.permutation(N)[:nh])
                heralds=[(int(rng.integers(0,2)),int(i),int(o)) for i,o in zip(hin,hout)]
                mode=int(rng.integers(0,nP-nu+1))
                ops.append(('sub',mode,V,heralds,bool(rng.random()<0.5)))
        r=check(ops,nP)
        if r is not None:
            key=(r[0],)
            desc=[(o[0],o[1],o[2]) if o[0]!='sub' else ('sub',o[1],o[2].shape[0],o[3],o[4]) for o in ops]
            fails.setdefault(r[0],[]).append((nP,desc,r if r[0]!='amp' else r[:3]))
    for k,v in fails.items():
        print(k,len(v))
        for x in sorted(v,key=lambda z: len(str(z)))[:4]: print('   ',x)
