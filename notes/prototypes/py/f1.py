import lightworks as lw, numpy as np
from lightworks import emulator as emu
# F1: slos normalisation with loss
bad=0; tot=0
for seed in range(40):
    rng=np.random.default_rng(seed)
    c=lw.Circuit(3)
    c.add(lw.Unitary(lw.random_unitary(3,seed=seed)))
    c.loss(0,float(rng.uniform(0.1,0.9))); c.loss(1,float(rng.uniform(0.1,0.9)))
    c.add(lw.Unitary(lw.random_unitary(3,seed=seed+100)))
    for be in ["permanent","slos"]:
        s=emu.Sampler(c, lw.State([1,1,0]), backend=be)
        p=s.probability_distribution
        t=sum(p.values())
        if be=="slos":
            tot+=1
            if abs(t-1)>1e-6: bad+=1
        if seed<3: print(seed,be,t, p.get(lw.State([0,0,0])))
print("slos bad",bad,"/",tot)
