import matplotlib; matplotlib.use('Agg')
import matplotlib.pyplot as plt
import lightworks as lw, numpy as np, sys, warnings
warnings.simplefilter('ignore')
from c09 import rand_circ, snapshot, same
rng=np.random.default_rng(3)
bad={}
for t in range(150):
    n=int(rng.integers(1,6))
    try: c=rand_circ(rng,max(n,2),int(rng.integers(0,8)))
    except Exception as e: continue
    s0=snapshot(c)
    for dt in ['svg','mpl']:
        for dl in [False,True]:
            try:
                lw.Display(c,display_loss=dl,display_type=dt,show_parameter_values=bool(rng.random()<0.5))
                plt.close('all')
            except Exception as e:
                bad.setdefault((dt,type(e).__name__,str(e)[:50]),[]).append(t)
    if not same(s0,snapshot(c)): bad.setdefault('changed',[]).append(t)
for k,v in bad.items(): print(k,len(v))
c=lw.Circuit(3); c.barrier([])
for dt in ['svg','mpl']:
    try: lw.Display(c,display_type=dt); print(dt,'ok')
    except Exception as e: print('barrier[]',dt,type(e).__name__,e)
c=lw.Circuit(1); c.ps(0,1)
for dt in ['svg','mpl']:
    try: lw.Display(c,display_type=dt); print(dt,'ok')
    except Exception as e: print('1mode',dt,type(e).__name__,e)
c=lw.Circuit(3); c.mode_swaps({})
for dt in ['svg','mpl']:
    try: lw.Display(c,display_type=dt); print(dt,'ok')
    except Exception as e: print('swaps{}',dt,type(e).__name__,e)
p=lw.Parameter(0.5,label='a'); c=lw.Circuit(3); c.bs(0,reflectivity=p); c.ps(1,lw.Parameter(1.0)); c.loss(2,lw.Parameter(0.2,label='l'))
for dt in ['svg','mpl']:
  for sv in [True,False]:
    try: lw.Display(c,display_type=dt,show_parameter_values=sv,display_loss=True); print(dt,'ok')
    except Exception as e: print('param',dt,type(e).__name__,e)
