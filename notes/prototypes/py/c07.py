import lightworks as lw, numpy as np
from lightworks import emulator as emu, qubit
s=emu.Sampler(qubit.CNOT_Heralded(), lw.State([1,0,1,0]))
print([str(s.sample()) for _ in range(5)])
c=lw.Circuit(3); c.bs(0); c.bs(1); c.herald(0,2)
s=emu.Sampler(c, lw.State([1,0])); print([str(s.sample()) for _ in range(8)])
from lightworks.emulator.state import AnnotatedState
a=AnnotatedState([[0],[1]]); a[0].append(7); print(a, a.n_photons)
p=lw.Parameter(0.5,bounds=[0,1]); p.set(float('nan')); print(p.get(), p.min_bound, p.max_bound)
st=lw.State([1,0]); l=[1,0]; st2=lw.State(l); l[0]=5; print(st2)
