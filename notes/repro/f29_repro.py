import numpy as np, lightworks as lw
from lightworks import emulator as emu
s=emu.Sampler(lw.Unitary(lw.random_unitary(3,seed=1)), lw.State([1,1,0]))
a=s.sample_N_inputs(20, seed=5)
try:
    b=s.sample_N_inputs(20, seed=np.int64(5))
except Exception as e:
    print("FAIL", type(e).__name__, e); raise SystemExit(1)
assert dict(a)==dict(b), (a,b)
d=emu.Detector(efficiency=0.7,p_dark=0.1)
s.detector=d
a=s.sample_N_inputs(50, seed=7); b=s.sample_N_inputs(50, seed=np.int64(7)); c=s.sample_N_inputs(50, seed=7.0)
assert dict(a)==dict(b)==dict(c)
print("PASS")
