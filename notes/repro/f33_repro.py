import numpy as np
from qiskit import QuantumCircuit, QuantumRegister
from qiskit.quantum_info import Operator
import lightworks as lw
from lightworks import qubit, emulator
a = QuantumRegister(2, "a"); b = QuantumRegister(2, "b")
qc = QuantumCircuit(a, b)
qc.x(b[0]); qc.h(b[1])
circ, ps = qubit.qiskit_converter(qc)
# simulate |0000> -> amplitudes on dual-rail basis
sim = emulator.Simulator(circ)
n = 4
def dual(bits): 
    s=[]
    for x in bits: s += [1,0] if x==0 else [0,1]
    return lw.State(s)
import itertools
basis = list(itertools.product([0,1], repeat=n))
res = sim.simulate(dual((0,0,0,0)), [dual(bt) for bt in basis])
amps = np.array([res[dual((0,0,0,0)), dual(bt)] for bt in basis])
U = Operator(qc).data
# qiskit little-endian: basis index = sum bit_q << q
want = np.array([U[sum(bt[q] << q for q in range(n)), 0] for bt in basis])
k = np.vdot(want, amps) / np.vdot(want, want)
err = np.abs(amps - k*want).max()
print("max deviation", err, "scalar", k)
raise SystemExit(0 if err < 1e-9 and abs(k) > 1e-9 else 1)
