"""F36: herald() with an integral mode that is not `int`. PYTHONPATH=<tree> /venv/bin/python f36_repro.py"""
import sys

import numpy as np

import lightworks as lw

bad = 0
for m in (np.int64(2), np.int32(2), 2.0):
    c = lw.Circuit(4)
    c.bs(0)
    c.herald(1, m)
    try:
        c.U_full
    except Exception as e:  # noqa: BLE001
        bad += 1
        print(f"FAIL F36: herald(1, {m!r}) was accepted but U_full raises {type(e).__name__}")
for m in (np.int64(0), np.int32(1), 1.0):
    c = lw.Circuit(3)
    h = lw.Circuit(2)
    h.herald(1, 0, 1)
    c.add(h, m)
    try:
        c.U_full
    except Exception as e:  # noqa: BLE001
        bad += 1
        print(f"FAIL F36: add(heralded, {m!r}) was accepted but U_full raises {type(e).__name__}")
print("PASS" if not bad else f"{bad} failures")
sys.exit(1 if bad else 0)
