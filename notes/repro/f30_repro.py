import lightworks as lw
from lightworks import emulator as emu
c=lw.Unitary(lw.random_unitary(3,seed=1)); ps=lw.PostSelection(); ps.add(0,(0,1,2))
q=emu.QuickSampler(c, lw.State([1,1,0]), post_select=ps); q.probability_distribution
ps.add(1,0)
bad=[str(s) for s in q.sample_N_outputs(100,seed=1) if not ps.validate(s)]
bad2=[str(s) for s in q.probability_distribution if not ps.validate(s)]
if bad or bad2:
    print("FAIL states violating the current post-selection:", sorted(set(bad)), sorted(set(bad2))); raise SystemExit(1)
print("PASS")
