import lightworks as lw
from lightworks import emulator
bad=[]
for k in (3,5,7,8,9):
    pur = 1 - 10.0**-k
    src = emulator.Source(purity=pur)
    d = emulator.Sampler(lw.Circuit(1), lw.State([1]), source=src).probability_distribution
    p1, p2 = d.get(lw.State([1]), 0.0), d.get(lw.State([2]), 0.0)
    g2 = 2*p2/(p1+2*p2)**2
    if abs(g2 - (1-pur)) > 1e-9*max(1, 0) or (k<=9 and g2==0):
        bad.append((pur, g2))
print("FAIL g2 != 1 - purity: %s" % bad if bad else "PASS"); raise SystemExit(1 if bad else 0)
