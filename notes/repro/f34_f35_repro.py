"""F34 / F35: factorial normalisation of both backends beyond 64 bits.
PYTHONPATH=<tree> /venv/bin/python f34_f35_repro.py  — prints FAIL lines on a tree without 056b708 / 51391d2."""
import sys
import warnings

import lightworks as lw
from lightworks import emulator

warnings.simplefilter("ignore")
c = lw.Circuit(2)
c.bs(0)
bad = 0
try:
    emulator.Simulator(c).simulate(lw.State([13, 0]), lw.State([13, 0]))
except Exception as e:  # noqa: BLE001
    bad += 1
    print("FAIL F34: Simulator |13,0> -> |13,0> raised", type(e).__name__)
for st in ([14, 13], [15, 12], [21, 0]):
    try:
        tot = sum(emulator.Sampler(c, lw.State(st), backend="slos").probability_distribution.values())
        n = len(emulator.Sampler(c, lw.State(st), backend="slos").probability_distribution)
        if abs(tot - 1) > 1e-6 or n != sum(st) + 1:
            bad += 1
            print(f"FAIL F35: slos distribution of {st}: {n} patterns summing to {tot}")
    except Exception as e:  # noqa: BLE001
        bad += 1
        print(f"FAIL F35: slos distribution of {st} raised", type(e).__name__)
print("PASS" if not bad else f"{bad} failures")
sys.exit(1 if bad else 0)
