import lightworks as lw
from lightworks import emulator
c=lw.Circuit(2); c.bs(0,1,reflectivity=0.3); i=lw.State([1,0])
a=emulator.Analyzer(c)
e1=a.analyze(i,{i:[lw.State([1,0])]}).error_rate
e2=a.analyze(i,{i:[lw.State([1,0]),lw.State([1,0])]}).error_rate
e3=a.analyze(i,{i:[lw.State([1,0]),lw.State([0,1]),lw.State([1,0]),lw.State([0,1])]}).error_rate
print(e1,e2,e3)
ok = abs(e1-e2)<1e-12 and abs(e3)<1e-12 and e3>-1e-12
print("PASS" if ok else "FAIL: an expected output listed twice is counted twice (error rate below the true value, can be negative)")
raise SystemExit(0 if ok else 1)
