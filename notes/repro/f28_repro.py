import numpy as np
from lightworks.tomography.utils import state_fidelity
e = 6.25585058458156e-35
rho = np.array([[0,0,0,e],[0,0,e,0],[0,e,0.5,-0.5],[e,0,-0.5,0.5]], dtype=complex)
try:
    print("fidelity", state_fidelity(rho, rho))
except Exception as ex:
    print("RAISED", type(ex).__name__, ex)
