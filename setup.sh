#!/bin/bash
# MANIFEST.setup_cmd: build the Lean library (model, proofs, property theorems) and the driver.
set -e
HERE="$(cd "$(dirname "${BASH_SOURCE[0]}")" && pwd)"
cd "$HERE/lean"
lake build LW lwdriver 2>&1 | tail -n 20
test -x .lake/build/bin/lwdriver
echo "setup ok"
