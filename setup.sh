#!/bin/bash
# MANIFEST.setup_cmd: build the Lean library (model, proofs, every property module) and the driver.
set -e
HERE="$(cd "$(dirname "${BASH_SOURCE[0]}")" && pwd)"
cd "$HERE/lean"
MODS=$(ls LW/Properties/*.lean | sed 's#/#.#g; s#\.lean$##')
lake build lwdriver $MODS 2>&1 | tail -n 15
test -x .lake/build/bin/lwdriver
echo "setup ok"
